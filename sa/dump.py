"""Debug helper: python -m sa.dump [HandlerName] - commit-sequence shapes per handler."""
import collections
import sys
import time

from .context import get_context
from .handlers import handler_paths, registered_handlers
from .seq import commit_seq, fmt_seq


def main():
    ctx = get_context(sys.argv[2] if len(sys.argv) > 2 else "/repo")
    only = sys.argv[1] if len(sys.argv) > 1 and sys.argv[1] != "-" else None
    for h in registered_handlers(ctx.prog):
        if h.marker or (only and h.cls.name != only):
            continue
        t = time.time()
        it, paths = handler_paths(ctx, h)
        shapes = collections.Counter((fmt_seq(commit_seq(s.trace)), o.kind + (":" + o.exc if o.kind == "raise" else "")) for s, o in paths)
        print(f"== {h.cls.name}: {len(paths)} paths, {len(shapes)} shapes, infeasible={it.infeasible} {time.time()-t:.2f}s unresolved={len(it.unresolved_sensitive)}")
        for (sq, ex), n in sorted(shapes.items()):
            print(f"   {n:5d} {ex:28s} {sq}")


main()
