"""Debug helper: python -m sa.dump [Name|-] [repo] - commit-sequence shapes per entry."""
import collections
import sys
import time

from .context import get_context
from .paths import all_paths
from .seq import commit_seq, fmt_seq


def main():
    ctx = get_context(sys.argv[2] if len(sys.argv) > 2 else "/repo")
    only = sys.argv[1] if len(sys.argv) > 1 and sys.argv[1] != "-" else None
    t = time.time()
    res = all_paths(ctx)
    print(f"all entries: {time.time()-t:.1f}s cached={getattr(ctx, '_paths_cached', None)}")
    for name, r in res.items():
        if only and name != only:
            continue
        shapes = collections.Counter((fmt_seq(commit_seq(p.trace)), p.outcome + (":" + p.exc if p.outcome == "raise" else "")) for p in r.paths)
        print(f"== {name}: {len(r.paths)} paths, {len(shapes)} shapes, infeasible={r.infeasible} {r.seconds:.2f}s unresolved={len(r.unresolved)}")
        if only:
            for (sq, ex), n in sorted(shapes.items()):
                print(f"   {n:5d} {ex:28s} {sq}")


main()
