"""Both-ways self-test of the checkers: seeded mutants must be reported, seeded refactors must stay silent.

Each case edits a scratch copy of <repo>/src (outside /repo and /verif, removed afterwards) by exact
snippet replacement and runs the property's check on the copy (no evidence written).
"""
from __future__ import annotations

import concurrent.futures as cf
import os
import shutil
import subprocess
import sys
import tempfile
import time

from .mutants import CASES

VERIF = os.path.dirname(os.path.dirname(os.path.abspath(__file__)))


def _run_case(args):
    case, repo = args
    cid, pid, kind, edits = case["id"], case["property"], case["kind"], case["edits"]
    tmp = tempfile.mkdtemp(prefix="sa-selftest-")
    try:
        dst = os.path.join(tmp, "repo")
        shutil.copytree(os.path.join(repo, "src"), os.path.join(dst, "src"), ignore=shutil.ignore_patterns("__pycache__"))
        if case.get("patch"):
            r0 = subprocess.run(["patch", "-p1", "-s", "-i", os.path.join(VERIF, case["patch"])], cwd=dst, capture_output=True, text=True)
            if r0.returncode != 0:
                return cid, pid, kind, "BROKEN", "seed patch does not apply"
        for rel, old, new in edits:
            p = os.path.join(dst, rel)
            with open(p, encoding="utf-8") as fh:
                s = fh.read()
            if s.count(old) != 1:
                return cid, pid, kind, "BROKEN", f"snippet occurs {s.count(old)} times in {rel}"
            with open(p, "w", encoding="utf-8") as fh:
                fh.write(s.replace(old, new))
        # the variant must still compile
        for rel, _, _ in edits:
            r = subprocess.run([sys.executable, "-m", "py_compile", os.path.join(dst, rel)], capture_output=True, text=True)
            if r.returncode != 0:
                return cid, pid, kind, "BROKEN", "variant does not compile"
        env = dict(os.environ, SA_NO_CACHE="1", SA_JOBS="2", VERIF_TIER="quick")      # the variant is judged by the quick rules (no recursion into the thorough tier)
        r = subprocess.run([sys.executable, "-m", "sa.cli", pid, "--repo", dst, "--no-evidence", "--jobs", "2"], cwd=VERIF, capture_output=True, text=True, env=env, timeout=900)
        out = r.stdout + r.stderr
        viol = [l for l in out.splitlines() if l.startswith("  ") and "rule=" in l]
        want = case.get("expect_rule")
        if kind == "mutant":
            if r.returncode == 1 and (not want or any(want in l for l in viol)):
                return cid, pid, kind, "KILLED", (viol[0].strip()[:160] if viol else "")
            if r.returncode == 2:
                return cid, pid, kind, "ERROR", out.strip().splitlines()[-2][:200] if out.strip() else "exit 2"
            return cid, pid, kind, "MISSED", (viol[0].strip()[:160] if viol else f"exit {r.returncode}")
        else:
            if r.returncode == 0:
                return cid, pid, kind, "SILENT", ""
            return cid, pid, kind, "FALSE-ALARM", (viol[0].strip()[:200] if viol else out.strip().splitlines()[-2][:200])
    except Exception as e:  # pragma: no cover
        return cid, pid, kind, "BROKEN", f"{type(e).__name__}: {e}"
    finally:
        shutil.rmtree(tmp, ignore_errors=True)


def run_slice(pid: str, repo: str, jobs: int = 8) -> list:
    """results [(case id, kind, verdict, detail)] of the property's slice of the battery (used by the thorough tier)"""
    cases = [c for c in CASES if c["property"] == pid.upper()]
    out = []
    with cf.ProcessPoolExecutor(max_workers=max(1, min(jobs, 8))) as ex:
        for cid, _pid, kind, verdict, detail in ex.map(_run_case, [(c, repo) for c in cases]):
            out.append((cid, kind, verdict, detail))
    return out


def main(only: str | None, repo: str, jobs: int) -> int:
    cases = [c for c in CASES if not only or c["property"] == only.upper() or c["id"] == only]
    t = time.time()
    bad = 0
    with cf.ProcessPoolExecutor(max_workers=max(1, min(jobs, 8))) as ex:
        for cid, pid, kind, verdict, detail in ex.map(_run_case, [(c, repo) for c in cases]):
            good = verdict in ("KILLED", "SILENT")
            bad += 0 if good else 1
            print(f"{'ok ' if good else 'BAD'} {pid} {kind:8s} {cid:40s} {verdict:11s} {detail}")
    print(f"selftest: {len(cases)} cases, {bad} bad, {time.time() - t:.1f}s")
    return 0 if bad == 0 else 1
