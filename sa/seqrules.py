"""T-SEQ: commit-sequence typestate rules shared by C01, C02, C05, C09, C13, C17, C18.

Every rule quantifies over all enumerated paths of all registered handlers (and the
recovery sweep). A path is (effect trace, outcome); its commit sequence is the fold of
the trace (sa.seq). Reports are keyed by rule + handler + normalised shape, never by line.
"""
from __future__ import annotations

import re
from dataclasses import dataclass, field

from .seq import Commit, commit_seq, fmt_effect, fmt_seq

CONTINUATION = {
    "StartStage", "StartTask", "RunTask", "CompleteTask", "CompleteStage", "CompleteWorkflow", "ContinueParentStage", "SkipStage",
    "CancelStage", "JumpToStage", "StartWorkflow", "PauseTask", "CancelWorkflow", "StartWaitingWorkflows",
}


def own_origin(origin: tuple) -> bool:
    """Is the object the entity the incoming message addresses (re-read from the store in this activation)?"""
    if not origin:
        return False
    if origin[0] == "call" and origin[1] in ("retrieve_stage", "retrieve") and len(origin) > 2 and str(origin[2]).startswith("message."):
        return True
    if origin[0] == "param" and origin[1] in ("stage", "task", "task_model", "execution", "workflow"):
        return True
    if origin[0] == "iter" and len(origin) > 2:
        parent = origin[2]
        # element of <own stage>.tasks
        return isinstance(parent, tuple) and parent[:1] == ("attr",) and parent[2:3] == ("tasks",)
    return False


def atoms(c: Commit) -> tuple:
    out = []
    for e in c.effects:
        if e.kind == "push":
            out.append("push:" + str(e.get("cls")) + ("(same)" if e.get("same") else ""))
        elif e.kind == "auto":
            a = str(e.get("api"))
            if a == "queue.push":
                a += ":" + str(e.get("cls")) + ("(same)" if e.get("same") else "")
            out.append(a)
        elif e.kind == "mark":
            out.append("mark" if e.get("incoming") else "mark(other)")
        elif e.kind == "event":
            continue
        elif e.kind == "claim":
            out.append("claim")
        else:
            out.append(e.kind)
    return tuple(sorted(set(out)))


def shape(seq: list[Commit]) -> str:
    """Loop-collapsed, status-free shape of a commit sequence: used as the report key."""
    parts = []
    for c in seq:
        a = ",".join(atoms(c))
        s = ("TXN{" + a + "}") if c.kind == "TXN" else ("AUTO " + a)
        if c.kind == "AUTO" and c.loop:
            s += "*"
        if parts and parts[-1] == s and s.endswith("*"):
            continue
        parts.append(s)
    return " ; ".join(parts) if parts else "-"


@dataclass
class PathInfo:
    handler: str
    message: str
    outcome: str
    exc: str
    trace: tuple
    seq: list[Commit]
    synthetic_after: int | None = None       # trace index of the first unknown-exception edge (None: none)

    @property
    def shape(self) -> str:
        return shape(self.seq)

    def marks(self) -> list[int]:
        return [i for i, c in enumerate(self.seq) if any(e.kind == "mark" and e.get("incoming") for e in c.effects)]

    def pushes(self, i: int | None = None) -> list:
        cs = self.seq if i is None else [self.seq[i]]
        out = []
        for c in cs:
            for e in c.effects:
                if e.kind == "push" or (e.kind == "auto" and e.get("api") == "queue.push"):
                    out.append(e)
        return out

    def status_writes(self) -> list:
        return [e for e in self.trace if e.kind == "status_write"]

    def where(self) -> tuple:
        for c in reversed(self.seq):
            return c.site
        for e in self.trace:
            return e.site
        return ("", 0)


def path_infos(results: dict) -> list[PathInfo]:
    out = []
    for name, r in results.items():
        for p in r.paths:
            syn = None
            for i, e in enumerate(p.trace):
                if e.kind == "synthetic":
                    syn = i
                    break
            out.append(PathInfo(name, r.message, p.outcome, p.exc, p.trace, commit_seq(p.trace), syn))
    return out


def commits_after_synthetic(pi: PathInfo) -> set[int]:
    """Indices of commits that happen after an unknown-exception edge (fault scenarios, not crash points)."""
    if pi.synthetic_after is None:
        return set()
    return {i for i, c in enumerate(pi.seq) if c.index > pi.synthetic_after}
