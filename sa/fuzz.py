"""./check fuzz [mode] - whole-tree behaviour-preserving rewrites of the CURRENT /repo/src (sa/fuzz_transforms.py); every
check must give the same verdict as on the unchanged tree: exit 0 (KNOWN-FINDING lines included). Scratch copies live
outside /repo and /verif and are removed afterwards."""
from __future__ import annotations

import concurrent.futures as cf
import os
import shutil
import subprocess
import sys
import tempfile
import time

from .fuzz_transforms import MODES, write_variant

VERIF = os.path.dirname(os.path.dirname(os.path.abspath(__file__)))


def _run(args):
    mode, repo = args
    tmp = tempfile.mkdtemp(prefix=f"sa-fuzz-{mode}-")
    try:
        write_variant(mode, tmp, os.path.join(repo, "src"))
        env = dict(os.environ, SA_NO_CACHE="1", SA_JOBS="3", VERIF_TIER="quick")
        r = subprocess.run([sys.executable, "-m", "sa.cli", "all", "--repo", tmp, "--no-evidence"], cwd=VERIF, capture_output=True, text=True, env=env, timeout=3000)
        lines = [l for l in r.stdout.splitlines() if l[:1] == "C" and " [" in l[:6]]
        bad = [l.split()[0] + ":" + l.split()[-1] for l in lines if not l.rstrip().endswith("exit=0")]
        first = [l.strip()[:200] for l in r.stdout.splitlines() if "rule=" in l or l.startswith("ANALYSIS-ERROR")][:3]
        return mode, len(lines), bad, first
    except Exception as e:  # pragma: no cover
        return mode, 0, [f"{type(e).__name__}: {e}"], []
    finally:
        shutil.rmtree(tmp, ignore_errors=True)


def main(only: str | None, repo: str, jobs: int) -> int:
    modes = [m for m in MODES if not only or m == only]
    t = time.time()
    worst = 0
    with cf.ProcessPoolExecutor(max_workers=max(1, min(jobs, 4))) as ex:
        for mode, n, bad, first in ex.map(_run, [(m, repo) for m in modes]):
            ok = n == 20 and not bad
            worst = max(worst, 0 if ok else 1)
            print(f"{'ok ' if ok else 'BAD'} fuzz {mode:9s} checks={n} " + ("all silent" if ok else f"alarms: {bad} {first}"))
    print(f"fuzz: {len(modes)} rewrites, {time.time() - t:.0f}s, exit={worst}")
    return worst
