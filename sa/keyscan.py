"""T-WHO over context keys: every site that writes / deletes / reads a given stage-context key."""
from __future__ import annotations

import ast

from .model import Program, norm


def key_sites(prog: Program, key: str) -> list[dict]:
    """[{func, file, line, op}] for subscripts / get / pop / del / update-literal mentioning `key` as a string constant."""
    out = []
    for f in prog.all_functions():
        if f.module.name.startswith(("stabilize.cli", "stabilize.monitor")):
            continue
        for n in ast.walk(f.node):
            op = None
            if isinstance(n, ast.Subscript) and isinstance(n.slice, ast.Constant) and n.slice.value == key:
                op = "write" if isinstance(n.ctx, ast.Store) else ("delete" if isinstance(n.ctx, ast.Del) else "read")
            elif isinstance(n, ast.Call) and isinstance(n.func, ast.Attribute) and n.args and isinstance(n.args[0], ast.Constant) and n.args[0].value == key:
                if n.func.attr in ("pop", "__delitem__"):
                    op = "delete"
                elif n.func.attr in ("get", "__getitem__", "setdefault"):
                    op = "read" if n.func.attr == "get" else "write"
            elif isinstance(n, ast.Dict):
                for k in n.keys:
                    if isinstance(k, ast.Constant) and k.value == key:
                        op = "dict-literal"
            elif isinstance(n, (ast.Tuple, ast.List, ast.Set)) and any(isinstance(e, ast.Constant) and e.value == key for e in n.elts):
                op = "listed"
            if op:
                out.append({"func": f, "qual": _qual(f, n), "file": f.file, "line": getattr(n, "lineno", f.node.lineno), "op": op})
    return out


def _qual(f, node) -> str:
    best = f.qualname
    span = f.node.end_lineno - f.node.lineno
    for n in ast.walk(f.node):
        if isinstance(n, (ast.FunctionDef, ast.AsyncFunctionDef)) and n is not f.node and n.lineno <= getattr(node, "lineno", 0) <= n.end_lineno and (n.end_lineno - n.lineno) < span:
            best = f"{f.qualname}.{n.name}"
            span = n.end_lineno - n.lineno
    return best
