"""Reads models/status.py by AST: enum members with (complete, halt) flags, the
named status sets, VALID_TRANSITIONS. Never imports the repository."""
from __future__ import annotations

import ast
from dataclasses import dataclass

from .model import AnalysisError, Program

STATUS_MODULE = "stabilize.models.status"
ENUM = "WorkflowStatus"


@dataclass
class StatusTables:
    members: tuple[str, ...]
    complete: frozenset[str]
    halt: frozenset[str]
    sets: dict[str, frozenset[str]]          # every module-level frozenset of members
    transitions: dict[str, frozenset[str]]
    props: dict[str, frozenset[str]]         # is_complete/is_halt/... -> members for which it is True

    @property
    def all(self) -> frozenset[str]:
        return frozenset(self.members)


def _member_of(node: ast.expr) -> str | None:
    if isinstance(node, ast.Attribute) and isinstance(node.value, ast.Name) and node.value.id == ENUM:
        return node.attr
    return None


def _member_set(node: ast.expr) -> frozenset[str] | None:
    """frozenset({WorkflowStatus.A, ...}) / {WorkflowStatus.A, ...} / frozenset()"""
    if isinstance(node, ast.Call) and isinstance(node.func, ast.Name) and node.func.id in ("frozenset", "set"):
        if not node.args:
            return frozenset()
        return _member_set(node.args[0])
    if isinstance(node, (ast.Set, ast.List, ast.Tuple)):
        out = []
        for e in node.elts:
            m = _member_of(e)
            if m is None:
                return None
            out.append(m)
        return frozenset(out)
    return None


def load(prog: Program) -> StatusTables:
    mod = prog.module(STATUS_MODULE)
    if ENUM not in mod.classes:
        raise AnalysisError("WorkflowStatus enum not found")
    cls = mod.classes[ENUM].node
    members: list[str] = []
    complete: set[str] = set()
    halt: set[str] = set()
    for st in cls.body:
        if isinstance(st, ast.Assign) and len(st.targets) == 1 and isinstance(st.targets[0], ast.Name):
            v = st.value
            if isinstance(v, ast.Tuple) and len(v.elts) == 3 and all(isinstance(e, ast.Constant) for e in v.elts):
                name = st.targets[0].id
                members.append(name)
                if v.elts[1].value is True:
                    complete.add(name)
                if v.elts[2].value is True:
                    halt.add(name)
    if len(members) < 2:
        raise AnalysisError("WorkflowStatus members not recognised")
    sets: dict[str, frozenset[str]] = {}
    transitions: dict[str, frozenset[str]] = {}
    for name, value in mod.assigns.items():
        s = _member_set(value)
        if s is not None:
            sets[name] = s
        elif name == "VALID_TRANSITIONS" and isinstance(value, ast.Dict):
            for k, v in zip(value.keys, value.values):
                km = _member_of(k) if k is not None else None
                vs = _member_set(v)
                if km is None or vs is None:
                    raise AnalysisError("VALID_TRANSITIONS entry not recognised")
                if km in transitions:
                    raise AnalysisError(f"VALID_TRANSITIONS duplicate key {km}")
                transitions[km] = vs
    if not transitions:
        raise AnalysisError("VALID_TRANSITIONS not found")
    # properties: derive from the property bodies (return self._complete / self in SET / self == X / self in {..})
    props: dict[str, frozenset[str]] = {}
    init_map = {"_complete": frozenset(complete), "_halt": frozenset(halt)}
    for st in cls.body:
        if isinstance(st, ast.FunctionDef) and st.name.startswith("is_"):
            ret = [n for n in ast.walk(st) if isinstance(n, ast.Return)]
            if len(ret) != 1 or ret[0].value is None:
                raise AnalysisError(f"status property {st.name}: unrecognised body")
            v = ret[0].value
            val: frozenset[str] | None = None
            if isinstance(v, ast.Attribute) and isinstance(v.value, ast.Name) and v.value.id == "self" and v.attr in init_map:
                val = init_map[v.attr]
            elif isinstance(v, ast.Compare) and len(v.ops) == 1 and isinstance(v.left, ast.Name) and v.left.id == "self":
                c = v.comparators[0]
                if isinstance(v.ops[0], ast.In):
                    if isinstance(c, ast.Name) and c.id in sets:
                        val = sets[c.id]
                    else:
                        val = _member_set(c)
                elif isinstance(v.ops[0], ast.Eq):
                    m = _member_of(c)
                    val = frozenset([m]) if m else None
            if val is None:
                raise AnalysisError(f"status property {st.name}: unrecognised body")
            props[st.name] = val
    return StatusTables(tuple(members), frozenset(complete), frozenset(halt), sets, transitions, props)
