"""Verdicts, evidence JSON, known-findings matching, replay files."""
from __future__ import annotations

import json
import os
import time
from dataclasses import dataclass, field

VERIF = os.path.dirname(os.path.dirname(os.path.abspath(__file__)))
KNOWN = os.path.join(VERIF, "known_findings.json")


@dataclass
class Instance:
    rule: str
    construct: str
    ok: bool
    detail: str = ""
    file: str = ""
    line: int = 0
    key: str = ""
    vacuous: bool = False

    def as_sample(self) -> dict:
        return {
            "rule": self.rule,
            "construct": self.construct,
            "verdict": "holds" if self.ok else "FAILS",
            "where": f"{self.file}:{self.line}" if self.file else "",
            "detail": self.detail[:300],
        }


@dataclass
class Report:
    pid: str
    tier: str = "quick"
    repo: str = "/repo"
    instances: list[Instance] = field(default_factory=list)
    analysed: dict = field(default_factory=dict)
    errors: list[str] = field(default_factory=list)
    notes: list[str] = field(default_factory=list)
    assumptions: list[str] = field(default_factory=list)
    undecided: list[str] = field(default_factory=list)
    rules: dict[str, str] = field(default_factory=dict)
    floors: list[tuple[str, int, int]] = field(default_factory=list)
    t0: float = field(default_factory=time.time)

    # ---------------------------------------------------------------- record
    def rule(self, rid: str, text: str) -> None:
        self.rules[rid] = text

    def ok(self, rule: str, construct: str, detail: str = "", file: str = "", line: int = 0, vacuous: bool = False) -> None:
        self.instances.append(Instance(rule, construct, True, detail, file, line, f"{rule}:{construct}", vacuous))

    def fail(self, rule: str, construct: str, detail: str, file: str = "", line: int = 0, disc: str = "") -> None:
        key = f"{rule}:{construct}" + (f":{disc}" if disc else "")
        self.instances.append(Instance(rule, construct, False, detail, file, line, key))

    def check(self, cond: bool, rule: str, construct: str, detail: str = "", file: str = "", line: int = 0, disc: str = "") -> bool:
        if cond:
            self.ok(rule, construct, detail, file, line)
        else:
            self.fail(rule, construct, detail, file, line, disc)
        return cond

    def error(self, reason: str) -> None:
        self.errors.append(reason)

    def floor(self, what: str, count: int, minimum: int) -> None:
        """A rule must match at least the instance count confirmed by hand."""
        self.floors.append((what, count, minimum))

    def count(self, **kw) -> None:
        for k, v in kw.items():
            self.analysed[k] = self.analysed.get(k, 0) + v if isinstance(v, int) and isinstance(self.analysed.get(k, 0), int) else v

    # ---------------------------------------------------------------- finish
    def _known(self) -> dict[str, dict]:
        try:
            with open(KNOWN) as fh:
                data = json.load(fh)
        except FileNotFoundError:
            return {}
        out = {}
        for e in data.get("findings", []):
            if e.get("property") == self.pid:
                out[e["key"]] = e
        return out

    def finish(self, write_evidence: bool = True) -> int:
        known = self._known()
        fails = [i for i in self.instances if not i.ok]
        open_known = [i for i in fails if known.get(i.key, {}).get("status") == "open"]
        new = [i for i in fails if i not in open_known]
        for what, count, minimum in self.floors:
            if count < minimum:
                self.errors.append(f"floor: {what} matched {count} < confirmed {minimum}")
        # de-duplicate identical reports (same key reached over several paths)
        seen: set[str] = set()
        for i in open_known:
            if i.key in seen:
                continue
            seen.add(i.key)
            print(f"KNOWN-FINDING: property={self.pid} {i.key} {known[i.key].get('what', '')} [{i.file}:{i.line}]")
        code = 0
        replay_path = ""
        if new:
            code = 1
            os.makedirs(os.path.join(VERIF, "replay"), exist_ok=True)
            replay_path = os.path.join(VERIF, "replay", f"{self.pid}.json")
            uniq: dict[str, Instance] = {}
            for i in new:
                uniq.setdefault(i.key, i)
            with open(replay_path, "w") as fh:
                json.dump(
                    {
                        "property": self.pid,
                        "repo": self.repo,
                        "violations": [
                            {"key": i.key, "rule": i.rule, "construct": i.construct, "file": i.file, "line": i.line, "detail": i.detail}
                            for i in uniq.values()
                        ],
                    },
                    fh,
                    indent=1,
                )
            print(f"VIOLATION property={self.pid} replay={replay_path}")
            for i in uniq.values():
                print(f"  {i.file}:{i.line} rule={i.rule} instance={i.construct} :: {i.detail}")
        elif self.errors:
            code = 2
        if self.errors:
            for e in self.errors:
                print(f"ANALYSIS-ERROR property={self.pid} {e}")
        wall = time.time() - self.t0
        obligations = len(self.instances)
        discharged = sum(1 for i in self.instances if i.ok)
        distinct = len({i.key for i in self.instances if not i.vacuous and i.file})
        if write_evidence:
            samples = [i.as_sample() for i in fails[:10]]
            per_rule: dict[str, int] = {}
            for i in self.instances:
                per_rule[i.rule] = per_rule.get(i.rule, 0) + 1
            shown: set[str] = set()
            for i in self.instances:
                if i.ok and i.rule not in shown and i.file:
                    shown.add(i.rule)
                    samples.append(i.as_sample())
            explanation = (
                "Static analysis of the current source tree (no execution). Rules: "
                + "; ".join(f"{k}: {v}" for k, v in self.rules.items())
                + ". Analysed: "
                + json.dumps(self.analysed, sort_keys=True)
                + ". Clauses NOT decided by this check: "
                + ("; ".join(self.undecided) or "none listed")
            )
            ev = {
                "property_id": self.pid,
                "tier": self.tier,
                "seed": int(os.environ.get("VERIF_SEED", "0") or 0),
                "level": "other",
                "coverage": {
                    "explanation": explanation,
                    "evaluations": max(obligations, 1),
                    "distinct_nontrivial": distinct,
                    "rule": "one evaluation = one rule instance (rule x construct) found in the parsed tree; non-trivial = bound to a concrete source construct (file:line), distinct = distinct rule:construct keys",
                    "samples": samples or [{"note": "no instances"}],
                    "obligations": obligations,
                    "discharged": discharged,
                    "instances_per_rule": per_rule,
                    "analysed": self.analysed,
                    "floors": [{"what": w, "matched": c, "confirmed_minimum": m} for w, c, m in self.floors],
                    "known_findings_matched": sorted({i.key for i in open_known}),
                    "undecided_clauses": self.undecided,
                    "notes": self.notes,
                    "checker_cmd": f"./check {self.pid} --tier {self.tier}",
                    "trusted_base": ["CPython ast", "SQLite atomic commit / writer serialisation", "reviewed tables in /verif/sa/rules"],
                    "exhaustive": True,
                    "analysis_errors": self.errors,
                },
                "assumptions": self.assumptions,
                "wall_s": round(wall, 3),
                "violations": len({i.key for i in new}),
            }
            os.makedirs(os.path.join(VERIF, "evidence"), exist_ok=True)
            with open(os.path.join(VERIF, "evidence", f"{self.pid}.json"), "w") as fh:
                json.dump(ev, fh, indent=1)
        print(
            f"{self.pid} [{self.tier}] obligations={obligations} discharged={discharged} "
            f"known={len({i.key for i in open_known})} new_violations={len({i.key for i in new})} "
            f"errors={len(self.errors)} wall={wall:.2f}s exit={code}"
        )
        return code
