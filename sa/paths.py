"""Path summaries for all analysis entry points, computed once per source digest.

Entry points: every registered handler's handle(message) plus the recovery sweep.
The enumeration runs in parallel (one process per entry) and its picklable result
(trace events + outcome per path) is cached under /verif/.cache keyed by the digest of
the analysed sources and of the analyser itself. The cache is an optimisation only:
a missing or stale entry is recomputed from /repo's current tree.
"""
from __future__ import annotations

import hashlib
import multiprocessing as mp
import os
import pickle
import time
from dataclasses import dataclass, field

from . import absval
from .model import AnalysisError

VERIF = os.path.dirname(os.path.dirname(os.path.abspath(__file__)))
CACHE_DIR = os.path.join(VERIF, ".cache")

# ---- configurations -------------------------------------------------------------
@dataclass(frozen=True)
class Config:
    """What the enumeration records besides commit effects (more events = more distinct paths)."""
    watch: frozenset = frozenset()        # call names recorded with a status snapshot
    ctx_keys: frozenset = frozenset()     # context keys whose writes are recorded
    guards: frozenset = frozenset()       # condition texts recorded when decided
    no_inline: frozenset = frozenset()    # function names kept opaque in this run
    muted: frozenset = frozenset({"except", "ctx"})
    path_cap: int = 0                     # 0: the global cap


BASE = Config(watch=frozenset({"execute_with_timeout", "on_timeout", "on_cancel"}), guards=frozenset({"execution.is_canceled", "parent_id", "phase is not None", "downstream_stages", "not downstream_stages", "activated_downstreams"}))


@dataclass
class PathSummary:
    trace: tuple
    outcome: str          # return | raise
    exc: str = ""


@dataclass
class EntryResult:
    name: str             # handler class name or entry label
    message: str          # message class name ('' for non-handler entries)
    paths: list = field(default_factory=list)
    infeasible: int = 0
    unresolved: list = field(default_factory=list)
    constructed: list = field(default_factory=list)   # (cls, site, {field: desc})
    seconds: float = 0.0
    error: str = ""
    file: str = ""
    line: int = 0


ENTRIES_EXTRA = [
    # label, module, qualname, args
    ("WorkflowRecovery._recover_workflow", "stabilize.recovery", "WorkflowRecovery._recover_workflow", {"workflow": ("workflow",)}),
]


def _sa_digest() -> str:
    h = hashlib.sha256()
    d = os.path.dirname(os.path.abspath(__file__))
    for fn in sorted(os.listdir(d)):
        if fn.endswith(".py"):
            with open(os.path.join(d, fn), "rb") as fh:
                h.update(fn.encode())
                h.update(fh.read())
    return h.hexdigest()


_REPO = None


def _work(job):
    """Runs in a worker process: enumerate one entry."""
    repo, kind, a, b, cfg = job
    from . import interp_cfg
    from .context import get_context
    from .handlers import registered_handlers
    from .interp import Interp

    absval.configure(set(cfg.muted), set(cfg.ctx_keys))
    ctx = get_context(repo)
    t = time.time()
    saved = set(interp_cfg.NO_INLINE)
    interp_cfg.NO_INLINE |= set(cfg.no_inline)
    try:
        it = Interp(ctx.prog, ctx.st, watch=set(cfg.watch), guards=set(cfg.guards))
        if cfg.path_cap:
            it.path_cap = cfg.path_cap
        if kind == "handler":
            entry = [h for h in registered_handlers(ctx.prog) if h.cls.name == a and h.message == b][0]
            fi = ctx.prog.find_method(entry.cls, "handle")
            if fi is None:
                raise AnalysisError(f"{a} has no handle()")
            raw = it.run_function(fi, self_cls=entry.cls, args={"message": ("message", entry.message)})
            res = EntryResult(a, b, file=fi.file, line=fi.node.lineno)
        else:
            label, modname, qual, args = a[:4]
            self_cls = a[4] if len(a) > 4 else None
            fi = ctx.prog.func(modname, qual)
            sc = ctx.prog.cls(*self_cls) if self_cls else None
            raw = it.run_function(fi, self_cls=sc, args=args)
            res = EntryResult(label, "", file=fi.file, line=fi.node.lineno)
        seen = set()
        for s, o in raw:
            k = (len(s.trace), s.thash, o.kind, o.exc)
            if k in seen:
                continue
            seen.add(k)
            res.paths.append(PathSummary(s.trace, o.kind, o.exc))
        res.infeasible = it.infeasible
        res.unresolved = list(it.unresolved_sensitive)
        cons = []
        for m in it.constructed:
            fields = {}
            for k, v in m.fields:
                fields[k] = sorted(v.members) if isinstance(v, absval.StatusV) else (v.value if isinstance(v, absval.Const) else type(v).__name__)
            cons.append((m.cls, m.site, fields))
        res.constructed = cons
        res.seconds = time.time() - t
        interp_cfg.NO_INLINE.clear()
        interp_cfg.NO_INLINE |= saved
        return res
    except AnalysisError as e:
        interp_cfg.NO_INLINE.clear()
        interp_cfg.NO_INLINE |= saved
        return EntryResult(a if isinstance(a, str) else a[0], b if isinstance(b, str) else "", error=str(e))
    except Exception as e:  # pragma: no cover - reported as analysis error by the caller
        import traceback

        return EntryResult(a if isinstance(a, str) else a[0], b if isinstance(b, str) else "", error=f"{type(e).__name__}: {e}\n{traceback.format_exc()[-1500:]}")


def all_paths(ctx, jobs: int = int(os.environ.get("SA_JOBS", "16"))) -> dict[str, EntryResult]:
    """name -> EntryResult for every registered (non-marker) handler and the extra entries."""
    cached = getattr(ctx, "_paths", None)
    if cached is not None:
        return cached
    from .handlers import registered_handlers

    key = hashlib.sha256((ctx.prog.digest + _sa_digest()).encode()).hexdigest()[:32]
    path = os.path.join(CACHE_DIR, f"paths-{key}.pkl")
    if os.path.exists(path) and not os.environ.get("SA_NO_CACHE"):
        try:
            with open(path, "rb") as fh:
                out = pickle.load(fh)
            ctx._paths = out
            ctx._paths_cached = True
            return out
        except Exception:
            pass
    hs = [h for h in registered_handlers(ctx.prog) if not h.marker]
    work = [(ctx.repo, "handler", h.cls.name, h.message, BASE) for h in hs]
    work += [(ctx.repo, "func", e, None, BASE) for e in ENTRIES_EXTRA]
    # longest first
    order = {"RunTaskHandler": 0, "CompleteStageHandler": 1, "StartStageHandler": 2, "JumpToStageHandler": 3}
    work.sort(key=lambda j: order.get(j[2] if isinstance(j[2], str) else "", 9))
    n = max(1, min(jobs, len(work), os.cpu_count() or 1))
    if n > 1:
        with mp.get_context("fork").Pool(n) as pool:
            results = pool.map(_work, work, chunksize=1)
    else:
        results = [_work(j) for j in work]
    out = {r.name: r for r in results}
    errs = [f"{r.name}: {r.error}" for r in results if r.error]
    if errs:
        raise AnalysisError("path enumeration failed: " + " | ".join(errs)[:2000])
    try:
        os.makedirs(CACHE_DIR, exist_ok=True)
        tmp = path + f".{os.getpid()}.tmp"
        with open(tmp, "wb") as fh:
            pickle.dump(out, fh)
        os.replace(tmp, path)
        # keep the cache small
        olds = sorted((os.path.join(CACHE_DIR, f) for f in os.listdir(CACHE_DIR) if f.startswith("paths-")), key=os.path.getmtime)
        for f in olds[:-4]:
            os.remove(f)
    except OSError:
        pass
    ctx._paths = out
    ctx._paths_cached = False
    return out


def probe(ctx, label: str, modname: str, qual: str, args: dict | None, cfg: Config, self_cls: tuple | None = None) -> EntryResult:
    """A targeted enumeration of one function with its own recording configuration (cached like all_paths)."""
    key = hashlib.sha256((ctx.prog.digest + _sa_digest() + repr((label, modname, qual, sorted((args or {}).items()), cfg, self_cls))).encode()).hexdigest()[:32]
    path = os.path.join(CACHE_DIR, f"probe-{key}.pkl")
    if os.path.exists(path) and not os.environ.get("SA_NO_CACHE"):
        try:
            with open(path, "rb") as fh:
                return pickle.load(fh)
        except Exception:
            pass
    res = _work((ctx.repo, "func", (label, modname, qual, args or {}, self_cls), None, cfg))
    if res.error:
        raise AnalysisError(f"probe {label}: {res.error}")
    try:
        os.makedirs(CACHE_DIR, exist_ok=True)
        tmp = path + f".{os.getpid()}.tmp"
        with open(tmp, "wb") as fh:
            pickle.dump(res, fh)
        os.replace(tmp, path)
        olds = sorted((os.path.join(CACHE_DIR, f) for f in os.listdir(CACHE_DIR) if f.startswith("probe-")), key=os.path.getmtime)
        for f in olds[:-60]:
            os.remove(f)
    except OSError:
        pass
    return res
