"""Abstract values and per-path state for the path-sensitive interpreter (E3)."""
from __future__ import annotations

from dataclasses import dataclass, field, replace
from typing import Any


def cached_hash(cls):
    """Frozen dataclass whose (deep) hash is computed once per instance."""
    gen = cls.__hash__

    def __hash__(self):
        h = self.__dict__.get("_h")
        if h is None:
            h = gen(self)
            object.__setattr__(self, "_h", h)
        return h

    cls.__hash__ = __hash__
    return cls


class _Top:
    def __repr__(self) -> str:
        return "TOP"


TOP = _Top()


@dataclass(frozen=True)
class Const:
    value: Any


@cached_hash
@dataclass(frozen=True)
class StatusV:          # one WorkflowStatus value, known to lie in `members`
    members: frozenset
    tok: str = ""        # alias token: every holder of the same runtime value shares it


@cached_hash
@dataclass(frozen=True)
class StatusSetV:       # a set/frozenset of statuses (right operand of `in`)
    members: frozenset


@dataclass(frozen=True)
class Ref:              # reference to an abstract heap object
    oid: str


@dataclass(frozen=True)
class Svc:              # store / queue / recorder service handle
    kind: str


@dataclass(frozen=True)
class Txn:
    tid: int


@cached_hash
@dataclass(frozen=True)
class FuncV:
    fi: Any                      # FuncInfo (or None for lambda)
    node: Any                    # ast.FunctionDef | ast.Lambda
    self_val: Any = None
    closure: int | None = None   # frame id of the defining frame
    bound: tuple = ()            # functools.partial keyword bindings
    module: Any = None


@dataclass(frozen=True)
class ClassV:
    ci: Any


@cached_hash
@dataclass(frozen=True)
class MsgV:
    cls: str
    fields: tuple = ()
    origin: str = "new"          # new | copy (copy_with_* of the incoming message)
    site: tuple = ()

    def get(self, name: str, default=None):
        for k, v in self.fields:
            if k == name:
                return v
        return default


@cached_hash
@dataclass(frozen=True)
class ListV:
    elems: tuple = ()
    open: bool = False           # may contain more elements shaped like `elems`
    nonempty: bool = False


@cached_hash
@dataclass(frozen=True)
class TupleV:
    elems: tuple = ()


@dataclass(frozen=True)
class EnumV:
    cls: str
    member: str | None


@dataclass(frozen=True)
class SymV:             # an opaque but named runtime value, e.g. message.stage_id
    text: str


@dataclass(frozen=True, eq=False)
class ObjData:
    kind: str                    # self | message | stage | task | workflow | list | exc | obj
    cls: Any = None              # ClassInfo | str | None
    origin: tuple = ()
    attrs: tuple = ()            # sorted tuple of (name, AbsVal)
    maybe_none: bool = False
    elem: str = ""               # for kind == list

    def _key(self):
        return (self.kind, id(self.cls) if not isinstance(self.cls, str) else self.cls, self.origin, self.attrs, self.maybe_none, self.elem)

    def __hash__(self) -> int:
        h = self.__dict__.get("_h")
        if h is None:
            h = hash(self._key())
            object.__setattr__(self, "_h", h)
        return h

    def __eq__(self, other) -> bool:
        return isinstance(other, ObjData) and hash(self) == hash(other) and self._key() == other._key()

    def get(self, name: str):
        for k, v in self.attrs:
            if k == name:
                return v
        return None

    def set(self, name: str, val) -> "ObjData":
        items = [(k, v) for k, v in self.attrs if k != name]
        items.append((name, val))
        items.sort(key=lambda kv: kv[0])
        return replace(self, attrs=tuple(items))


@dataclass(frozen=True, eq=False)
class Event:
    kind: str
    site: tuple = ()             # (relpath, lineno)
    data: tuple = ()             # sorted (key, value) pairs

    def __post_init__(self):
        object.__setattr__(self, "_h", hash((self.kind, self.site, self.data)))

    def __hash__(self) -> int:
        return self._h

    def __getstate__(self):
        return (self.kind, self.site, self.data)

    def __setstate__(self, state):
        object.__setattr__(self, "kind", state[0])
        object.__setattr__(self, "site", state[1])
        object.__setattr__(self, "data", state[2])
        object.__setattr__(self, "_h", hash(state))

    def __eq__(self, other) -> bool:
        return isinstance(other, Event) and self._h == other._h and self.kind == other.kind and self.site == other.site and self.data == other.data

    def get(self, key: str, default=None):
        for k, v in self.data:
            if k == key:
                return v
        return default


def ev(kind: str, site: tuple, **data) -> Event:
    return Event(kind, site, tuple(sorted(data.items(), key=lambda kv: kv[0])))


MUTED: set = {"ctx", "except"}      # event kinds not recorded (configured per analysis run)
CTX_KEYS: set = set()                # context keys whose writes are recorded even when "ctx" is muted


def configure(muted: set, ctx_keys: set) -> None:
    MUTED.clear()
    MUTED.update(muted)
    CTX_KEYS.clear()
    CTX_KEYS.update(ctx_keys)


class State:
    __slots__ = ("frames", "objs", "facts", "trace", "stack", "calls", "thash", "next_fid", "next_tid", "txn", "loop", "loopopt", "cur")

    def __init__(self) -> None:
        self.frames: dict[int, dict] = {}
        self.objs: dict[int, ObjData] = {}
        self.facts: dict[str, bool] = {}
        self.trace: tuple = ()
        self.stack: tuple = ()       # FuncInfo call stack
        self.calls: tuple = ()       # call-site positions parallel to stack
        self.thash = 0
        self.next_fid = 1
        self.next_tid = 1
        self.txn: tuple = ()         # stack of open Txn ids
        self.loop = 0
        self.loopopt = 0
        self.cur = 0                 # current frame id

    def copy(self) -> "State":
        s = State.__new__(State)
        s.frames = {k: dict(v) for k, v in self.frames.items()}
        s.objs = dict(self.objs)
        s.facts = dict(self.facts)
        s.trace = self.trace
        s.stack = self.stack
        s.calls = self.calls
        s.thash = self.thash
        s.next_fid = self.next_fid
        s.next_tid = self.next_tid
        s.txn = self.txn
        s.loop = self.loop
        s.loopopt = self.loopopt
        s.cur = self.cur
        return s

    def sig(self):
        return (
            tuple(sorted((fid, tuple(sorted(((k, _h(v)) for k, v in f.items()), key=lambda kv: kv[0]))) for fid, f in self.frames.items())),
            tuple(sorted(((k, o) for k, o in self.objs.items() if o.attrs or o.kind in ("self", "message", "exc")), key=lambda kv: kv[0])),
            tuple(sorted(self.facts.items())),
            len(self.trace), self.thash,
            self.txn,
            self.cur,
            self.loop, self.loopopt,
        )

    # heap ------------------------------------------------------------------
    def new_obj(self, key: str, kind: str, cls=None, origin: tuple = (), maybe_none: bool = False, elem: str = "") -> Ref:
        """Allocation keys are derived from the creation site, so object identity does not depend on path history."""
        self.objs[key] = ObjData(kind, cls, origin, (), maybe_none, elem)
        return Ref(key)

    def obj(self, ref: Ref) -> ObjData:
        return self.objs[ref.oid]

    def set_attr(self, ref: Ref, name: str, val) -> None:
        self.objs[ref.oid] = self.objs[ref.oid].set(name, val)

    def lp(self):
        """loop multiplicity of an effect: False (exactly once) | 'n' (at least once) | 'opt' (zero or more)"""
        if not self.loop:
            return False
        return "opt" if self.loopopt else "n"

    def emit(self, e: Event) -> None:
        if e.kind in MUTED:
            if e.kind == "ctx" and e.get("key") in CTX_KEYS:
                pass
            else:
                return
        self.trace = self.trace + (e,)
        self.thash = hash((self.thash, e))


def _h(v):
    try:
        hash(v)
        return v
    except TypeError:
        return repr(v)


def dedupe(states: list) -> list:
    seen = set()
    out = []
    for s in states:
        try:
            k = s.sig()
            hash(k)
        except TypeError:
            out.append(s)
            continue
        if k in seen:
            continue
        seen.add(k)
        out.append(s)
    return out
