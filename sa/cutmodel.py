"""Case-split model of EventReplayer.rebuild_workflow_state (C12.R3).

The function is executed abstractly for every combination of
    as_of_sequence in {None, 0, positive}   x   snapshot store configured?  x  snapshot found?  x  snapshot.sequence <= as_of ?
Tests that mention as_of_sequence are evaluated exactly (identity with None, truthiness); the other leaves are the free
atoms of the combination. Tracked: whether the snapshot state was loaded, the value of start_sequence, how `events` is
produced (start argument of the store read, filter applied). Independent of how the ifs are arranged.
"""
from __future__ import annotations

import ast
import itertools

from .model import AnalysisError, norm

ASOF = "as_of_sequence"


class Unknown(Exception):
    pass


def _eval_test(e: ast.expr, a, atoms: dict):
    """concrete truth of a test under as_of value `a` (None / 0 / 5) and atom assignment"""
    if isinstance(e, ast.BoolOp):
        if isinstance(e.op, ast.And):
            for v in e.values:
                if not _eval_test(v, a, atoms):
                    return False
            return True
        for v in e.values:
            if _eval_test(v, a, atoms):
                return True
        return False
    if isinstance(e, ast.UnaryOp) and isinstance(e.op, ast.Not):
        return not _eval_test(e.operand, a, atoms)
    t = norm(e)
    if t == ASOF:
        return bool(a)
    if isinstance(e, ast.Compare) and len(e.ops) == 1:
        l, r, op = norm(e.left), norm(e.comparators[0]), e.ops[0]
        if l == ASOF and r == "None":
            if isinstance(op, ast.Is):
                return a is None
            if isinstance(op, ast.IsNot):
                return a is not None
            if isinstance(op, ast.Eq):
                return a is None
            if isinstance(op, ast.NotEq):
                return a is not None
        if ASOF in (l, r) and "snapshot.sequence" in (l, r):
            if a is None:
                raise Unknown(f"`{t}` evaluated with as_of_sequence None (TypeError at run time)")
            # normalise to snapshot.sequence <= as_of
            le = (l == "snapshot.sequence" and isinstance(op, ast.LtE)) or (r == "snapshot.sequence" and isinstance(op, ast.GtE))
            if le:
                return atoms["bound"]
            lt = (l == "snapshot.sequence" and isinstance(op, ast.Lt)) or (r == "snapshot.sequence" and isinstance(op, ast.Gt))
            if lt:
                return atoms["bound"]       # stricter than needed: an admissible snapshot may be skipped, never a newer one used
            raise Unknown(f"comparison `{t}` is not `snapshot.sequence <= as_of_sequence`")
        if l == ASOF and isinstance(e.comparators[0], ast.Constant) and isinstance(e.comparators[0].value, int) and a is not None:
            c = e.comparators[0].value
            return {ast.Gt: a > c, ast.GtE: a >= c, ast.Lt: a < c, ast.LtE: a <= c, ast.Eq: a == c, ast.NotEq: a != c}[type(op)]
    if t in ("self._snapshot_store", "self._snapshot_store is not None"):
        return atoms["store"]
    if t in ("snapshot", "snapshot is not None"):
        return atoms["snapshot"]
    if t == "snapshot is None":
        return not atoms["snapshot"]
    raise Unknown(f"test `{t}` not understood")


class Run:
    def __init__(self) -> None:
        self.loaded = False
        self.start = "0"
        self.events = None        # (source start arg, filter text or None)
        self.applied_all = False


def _exec(stmts, a, atoms, run: Run):
    for s in stmts:
        if isinstance(s, ast.If):
            if ASOF in norm(s.test) or "snapshot" in norm(s.test):
                taken = s.body if _eval_test(s.test, a, atoms) else s.orelse
                r = _exec(taken, a, atoms, run)
                if r == "return":
                    return r
            else:
                # unrelated test (logging etc.): must not touch tracked names
                for n in ast.walk(s):
                    if isinstance(n, ast.Assign) and norm(n.targets[0]) in ("state", "start_sequence", "events"):
                        raise Unknown(f"tracked name assigned under an unrelated test `{norm(s.test)}`")
        elif isinstance(s, ast.Assign) and len(s.targets) == 1:
            tgt, v = norm(s.targets[0]), s.value
            if tgt == "state" and "_load_state_from_snapshot" in norm(v):
                if not atoms["snapshot"] or not atoms["store"]:
                    raise Unknown("snapshot state loaded although no snapshot exists on this path")
                run.loaded = True
            elif tgt == "start_sequence":
                while isinstance(v, ast.Call) and isinstance(v.func, ast.Name) and v.func.id == "int" and len(v.args) == 1:
                    v = v.args[0]
                run.start = norm(v)
            elif tgt == "events":
                run.events = _events_of(v, run)
        elif isinstance(s, ast.For):
            if norm(s.iter) == "events" and any("_apply_event(state, event)" in norm(x) for x in s.body) and not any(isinstance(x, (ast.If, ast.Break, ast.Continue)) for b in s.body for x in ast.walk(b)):
                run.applied_all = True
        elif isinstance(s, ast.Return):
            return "return"
    return None


def _events_of(v: ast.expr, run: Run):
    t = norm(v)
    if isinstance(v, ast.Call) and t.startswith("self._event_store.get_events_for_workflow("):
        arg = norm(v.args[1]) if len(v.args) > 1 else "0"
        return (arg if arg != "start_sequence" else run.start, None)
    if isinstance(v, ast.Call) and norm(v.func) == "list" and v.args:
        return _events_of(v.args[0], run)
    if isinstance(v, ast.ListComp) and len(v.generators) == 1 and norm(v.elt) == norm(v.generators[0].target):
        g = v.generators[0]
        src = _events_of(g.iter, run) if not (isinstance(g.iter, ast.Name) and g.iter.id == "events") else run.events
        if src is None:
            raise Unknown("events filtered before they were read")
        flt = " and ".join(norm(c).replace(norm(g.target) + ".", "e.") for c in g.ifs) or None
        if src[1] and flt:
            flt = src[1] + " and " + flt
        return (src[0], flt or src[1])
    raise Unknown(f"events = {t[:80]} not understood")


def analyse(fn: ast.FunctionDef) -> list:
    """list of (case description, problem text) - empty when every case is right"""
    problems = []
    cases = 0
    for a in (None, 0, 5):
        for store, snap, bound in itertools.product([False, True], repeat=3):
            if not store and (snap or bound):
                continue
            if not snap and bound:
                continue
            if a is None and bound:
                continue
            atoms = {"store": store, "snapshot": snap, "bound": bound}
            desc = f"as_of={a!r}, snapshot store={'yes' if store else 'no'}, snapshot={'found' if snap else 'none'}" + (f", snapshot.sequence<=as_of={bound}" if a is not None and snap else "")
            run = Run()
            cases += 1
            try:
                _exec(fn.body, a, atoms, run)
            except Unknown as e:
                problems.append((desc, f"model: {e}"))
                continue
            if run.events is None:
                problems.append((desc, "no events are read"))
                continue
            start, flt = run.events
            if a is None and flt is not None:
                problems.append((desc, f"a full replay filters the events by `{flt}`"))
            if a is not None and flt != "e.sequence <= as_of_sequence":
                problems.append((desc, f"cut at {a}: events are " + ("not filtered at all - the state of the whole log is returned" if flt is None else f"filtered by `{flt}` instead of e.sequence <= as_of_sequence")))
            if a is not None and run.loaded and not bound:
                problems.append((desc, "a snapshot newer than the cut is loaded"))
            want_load = store and snap and (a is None or bound)
            if want_load and not run.loaded:
                pass        # not using an admissible snapshot is only slower
            if run.loaded and start != "snapshot.sequence":
                problems.append((desc, f"snapshot loaded but events are read from {start} (events before the snapshot are applied twice)"))
            if not run.loaded and start != "0":
                problems.append((desc, f"no snapshot loaded but events are read from {start}"))
            if not run.applied_all:
                problems.append((desc, "not every selected event is applied in order"))
    if cases < 10:
        raise AnalysisError("cut model explored too few cases")
    return problems
