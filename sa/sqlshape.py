"""E5 - SQL statement shapes: extraction of literal / f-string SQL at .execute(...) sites and a small parser.

Yields, per statement: kind, table, SET map, WHERE conjuncts, INSERT columns/values, RETURNING,
ORDER BY, the parameter-dict -> Python-expression map, the enclosing function.
"""
from __future__ import annotations

import ast
import re
from dataclasses import dataclass, field

from .model import AnalysisError, FuncInfo, Program, norm

DML = ("INSERT", "UPDATE", "DELETE", "SELECT", "CREATE", "ALTER", "DROP", "REPLACE", "WITH")


@dataclass
class Stmt:
    kind: str
    table: str
    text: str
    func: FuncInfo
    node: ast.Call
    sets: dict = field(default_factory=dict)
    where: list = field(default_factory=list)
    cols: list = field(default_factory=list)
    vals: list = field(default_factory=list)
    returning: str = ""
    order_by: str = ""
    params: dict = field(default_factory=dict)
    modifier: str = ""          # OR IGNORE / OR REPLACE
    dynamic: bool = False       # text has holes other than in table position
    receiver: str = ""

    @property
    def file(self) -> str:
        return self.func.file

    @property
    def line(self) -> int:
        return self.node.lineno

    @property
    def where_text(self) -> str:
        return " and ".join(self.where)

    def key(self) -> str:
        return f"{self.func.qualname}:{self.kind}:{self.table}"


def _literal(node: ast.expr) -> tuple[str, bool] | None:
    """SQL text of a Constant / JoinedStr / concatenation; holes rendered as {expr}. -> (text, has_holes)"""
    if isinstance(node, ast.Constant) and isinstance(node.value, str):
        return node.value, False
    if isinstance(node, ast.JoinedStr):
        out = []
        holes = False
        for v in node.values:
            if isinstance(v, ast.Constant):
                out.append(str(v.value))
            elif isinstance(v, ast.FormattedValue):
                out.append("{" + ast.unparse(v.value) + "}")
                holes = True
        return "".join(out), holes
    if isinstance(node, ast.BinOp) and isinstance(node.op, ast.Add):
        a, b = _literal(node.left), _literal(node.right)
        if a and b:
            return a[0] + b[0], a[1] or b[1]
    return None


def _split_top(s: str, sep: str) -> list[str]:
    """split on a top-level separator (',' or ' and ') outside parentheses and quotes"""
    out, depth, cur, i = [], 0, [], 0
    low = s.lower()
    in_q = False
    while i < len(s):
        ch = s[i]
        if ch == "'":
            in_q = not in_q
        if not in_q:
            if ch == "(":
                depth += 1
            elif ch == ")":
                depth -= 1
            if depth == 0 and low.startswith(sep, i):
                # word boundary for ' and '
                out.append("".join(cur).strip())
                cur = []
                i += len(sep)
                continue
        cur.append(ch)
        i += 1
    if "".join(cur).strip():
        out.append("".join(cur).strip())
    return out


def sqlnorm(s: str) -> str:
    s = re.sub(r"--[^\n]*", " ", s)
    s = " ".join(s.split())
    s = re.sub(r"\s*([(),=<>])\s*", r"\1", s)
    s = s.replace("<=", " <= ").replace(">=", " >= ")
    s = re.sub(r"(?<![<>!])=(?!=)", " = ", s)
    s = re.sub(r"(?<![<=])>(?!=)", " > ", s)
    s = re.sub(r"<(?![=>])", " < ", s)
    s = " ".join(s.split())
    return s.lower()


_KW = r"(?=\b(?:where|returning|order by|limit|on conflict|group by|for update|values)\b|$)"


def parse(text: str) -> dict:
    t = " ".join(re.sub(r"--[^\n]*", " ", text).split())
    low = t.lower()
    kind = low.split(" ", 1)[0].upper() if low else ""
    out: dict = {"kind": kind, "table": "", "sets": {}, "where": [], "cols": [], "vals": [], "returning": "", "order_by": "", "modifier": ""}

    def clause(name: str, src: str) -> str:
        m = re.search(r"\b" + name + r"\b(.*?)" + r"(?=\b(?:returning|order by|limit|on conflict|group by|for update)\b|$)", src, flags=re.I | re.S)
        return m.group(1).strip() if m else ""

    if kind == "UPDATE":
        m = re.match(r"update\s+(\S+)\s+set\s+(.*?)(?=\bwhere\b|\breturning\b|$)", t, flags=re.I | re.S)
        if m:
            out["table"] = m.group(1)
            for a in _split_top(m.group(2), ","):
                if "=" in a:
                    c, e = a.split("=", 1)
                    out["sets"][c.strip().lower()] = sqlnorm(e)
    elif kind == "DELETE":
        m = re.match(r"delete\s+from\s+(\S+)", t, flags=re.I)
        if m:
            out["table"] = m.group(1)
    elif kind in ("INSERT", "REPLACE"):
        m = re.match(r"(?:insert|replace)\s+(or\s+\w+\s+)?into\s+(\S+?)\s*\((.*?)\)\s*values\s*\((.*)\)", t, flags=re.I | re.S)
        if m:
            out["modifier"] = (m.group(1) or "").strip().upper()
            out["table"] = m.group(2)
            out["cols"] = [c.strip().lower() for c in _split_top(m.group(3), ",")]
            vals = m.group(4)
            # cut at the matching close paren of VALUES(
            depth, end = 1, len(vals)
            for i, ch in enumerate(vals):
                if ch == "(":
                    depth += 1
                elif ch == ")":
                    depth -= 1
                    if depth == 0:
                        end = i
                        break
            out["vals"] = [sqlnorm(v) for v in _split_top(vals[:end], ",")]
        else:
            m2 = re.match(r"(?:insert|replace)\s+(or\s+\w+\s+)?into\s+(\S+)", t, flags=re.I)
            if m2:
                out["table"] = m2.group(2).split("(")[0]
    elif kind == "SELECT":
        m = re.search(r"\bfrom\s+([^\s,()]+)", t, flags=re.I)
        if m:
            out["table"] = m.group(1)
    elif kind == "CREATE":
        m = re.match(r"create\s+(?:unique\s+)?(table|index)\s+(?:if\s+not\s+exists\s+)?(\S+)", t, flags=re.I)
        if m:
            out["kind"] = "CREATE_" + m.group(1).upper()
            out["table"] = m.group(2).split("(")[0]
    w = clause("where", t) if kind in ("UPDATE", "DELETE", "SELECT") else ""
    if w:
        out["where"] = [sqlnorm(c) for c in _split_top(w, " and ")]
    out["returning"] = sqlnorm(clause("returning", t))
    ob = re.search(r"\border by\b(.*?)(?=\blimit\b|\bfor update\b|$)", t, flags=re.I | re.S)
    out["order_by"] = sqlnorm(ob.group(1)) if ob else ""
    return out


def _params(node: ast.Call) -> dict:
    if len(node.args) >= 2:
        p = node.args[1]
        if isinstance(p, ast.Dict):
            out = {}
            for k, v in zip(p.keys, p.values):
                if isinstance(k, ast.Constant):
                    out[str(k.value)] = norm(v)
                elif k is None:
                    out["**"] = norm(v)
            return out
        return {"*": norm(p)}
    return {}


def statements(prog: Program, prefixes: tuple[str, ...] = ("stabilize",), include_postgres: bool = True) -> list[Stmt]:
    cache = getattr(prog, "_sql_cache", None)
    if cache is not None:
        return cache
    out: list[Stmt] = []
    unresolved: list[tuple] = []

    def scan(fi: FuncInfo, consts: dict) -> None:
        # constant-fold `query = "..."; query += "..."` in the function
        local: dict[str, tuple[str, bool]] = {}
        for n in ast.walk(fi.node):
            if isinstance(n, ast.Assign) and len(n.targets) == 1 and isinstance(n.targets[0], ast.Name):
                lit = _literal(n.value)
                if lit:
                    local[n.targets[0].id] = lit
            elif isinstance(n, ast.AugAssign) and isinstance(n.target, ast.Name) and isinstance(n.op, ast.Add) and n.target.id in local:
                lit = _literal(n.value)
                if lit:
                    a = local[n.target.id]
                    local[n.target.id] = (a[0] + lit[0], True)
        for n in ast.walk(fi.node):
            if not (isinstance(n, ast.Call) and isinstance(n.func, ast.Attribute) and n.func.attr in ("execute", "executemany", "executescript") and n.args):
                continue
            recv = norm(n.func.value)
            arg = n.args[0]
            lit = _literal(arg)
            dynamic = False
            if lit is None and isinstance(arg, ast.Name):
                if arg.id in local:
                    lit = local[arg.id]
                    dynamic = True
                elif arg.id in consts:
                    lit = consts[arg.id]
            if lit is None:
                unresolved.append((fi, n))
                continue
            text, holes = lit
            first = text.strip().split(None, 1)[0].upper() if text.strip() else ""
            if first not in DML and not first.startswith("PRAGMA") and first not in ("BEGIN", "COMMIT", "ROLLBACK", "SAVEPOINT", "RELEASE", "VACUUM", "ANALYZE"):
                continue
            if first not in DML:
                continue
            p = parse(text)
            st = Stmt(p["kind"], p["table"], text, fi, n, p["sets"], p["where"], p["cols"], p["vals"], p["returning"], p["order_by"], _params(n), p["modifier"], dynamic, recv)
            out.append(st)

    for m in prog.modules.values():
        if not include_postgres and "postgres" in m.name:
            continue
        consts = {}
        for name, v in m.assigns.items():
            lit = _literal(v)
            if lit:
                consts[name] = lit
        for f in list(m.functions.values()):
            scan(f, consts)
        for c in m.classes.values():
            for f in c.methods.values():
                scan(f, consts)
    prog._sql_cache = out
    prog._sql_unresolved = unresolved
    return out


def on_table(stmts: list[Stmt], table_pred) -> list[Stmt]:
    return [s for s in stmts if table_pred(s.table)]


def is_sqlite(s: Stmt) -> bool:
    return "postgres" not in s.func.module.name


QUEUE_T = "{self.table_name}"
DLQ_T = "{self.table_name}_dlq"


# ------------------------------------------------------------------ shared rules (C01.R5 / C08)
def rule_lock_visibility(ctx, rep, rid: str) -> None:
    st = [s for s in statements(ctx.prog) if s.func.qualname == "SqliteQueue.poll_one" and s.kind == "SELECT"]
    if not st:
        raise AnalysisError("poll_one SELECT not found")
    s = st[0]
    w = s.where
    lock = [c for c in w if "locked_until is null" in c and " or " in c and "locked_until" in c.split(" or ", 1)[1] and "<" in c and "now" in c]
    due = [c for c in w if "deliver_at" in c and "<=" in c and "now" in c]
    att = [c for c in w if c.startswith("attempts <")]
    rep.check(bool(lock), rid, "poll_one eligibility: lock lapsed or NULL", f"where: {w}", s.file, s.line, disc="lock")
    rep.check(bool(due), rid, "poll_one eligibility: deliver_at <= now", f"where: {w}", s.file, s.line, disc="due")
    rep.check(bool(att), rid, "poll_one eligibility: attempts below the limit", f"where: {w}", s.file, s.line, disc="attempts")
    # nothing else narrows eligibility (a row that matches the three conjuncts must be deliverable)
    extra = [c for c in w if c not in lock + due + att]
    rep.check(not extra, rid, "poll_one eligibility: no further conjunct", f"extra conjuncts: {extra}", s.file, s.line, disc="extra")


def rule_queue_deleters(ctx, rep, rid: str) -> None:
    allowed_q = {"SqliteQueue.ack", "SqliteQueue.clear", "SqliteDLQMixin.move_to_dlq"}
    allowed_d = {"SqliteDLQMixin.replay_dlq", "SqliteDLQMixin.clear_dlq"}
    n = 0
    for s in statements(ctx.prog):
        if not is_sqlite(s) or s.kind != "DELETE":
            continue
        if s.table == QUEUE_T or s.table == "queue_messages":
            n += 1
            rep.check(s.func.qualname in allowed_q, rid, f"queue rows deleted by {s.func.qualname}", "rows leave the queue only via ack / clear / move_to_dlq", s.file, s.line, disc=s.func.qualname)
        elif s.table == DLQ_T or s.table == "queue_messages_dlq":
            n += 1
            rep.check(s.func.qualname in allowed_d, rid, f"DLQ rows deleted by {s.func.qualname}", "rows leave the DLQ only via replay_dlq / clear_dlq", s.file, s.line, disc=s.func.qualname)
    rep.floor("DELETE statements on queue tables", n, 5)


def rule_ack_after_handle(ctx, rep, rid: str) -> None:
    """`queue.ack(message)` is reached only right after `_handle_message(message)` returned normally, in the same try body."""
    prog = ctx.prog
    n = 0
    for modname in ("stabilize.queue.processor.processor", "stabilize.queue.processor.synchronous", "stabilize.queue.processor.mixins"):
        mod = prog.modules.get(modname)
        if mod is None:
            continue
        for c in mod.classes.values():
            for f in c.methods.values():
                for node in ast.walk(f.node):
                    if not isinstance(node, ast.Try):
                        continue
                    acks_in_handlers = [x for h in node.handlers for x in ast.walk(h) if isinstance(x, ast.Call) and isinstance(x.func, ast.Attribute) and x.func.attr == "ack"]
                    acks_in_finally = [x for s in node.finalbody for x in ast.walk(s) if isinstance(x, ast.Call) and isinstance(x.func, ast.Attribute) and x.func.attr == "ack"]
                    for x in acks_in_handlers + acks_in_finally:
                        n += 1
                        rep.fail(rid, f"{f.qualname} ack placement", "ack on an exception / finally path: a failed message is deleted instead of redelivered", f.file, x.lineno, disc="ack-in-handler")
                    for i, s in enumerate(node.body):
                        if isinstance(s, ast.Expr) and isinstance(s.value, ast.Call) and isinstance(s.value.func, ast.Attribute) and s.value.func.attr == "ack":
                            n += 1
                            prev = node.body[i - 1] if i > 0 else None
                            ok = prev is not None and isinstance(prev, ast.Expr) and isinstance(prev.value, ast.Call) and norm(prev.value.func).endswith("_handle_message")
                            resched = any(isinstance(x, ast.Call) and isinstance(x.func, ast.Attribute) and x.func.attr == "reschedule" for h in node.handlers for x in ast.walk(h))
                            rep.check(ok and resched, rid, f"{f.qualname} ack placement", "ack directly after _handle_message returned; exception path reschedules", f.file, s.lineno, disc="order")
                # an ack outside any try
                for node in ast.walk(f.node):
                    if isinstance(node, ast.Call) and isinstance(node.func, ast.Attribute) and node.func.attr == "ack" and norm(node.func.value).endswith("queue"):
                        in_try = any(isinstance(t, ast.Try) and any(node in list(ast.walk(s)) for s in t.body) for t in ast.walk(f.node))
                        if not in_try:
                            n += 1
                            rep.fail(rid, f"{f.qualname} ack placement", "ack outside the try that runs the handler", f.file, node.lineno, disc="no-try")
    rep.floor("ack call sites in the processor", n, 2)


# ------------------------------------------------------------------ DDL
@dataclass
class Table:
    name: str
    module: str
    file: str
    line: int
    cols: dict            # column -> declaration text (lower)
    pk: tuple
    text: str


def ddl(prog: Program) -> list[Table]:
    """Every CREATE TABLE found in a string literal (or f-string) of the program."""
    cache = getattr(prog, "_ddl_cache", None)
    if cache is not None:
        return cache
    out: list[Table] = []
    for m in prog.modules.values():
        for n in ast.walk(m.tree):
            lit = None
            if isinstance(n, ast.Constant) and isinstance(n.value, str) and "CREATE TABLE" in n.value.upper():
                lit = n.value
            elif isinstance(n, ast.JoinedStr):
                l2 = _literal(n)
                if l2 and "CREATE TABLE" in l2[0].upper():
                    lit = l2[0]
            if lit is None:
                continue
            for mm in re.finditer(r"create\s+table\s+(?:if\s+not\s+exists\s+)?([\w{}.]+)\s*\(", lit, flags=re.I):
                start = mm.end()
                depth, i = 1, start
                while i < len(lit) and depth:
                    if lit[i] == "(":
                        depth += 1
                    elif lit[i] == ")":
                        depth -= 1
                    i += 1
                body = lit[start:i - 1]
                cols: dict = {}
                pk: tuple = ()
                for part in _split_top(" ".join(body.split()), ","):
                    low = part.lower().strip()
                    if low.startswith("primary key"):
                        inner = low[low.index("(") + 1: low.rindex(")")]
                        pk = tuple(c.strip() for c in inner.split(","))
                    elif low.startswith(("unique", "foreign key", "constraint", "check")):
                        continue
                    elif low:
                        name = low.split()[0]
                        cols[name] = low
                        if "primary key" in low and not pk:
                            pk = (name,)
                out.append(Table(mm.group(1), m.name, m.relpath, getattr(n, "lineno", 0), cols, pk, body))
    # dedupe JoinedStr/Constant double hits
    seen = set()
    uniq = []
    for t in out:
        k = (t.module, t.name, t.line, tuple(t.cols))
        if k in seen:
            continue
        seen.add(k)
        uniq.append(t)
    prog._ddl_cache = uniq
    return uniq


def rule_timestamp_normalised(ctx, rep, rid: str) -> None:
    """locked_until / deliver_at hold text written in two formats (Python isoformat() 'YYYY-MM-DDTHH:MM:SS.ffffff+00:00' by push /
    poll / extend_lock / reschedule, SQLite 'YYYY-MM-DD HH:MM:SS' by replay_dlq). Every ordering comparison on them in the queue
    code must therefore go through datetime(col) on the left and a datetime(...) value on the right. A raw `locked_until <
    datetime('now','utc')` compares 'T' against ' ': a lapsed lock of today never looks lapsed, the message is never redelivered."""
    prog = ctx.prog
    n = 0
    for s in statements(prog):
        if not is_sqlite(s) or not (s.func.module.name.startswith("stabilize.queue") or s.func.module.name == "stabilize.persistence.sqlite.transaction"):
            continue
        if "monitor" in s.func.module.name:
            continue
        for w in s.where:
            for part in re.split(r"\bor\b|\band\b", w.strip("()")):
                m = re.search(r"(datetime\()?\s*(locked_until|deliver_at)\s*\)?\s*(<=|>=|<|>)\s*(.+)$", part.strip().strip("()"))
                if not m:
                    continue
                n += 1
                wrapped = bool(m.group(1))
                rhs = m.group(4).strip()
                ok = wrapped and rhs.startswith("datetime(")
                rep.check(ok, rid, f"{s.func.qualname}: {m.group(2)} compared as a time, not as text", f"`{part.strip()}`" + ("" if ok else
                          f": {m.group(2)} is written by Python as an ISO string ('...T...+00:00'); compared raw with a SQLite datetime ('... ...') the 'T' sorts above the blank, so a lock that lapsed today never compares as lapsed - "
                          "the in-flight message of a dead worker is never redelivered (and it still counts as pending, so recovery does not help)"), s.file, s.line, disc=f"ts-normalised:{s.func.qualname}:{s.kind}:{m.group(2)}")
    rep.floor("time comparisons on locked_until / deliver_at in the queue code", n, 2)
