"""CLI: ./check <Cnn> [--tier quick|thorough] [--repo PATH]; ./check all; ./check replay <file>; ./check selftest [Cnn|case]; ./check fuzz [mode]"""
from __future__ import annotations

import argparse
import importlib
import json
import os
import sys
import traceback

from .model import AnalysisError
from .report import Report

PROPS = [f"C{n:02d}" for n in range(1, 21)]


def run_property(pid: str, tier: str, repo: str, write_evidence: bool = True) -> int:
    rep = Report(pid, tier, repo)
    try:
        mod = importlib.import_module(f"sa.rules.{pid.lower()}")
    except ModuleNotFoundError:
        rep.error(f"no rule module for {pid} (check not built)")
        return rep.finish(write_evidence)
    try:
        from .context import get_context

        ctx = get_context(repo)
        mod.run(ctx, rep)
    except AnalysisError as e:
        rep.error(str(e))
    except Exception as e:  # a traceback must never look like a violation
        traceback.print_exc()
        rep.error(f"internal error: {type(e).__name__}: {e}")
    if tier == "thorough" and write_evidence and not rep.errors:
        # the thorough tier also tests the checker both ways on this run: every seeded variant of this property
        # (edited scratch copies of the CURRENT tree, removed afterwards) must be reported with the expected rule,
        # every behaviour-preserving refactoring must stay silent. A miss means the check is not to be believed: exit 2.
        try:
            from .selftest import run_slice

            res = run_slice(pid, repo)
            bad = [r for r in res if r[2] not in ("KILLED", "SILENT")]
            rep.analysed["selftest"] = {"cases": len(res), "mutants_reported": sum(1 for r in res if r[2] == "KILLED"), "refactors_silent": sum(1 for r in res if r[2] == "SILENT"),
                                        "bad": [f"{r[0]}: {r[2]} {r[3]}"[:200] for r in bad]}
            for r in bad:
                rep.error(f"self-test case {r[0]} ({r[1]}): {r[2]} {r[3]}"[:300])
        except Exception as e:
            traceback.print_exc()
            rep.error(f"self-test slice failed to run: {type(e).__name__}: {e}")
    return rep.finish(write_evidence)


def main(argv: list[str] | None = None) -> int:
    ap = argparse.ArgumentParser(prog="check")
    ap.add_argument("what")
    ap.add_argument("arg", nargs="?")
    ap.add_argument("--tier", default=os.environ.get("VERIF_TIER", "quick"), choices=["quick", "thorough"])
    ap.add_argument("--repo", default=os.environ.get("VERIF_REPO", "/repo"))
    ap.add_argument("--no-evidence", action="store_true")
    ap.add_argument("--jobs", type=int, default=16)
    ap.add_argument("--replay", default=None)
    a = ap.parse_args(argv)
    what = a.what
    if what == "replay" or a.replay:
        path = a.replay or a.arg
        with open(path) as fh:
            data = json.load(fh)
        pid = data["property"]
        keys = {v["key"] for v in data.get("violations", [])}
        rep_code = run_property(pid, a.tier, a.repo, write_evidence=False)
        print(f"replay of {path}: property {pid} re-evaluated on {a.repo}; recorded keys: {sorted(keys)}; exit={rep_code}")
        return rep_code
    if what == "selftest":
        from .selftest import main as st_main

        return st_main(a.arg, a.repo, a.jobs)
    if what == "fuzz":
        from .fuzz import main as fz_main

        return fz_main(a.arg, a.repo, a.jobs)
    if what == "all":
        worst = 0
        for pid in PROPS:
            worst = max(worst, run_property(pid, a.tier, a.repo, not a.no_evidence))
        return worst
    pid = what.upper()
    if pid not in PROPS:
        print(f"unknown property {what}", file=sys.stderr)
        return 2
    return run_property(pid, a.tier, a.repo, not a.no_evidence)


if __name__ == "__main__":
    sys.exit(main())
