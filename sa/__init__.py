"""Static-analysis machinery for the stabilize properties C01-C20 (stdlib only)."""
