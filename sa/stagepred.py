"""Predicates over one stage as truth tables over (status member, all-upstreams-complete flag).

exists_predicate(fn)  : a boolean function over a list of stages, read as  EXISTS s in <list>: P(s)
                        shapes: `for s in L: if P1: return True ... return False`, `return any(P for s in L [if Q])`,
                                `return not all(not-P ...)`, the same through one intermediate local
eval_pred(e, var, m, U): truth of expression e for a stage bound to `var` whose status is member m and for which
                        `var.all_upstream_stages_complete()` is U.  None when e mentions anything else.
Used by C05.R11; anything outside the recognised shapes is an AnalysisError at the caller (fail closed, never a guess).
"""
from __future__ import annotations

import ast

from .model import norm
from .statuspred import status_set

UPSTREAM_CALLS = ("all_upstream_stages_complete",)


def eval_pred(e: ast.expr, var: str, m: str, U: bool, T, extra: dict | None = None):
    """extra: canonical atom text (sa/dom.canon_fact polarity: ==, in, is) -> truth, for atoms that are neither status nor upstream tests"""
    if extra:
        from .dom import canon_fact
        if isinstance(e, ast.Compare) and len(e.ops) == 1:
            facts = canon_fact(e, True)
            if len(facts) == 1 and facts[0][0] in extra:
                return extra[facts[0][0]] == facts[0][1]
    if isinstance(e, ast.Constant) and isinstance(e.value, bool):
        return e.value
    if isinstance(e, ast.UnaryOp) and isinstance(e.op, ast.Not):
        r = eval_pred(e.operand, var, m, U, T, extra)
        return None if r is None else not r
    if isinstance(e, ast.BoolOp):
        vals = [eval_pred(v, var, m, U, T, extra) for v in e.values]
        if isinstance(e.op, ast.And):
            if any(v is False for v in vals):
                return False
            return None if any(v is None for v in vals) else True
        if any(v is True for v in vals):
            return True
        return None if any(v is None for v in vals) else False
    if isinstance(e, ast.Call) and isinstance(e.func, ast.Attribute) and e.func.attr in UPSTREAM_CALLS and norm(e.func.value) == var and not e.args:
        return U
    for subject in (f"{var}.status", var):
        ss = status_set(e, subject, T)
        if ss is not None:
            return m in ss
    return None


def _and(a: ast.expr, b: ast.expr) -> ast.expr:
    return ast.BoolOp(op=ast.And(), values=[a, b])


def exists_predicate(fn: ast.FunctionDef, param: str | None = None):
    """(element variable, [disjunct expr, ...]) or None"""
    body = [s for s in fn.body if not isinstance(s, ast.Expr)]      # docstring, logging calls: no influence on the value
    # through one local: `x = any(...)` / `return x`
    if len(body) == 2 and isinstance(body[0], ast.Assign) and isinstance(body[1], ast.Return) and isinstance(body[1].value, ast.Name) and norm(body[0].targets[0]) == body[1].value.id:
        body = [ast.Return(value=body[0].value)]
    # leading simple definitions of literal status sets are inlined by the caller through `named`
    defs = {}
    while body and isinstance(body[0], ast.Assign) and isinstance(body[0].targets[0], ast.Name) and isinstance(body[0].value, (ast.Set, ast.Tuple, ast.List, ast.Call)) and len(body) > 1:
        defs[body[0].targets[0].id] = body[0].value
        body = body[1:]

    def subst(e):
        class R(ast.NodeTransformer):
            def visit_Name(self, n):
                return defs.get(n.id, n) if isinstance(n.ctx, ast.Load) else n
        return R().visit(ast.parse(ast.unparse(e), mode="eval").body) if defs else e

    if len(body) == 1 and isinstance(body[0], ast.Return) and body[0].value is not None:
        v = body[0].value
        neg = False
        if isinstance(v, ast.UnaryOp) and isinstance(v.op, ast.Not):
            v, neg = v.operand, True
        if isinstance(v, ast.Call) and isinstance(v.func, ast.Name) and v.func.id in ("any", "all") and len(v.args) == 1 and isinstance(v.args[0], (ast.GeneratorExp, ast.ListComp)) and len(v.args[0].generators) == 1:
            g = v.args[0].generators[0]
            if not isinstance(g.target, ast.Name):
                return None
            elt = v.args[0].elt
            if v.func.id == "any" and not neg:
                p = elt
                for c in g.ifs:
                    p = _and(c, p)
                return g.target.id, [subst(p)]
            if v.func.id == "all" and neg:
                p = ast.UnaryOp(op=ast.Not(), operand=elt)
                for c in g.ifs:
                    p = _and(c, p)
                return g.target.id, [subst(p)]
        return None
    if len(body) == 2 and isinstance(body[0], ast.For) and isinstance(body[0].target, ast.Name) and not body[0].orelse and isinstance(body[1], ast.Return) and isinstance(body[1].value, ast.Constant) and body[1].value.value is False:
        var = body[0].target.id
        out = []
        negs: list = []          # tests of earlier `if t: continue`

        def walk(stmts, conds) -> bool:
            for s in stmts:
                if isinstance(s, ast.Expr):
                    continue
                if isinstance(s, ast.If):
                    ret = [x for x in s.body if not isinstance(x, ast.Expr)]
                    if len(ret) == 1 and isinstance(ret[0], ast.Return) and isinstance(ret[0].value, ast.Constant) and ret[0].value.value is True and not s.orelse:
                        p = s.test
                        for c in conds + negs:
                            p = _and(c, p)
                        out.append(subst(p))
                        continue
                    if len(ret) == 1 and isinstance(ret[0], ast.Continue) and not s.orelse:
                        negs.append(ast.UnaryOp(op=ast.Not(), operand=s.test))
                        continue
                    if not s.orelse and walk(s.body, conds + [s.test]):
                        continue
                    return False
                return False
            return True

        if walk(body[0].body, []):
            return var, out
    return None
