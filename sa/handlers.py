"""Handler discovery (registry read from the syntax tree) and per-handler path enumeration."""
from __future__ import annotations

import ast
from dataclasses import dataclass

from .interp import Interp
from .model import AnalysisError, ClassInfo, Program

MIXINS = "stabilize.queue.processor.mixins"


@dataclass
class HandlerEntry:
    cls: ClassInfo
    message: str          # message class name
    marker: bool = False


def registered_handlers(prog: Program) -> list[HandlerEntry]:
    """Handlers instantiated in QueueProcessorMixin._register_default_handlers."""
    fi = prog.func(MIXINS, "QueueProcessorMixin._register_default_handlers")
    mod = prog.module(MIXINS)
    local_imports: dict[str, tuple[str, str]] = {}
    for n in ast.walk(fi.node):
        if isinstance(n, ast.ImportFrom) and n.module:
            for a in n.names:
                local_imports[a.asname or a.name] = (n.module, a.name)
    out: list[HandlerEntry] = []
    lists = [n for n in ast.walk(fi.node) if isinstance(n, ast.Assign) and isinstance(n.value, ast.List)]
    for asg in lists:
        for e in asg.value.elts:
            if isinstance(e, ast.Call) and isinstance(e.func, ast.Name):
                name = e.func.id
                ci = None
                if name in local_imports:
                    m, a = local_imports[name]
                    tm = prog.modules.get(m)
                    r = prog.resolve(tm, a) if tm else None
                    if isinstance(r, ClassInfo):
                        ci = r
                if ci is None:
                    r = prog.resolve(mod, name)
                    if isinstance(r, ClassInfo):
                        ci = r
                if ci is None:
                    raise AnalysisError(f"registered handler {name} cannot be resolved")
                out.append(HandlerEntry(ci, message_type_of(prog, ci)))
    # diagnostic markers: for marker_type in (A, B, ...): all_handlers.append(_DiagnosticMarkerHandler(marker_type))
    for n in ast.walk(fi.node):
        if isinstance(n, ast.For) and isinstance(n.iter, ast.Tuple):
            for b in ast.walk(n):
                if isinstance(b, ast.Call) and isinstance(b.func, ast.Name) and b.func.id == "_DiagnosticMarkerHandler":
                    for e in n.iter.elts:
                        if isinstance(e, ast.Name):
                            out.append(HandlerEntry(mod.classes["_DiagnosticMarkerHandler"], e.id, True))
    if not out:
        raise AnalysisError("no registered handlers found")
    return out


def message_type_of(prog: Program, ci: ClassInfo) -> str:
    m = prog.find_method(ci, "message_type")
    if m is None:
        raise AnalysisError(f"{ci.name} has no message_type")
    for n in ast.walk(m.node):
        if isinstance(n, ast.Return) and isinstance(n.value, ast.Name):
            return n.value.id
    raise AnalysisError(f"{ci.name}.message_type: return not recognised")


def handler_paths(ctx, entry: HandlerEntry, watch=None, **kw):
    prog = ctx.prog
    it = Interp(prog, ctx.st, watch=watch or set(), **kw)
    fi = prog.find_method(entry.cls, "handle")
    if fi is None:
        raise AnalysisError(f"{entry.cls.name} has no handle()")
    paths = it.run_function(fi, self_cls=entry.cls, args={"message": ("message", entry.message)})
    return it, paths
