"""Fallback chains: how a local's value is resolved from an ordered list of sources.

`resolve(prog, fi, var)` reads straight-line code of the shapes the repository uses for "setting, else
setting, else default" -

    x = A                      x = A or B                 x = A if A is not None else B
    if x is None: x = B        x = d.get(k, D)            x = self._helper(...)   (followed one level)

- and returns [(condition, source)], condition in {"first", "none", "falsy", "missing", "?"}: the source is
consulted when the previous one was None / falsy / absent. Value-preserving wrappers (int(), float()) are
looked through. Nothing is executed; the result is independent of local names and of helper extraction.
"""
from __future__ import annotations

import ast
import copy

from .model import norm


def _subst(e: ast.expr, mp: dict) -> ast.expr:
    class R(ast.NodeTransformer):
        def visit_Name(self, n):
            if n.id in mp:
                return copy.deepcopy(mp[n.id])
            return n

    return R().visit(copy.deepcopy(e))


def _src(e: ast.expr) -> str:
    """canonical text of a source expression: X.get(K) -> X[K]"""
    if isinstance(e, ast.Call) and isinstance(e.func, ast.Attribute) and e.func.attr == "get" and len(e.args) >= 1:
        k = e.args[0]
        return f"{norm(e.func.value)}[{k.value if isinstance(k, ast.Constant) else norm(k)}]"
    return norm(e)


class ChainResolver:
    def __init__(self, prog, self_cls=None) -> None:
        self.prog = prog
        self.self_cls = self_cls

    # -- expressions -------------------------------------------------------------------------
    def expr(self, e: ast.expr, fi, env: dict, depth: int = 0) -> list:
        if isinstance(e, ast.Call) and isinstance(e.func, ast.Name) and e.func.id in ("int", "float") and len(e.args) == 1:
            return self.expr(e.args[0], fi, env, depth)
        if isinstance(e, ast.Name) and e.id in env:
            return list(env[e.id])
        if isinstance(e, ast.BoolOp) and isinstance(e.op, ast.Or):
            out: list = []
            for i, v in enumerate(e.values):
                sub = self.expr(v, fi, env, depth)
                if i:
                    sub = [("falsy", sub[0][1])] + sub[1:]
                out += sub
            return out
        if isinstance(e, ast.IfExp):
            t = norm(e.test)
            a, b = norm(e.body), norm(e.orelse)
            if t == f"{a} is not None":
                sub = self.expr(e.orelse, fi, env, depth)
                return self.expr(e.body, fi, env, depth) + [("none", sub[0][1])] + sub[1:]
            if t == f"{b} is None":
                sub = self.expr(e.body, fi, env, depth)
                return self.expr(e.orelse, fi, env, depth) + [("none", sub[0][1])] + sub[1:]
            if t == a:
                sub = self.expr(e.orelse, fi, env, depth)
                return self.expr(e.body, fi, env, depth) + [("falsy", sub[0][1])] + sub[1:]
            return [("first", "?" + norm(e))]
        if isinstance(e, ast.Call) and isinstance(e.func, ast.Attribute) and e.func.attr == "get" and len(e.args) == 2:
            sub = self.expr(e.args[1], fi, env, depth)
            first = ast.Call(func=e.func, args=[e.args[0]], keywords=[])
            if isinstance(e.args[1], ast.Constant) and e.args[1].value is None:
                return [("first", _src(first))]
            return [("first", _src(first)), ("missing", sub[0][1])] + sub[1:]
        if isinstance(e, ast.Call) and depth < 2:
            callee = self._callee(e, fi)
            if callee is not None:
                params = [a.arg for a in callee.node.args.args if a.arg not in ("self", "cls")]
                mp = {}
                for p_, a_ in zip(params, e.args):
                    mp[p_] = a_
                for kw in e.keywords:
                    if kw.arg:
                        mp[kw.arg] = kw.value
                rets = [n for n in ast.walk(callee.node) if isinstance(n, ast.Return) and n.value is not None]
                if len(rets) == 1:
                    inner_env = self.block_env(callee, rets[0].lineno, depth + 1)
                    ch = self.expr(rets[0].value, callee, inner_env, depth + 1)
                    out = []
                    for c, s_ in ch:
                        try:
                            out.append((c, _src(_subst(ast.parse(s_, mode="eval").body, mp)) if not s_.startswith("?") and "[" not in s_ else self._subst_text(s_, mp)))
                        except SyntaxError:
                            out.append((c, s_))
                    return out
        return [("first", _src(e))]

    @staticmethod
    def _subst_text(s_: str, mp: dict) -> str:
        # sources of the form base[key]: substitute in the base only
        if "[" in s_ and not s_.startswith("?"):
            base, rest = s_.split("[", 1)
            try:
                return norm(_subst(ast.parse(base, mode="eval").body, mp)) + "[" + rest
            except SyntaxError:
                return s_
        return s_

    def _callee(self, call: ast.Call, fi):
        f = call.func
        if isinstance(f, ast.Attribute) and isinstance(f.value, ast.Name) and f.value.id in ("self", "cls") and self.self_cls is not None:
            return self.prog.find_method(self.self_cls, f.attr)
        if isinstance(f, ast.Name):
            r = self.prog.resolve(fi.module, f.id) if hasattr(fi, "module") else None
            if r is not None and hasattr(r, "node") and isinstance(r.node, ast.FunctionDef):
                return r
        return None

    # -- statements ---------------------------------------------------------------------------
    def block_env(self, fi, upto_line: int, depth: int = 0) -> dict:
        """chains of the locals assigned by the recognised shapes, in source order, before upto_line"""
        env: dict = {}
        stmts = sorted((n for n in ast.walk(fi.node) if isinstance(n, (ast.Assign, ast.AnnAssign, ast.If)) and n.lineno < upto_line), key=lambda n: n.lineno)
        inner_fns = [n for n in ast.walk(fi.node) if isinstance(n, (ast.FunctionDef, ast.Lambda)) and n is not fi.node]
        skip = {id(x) for f_ in inner_fns for x in ast.walk(f_)}
        guarded: set = set()
        bound_at: dict = {}
        enclosing: dict = {}

        def note(node, ifs):
            for ch in ast.iter_child_nodes(node):
                if isinstance(ch, (ast.Assign, ast.AnnAssign)):
                    enclosing[id(ch)] = list(ifs)
                note(ch, ifs + [ch] if isinstance(ch, (ast.If, ast.For, ast.While)) else ifs)

        note(fi.node, [])
        for n in stmts:
            if id(n) in skip:
                continue
            if isinstance(n, ast.If):
                t = norm(n.test)
                conj = [norm(v) for v in n.test.values] if isinstance(n.test, ast.BoolOp) and isinstance(n.test.op, ast.And) else [t]
                for var in list(env):
                    # `if x is None [and <the next source exists>]: x = NEXT`
                    cond = "none" if f"{var} is None" in conj else "falsy" if f"not {var}" in conj else None
                    if cond and len(n.body) == 1 and isinstance(n.body[0], ast.Assign) and norm(n.body[0].targets[0]) == var and not n.orelse:
                        sub = self.expr(n.body[0].value, fi, env, depth)
                        env[var] = env[var] + [(cond, sub[0][1])] + sub[1:]
                        guarded.add(id(n.body[0]))
                continue
            if id(n) in guarded:
                continue
            tgt = n.targets[0] if isinstance(n, ast.Assign) and len(n.targets) == 1 else n.target if isinstance(n, ast.AnnAssign) else None
            if isinstance(tgt, ast.Name) and n.value is not None:
                sub = self.expr(n.value, fi, env, depth)
                first_line = bound_at.get(tgt.id)
                cond_ifs = [i_ for i_ in enclosing.get(id(n), []) if first_line is not None and i_.lineno > first_line]
                if cond_ifs:
                    # a conditional re-assignment under a test this reader does not understand
                    env[tgt.id] = env.get(tgt.id, []) + [("?" + norm(cond_ifs[-1].test), sub[0][1])] + sub[1:]
                else:
                    env[tgt.id] = sub
                    bound_at[tgt.id] = n.lineno
        return env


def resolve(prog, fi, var: str, upto_line: int | None = None, self_cls=None) -> list:
    r = ChainResolver(prog, self_cls)
    env = r.block_env(fi, upto_line if upto_line is not None else (fi.node.end_lineno or 10 ** 9) + 1)
    return env.get(var, [])
