"""E6 - writer/reader table extraction (dataclass fields, dict literals, row reads, constructor keywords, codecs)."""
from __future__ import annotations

import ast

from .model import AnalysisError, Program, norm


def dataclass_fields(cls_node: ast.ClassDef) -> dict[str, ast.AnnAssign]:
    out = {}
    for s in cls_node.body:
        if isinstance(s, ast.AnnAssign) and isinstance(s.target, ast.Name):
            ann = norm(s.annotation)
            if ann.startswith("ClassVar"):
                continue
            out[s.target.id] = s
    return out


def all_fields(prog: Program, ci) -> dict[str, ast.AnnAssign]:
    out: dict[str, ast.AnnAssign] = {}
    for c in reversed(prog.mro(ci)):
        out.update(dataclass_fields(c.node))
    return out


def row_reads(fn: ast.AST, row_names=("row",)) -> dict[str, list]:
    """column -> [nodes] read as row["col"] or helper("col", ...) where helper wraps row[key]"""
    out: dict[str, list] = {}
    helpers = set()
    for n in ast.walk(fn):
        if isinstance(n, ast.FunctionDef) and any(isinstance(x, ast.Subscript) and isinstance(x.value, ast.Name) and x.value.id in row_names and isinstance(x.slice, ast.Name) for x in ast.walk(n)):
            helpers.add(n.name)
    for n in ast.walk(fn):
        if isinstance(n, ast.Subscript) and isinstance(n.value, ast.Name) and n.value.id in row_names and isinstance(n.slice, ast.Constant) and isinstance(n.slice.value, str):
            out.setdefault(n.slice.value, []).append(n)
        elif isinstance(n, ast.Call) and isinstance(n.func, ast.Name) and n.func.id in helpers and n.args and isinstance(n.args[0], ast.Constant):
            out.setdefault(n.args[0].value, []).append(n)
    return out


def ctor_call(fn: ast.AST, clsname: str) -> ast.Call | None:
    for n in ast.walk(fn):
        if isinstance(n, ast.Return) and isinstance(n.value, ast.Call) and norm(n.value.func) == clsname:
            return n.value
    return None


def dict_literal_return(fn: ast.AST) -> ast.Dict | None:
    for n in ast.walk(fn):
        if isinstance(n, ast.Return) and isinstance(n.value, ast.Dict):
            return n.value
    return None


def resolve_local(fn: ast.AST, expr: ast.expr, depth: int = 0) -> ast.expr:
    """Follow single-assignment locals: name -> its defining expression."""
    if isinstance(expr, ast.Name) and depth < 4:
        defs = [n for n in ast.walk(fn) if isinstance(n, ast.Assign) and len(n.targets) == 1 and isinstance(n.targets[0], ast.Name) and n.targets[0].id == expr.id]
        if len(defs) >= 1:
            # last unconditional-looking definition wins; prefer the one mentioning row[...]
            for d in defs:
                if "row[" in norm(d.value) or "_safe_get(" in norm(d.value):
                    return d.value
            return defs[-1].value
    return expr


def codec_of_write(expr_text: str) -> str:
    t = expr_text
    if t.startswith("json.dumps(list("):
        return "json-list"
    if t.startswith("json.dumps("):
        return "json"
    if ".to_dict())" in t and "json.dumps" in t:
        return "json"
    import re as _re
    if _re.search(r"\w+\.\w+\.name$", t):
        return "enum-name"
    if ".value" in t:
        return "enum-value"
    if t.startswith("1 if ") and t.endswith(" else 0"):
        return "bool-int"
    return "plain"


def feeding(fn: ast.AST, expr: ast.expr, depth: int = 0, seen=None) -> list:
    """All expressions that (transitively, through local assignments) feed `expr`."""
    seen = seen if seen is not None else set()
    out = [expr]
    if depth > 4:
        return out
    for n in ast.walk(expr):
        if isinstance(n, ast.Name) and n.id not in seen:
            seen.add(n.id)
            for d in ast.walk(fn):
                if isinstance(d, ast.Assign) and any(isinstance(t_, ast.Name) and t_.id == n.id for t_ in d.targets):
                    out += feeding(fn, d.value, depth + 1, seen)
    return out


def columns_feeding(fn: ast.AST, expr: ast.expr, reads: dict) -> set:
    cols = set()
    for e in feeding(fn, expr):
        for c, nodes in reads.items():
            if any(x in list(ast.walk(e)) for x in nodes):
                cols.add(c)
    return cols


def codec_of_read(fn: ast.AST, expr: ast.expr) -> str:
    chain = feeding(fn, expr)
    texts = [norm(e) for e in chain]
    top = norm(expr)
    if any("json.loads(" in t for t in texts):
        return "json-list" if top.startswith("set(") else "json"
    e = resolve_local(fn, expr)
    t = norm(e)
    if t.startswith("set(") :
        inner = resolve_local(fn, e.args[0]) if isinstance(e, ast.Call) and e.args else e
        return "json-list" if "json.loads(" in norm(inner) else "set"
    if "json.loads(" in t or ".from_dict(" in t:
        return "json"
    if isinstance(e, ast.Subscript) and not (isinstance(e.value, ast.Name) and e.value.id == "row"):
        return "enum-name"       # Enum[...]
    if isinstance(e, ast.Call) and isinstance(e.func, ast.Name) and e.func.id == "bool":
        return "bool-int"
    if isinstance(e, ast.Call) and isinstance(e.func, ast.Name) and e.func.id[0].isupper() and len(e.args) == 1 and not e.keywords:
        return "enum-value"      # Enum(...)
    if isinstance(e, ast.IfExp):
        a, b = codec_of_read(fn, e.body), codec_of_read(fn, e.orelse)
        return a if a != "plain" else b
    if isinstance(e, ast.BoolOp):
        return codec_of_read(fn, e.values[0])
    if isinstance(e, ast.Name):
        # multi-step local (e.g. mi_config built over several statements): look at all its definitions
        defs = [n for n in ast.walk(fn) if isinstance(n, ast.Assign) and any(isinstance(t_, ast.Name) and t_.id == e.id for t_ in n.targets)]
        kinds = {codec_of_read(fn, d.value) for d in defs if not (isinstance(d.value, ast.Constant))}
        kinds.discard("plain")
        if kinds:
            return sorted(kinds)[0]
    return "plain"
