#!/usr/bin/env python3
"""refactor_fuzz.py <mode> <dst> - writes a behaviour-preserving variant of /repo/src to <dst>/src.
modes:  unparse  - every module re-emitted by ast.unparse (formatting, quotes, comments, all line numbers change)
        rename   - unparse + every function-local variable renamed (x -> x_rn), scope-aware and conservative
        pad      - original text with 3 comment lines inserted before every top-level def/class (line shift only)
        unelse   - unparse + "unnecessary else after return" removed everywhere: `if c: ...; return X  else: REST` -> `if c: ...; return X` + REST
        addelse  - unparse + the reverse: statements following an if whose body always leaves the block are moved into its else
Used to test that the checks stay silent on edits that leave behaviour unchanged."""
import ast, os, shutil, sys, builtins

MODES = ["pad", "unparse", "rename", "unelse", "addelse", "swapelse", "notcmp", "nolog", "addlog", "kwrev", "defrev"]


def own_nodes(fn):
    """nodes of fn's own scope (not descending into nested function/class/lambda bodies; comprehensions are descended)"""
    stack = list(ast.iter_child_nodes(fn))
    while stack:
        n = stack.pop()
        yield n
        if isinstance(n, (ast.FunctionDef, ast.AsyncFunctionDef, ast.Lambda, ast.ClassDef)):
            continue
        stack.extend(ast.iter_child_nodes(n))


def assigned_names(fn):
    out = set()
    for n in own_nodes(fn):
        if isinstance(n, ast.Name) and isinstance(n.ctx, (ast.Store, ast.Del)):
            out.add(n.id)
        elif isinstance(n, ast.ExceptHandler) and n.name:
            out.add(n.name)
        elif isinstance(n, (ast.Import, ast.ImportFrom)):
            for a in n.names:
                out.add((a.asname or a.name).split(".")[0])
        elif isinstance(n, (ast.FunctionDef, ast.AsyncFunctionDef, ast.ClassDef)):
            out.add(n.name)
    return out


def params(fn):
    a = fn.args
    ps = [x.arg for x in a.posonlyargs + a.args + a.kwonlyargs]
    if a.vararg:
        ps.append(a.vararg.arg)
    if a.kwarg:
        ps.append(a.kwarg.arg)
    return set(ps)


def rename_locals(tree):
    for fn in [n for n in ast.walk(tree) if isinstance(n, (ast.FunctionDef, ast.AsyncFunctionDef))]:
        decl = set()
        for n in ast.walk(fn):
            if isinstance(n, (ast.Global, ast.Nonlocal)):
                decl |= set(n.names)
        imported = set()
        defs = set()
        handler_names = set()
        for n in own_nodes(fn):
            if isinstance(n, (ast.Import, ast.ImportFrom)):
                imported |= {(a.asname or a.name).split(".")[0] for a in n.names}
            if isinstance(n, (ast.FunctionDef, ast.AsyncFunctionDef, ast.ClassDef)):
                defs.add(n.name)
            if isinstance(n, ast.ExceptHandler) and n.name:
                handler_names.add(n.name)
        cands = assigned_names(fn) - params(fn) - decl - imported - defs - handler_names - set(dir(builtins))
        # names rebound (param or assignment) in a nested scope, or already renamed by an enclosing pass: leave alone
        nested = [n for n in ast.walk(fn) if isinstance(n, (ast.FunctionDef, ast.AsyncFunctionDef, ast.Lambda)) and n is not fn]
        for nf in nested:
            cands -= params(nf)
            if not isinstance(nf, ast.Lambda):
                cands -= assigned_names(nf)
        cands = {c for c in cands if not c.endswith("_rn") and not c.startswith("__")}
        if not cands:
            continue
        for n in ast.walk(fn):
            if isinstance(n, ast.Name) and n.id in cands:
                n.id = n.id + "_rn"
    return tree


def _leaves(stmts):
    if not stmts:
        return False
    last = stmts[-1]
    if isinstance(last, (ast.Return, ast.Raise, ast.Continue, ast.Break)):
        return True
    if isinstance(last, ast.If):
        return _leaves(last.body) and _leaves(last.orelse)
    return False


def _map_blocks(tree, f):
    for n in ast.walk(tree):
        for fld in ("body", "orelse", "finalbody"):
            blk = getattr(n, fld, None)
            if isinstance(blk, list) and blk and isinstance(blk[0], ast.stmt):
                setattr(n, fld, f(blk))
        if isinstance(n, ast.Try):
            for h in n.handlers:
                h.body = f(h.body)
    return tree


def unelse(tree):
    def f(blk):
        out = []
        for s_ in blk:
            if isinstance(s_, ast.If) and s_.orelse and _leaves(s_.body):
                rest = s_.orelse
                s_.orelse = []
                out.append(s_)
                out.extend(f(rest))
            else:
                out.append(s_)
        return out
    for _ in range(3):
        tree = _map_blocks(tree, f)
    return ast.fix_missing_locations(tree)


def addelse(tree):
    def f(blk):
        for i, s_ in enumerate(blk):
            if isinstance(s_, ast.If) and not s_.orelse and _leaves(s_.body) and i + 1 < len(blk):
                s_.orelse = f(blk[i + 1:])
                return blk[: i + 1]
        return blk
    tree = _map_blocks(tree, f)
    return ast.fix_missing_locations(tree)


def write_variant(mode: str, dst: str, src: str = "/repo/src") -> None:
    shutil.rmtree(os.path.join(dst, "src"), ignore_errors=True)
    shutil.copytree(src, os.path.join(dst, "src"), ignore=shutil.ignore_patterns("__pycache__"))
    for root, _, files in os.walk(os.path.join(dst, "src")):
        for f in files:
            if not f.endswith(".py"):
                continue
            p = os.path.join(root, f)
            text = open(p, encoding="utf-8").read()
            if mode == "pad":
                out = []
                for line in text.splitlines(keepends=True):
                    if line.startswith(("def ", "class ", "async def ")):
                        out.append("# pad\n# pad\n# pad\n")
                    out.append(line)
                new = "".join(out)
            else:
                tree = ast.parse(text)
                if mode == "rename":
                    tree = rename_locals(tree)
                if mode == "nolog":
                    class NL(ast.NodeTransformer):
                        def visit_Expr(self, n):
                            if isinstance(n.value, ast.Call) and isinstance(n.value.func, ast.Attribute) and isinstance(n.value.func.value, ast.Name) and n.value.func.value.id == "logger":
                                return ast.Pass()
                            return n
                    tree = ast.fix_missing_locations(NL().visit(tree))
                if mode == "addlog":
                    has_logger = any(isinstance(n, ast.Assign) and any(isinstance(t, ast.Name) and t.id == "logger" for t in n.targets) for n in tree.body)
                    if has_logger:
                        for fn in [n for n in ast.walk(tree) if isinstance(n, (ast.FunctionDef, ast.AsyncFunctionDef))]:
                            i = 1 if fn.body and isinstance(fn.body[0], ast.Expr) and isinstance(fn.body[0].value, ast.Constant) and isinstance(fn.body[0].value.value, str) else 0
                            fn.body.insert(i, ast.parse(f'logger.debug("enter %s", {fn.name!r})').body[0])
                        tree = ast.fix_missing_locations(tree)
                if mode == "notcmp":
                    class NC(ast.NodeTransformer):
                        def visit_Compare(self, n):
                            self.generic_visit(n)
                            inv = {ast.NotIn: ast.In, ast.IsNot: ast.Is, ast.NotEq: ast.Eq}
                            if len(n.ops) == 1 and type(n.ops[0]) in inv:
                                return ast.UnaryOp(op=ast.Not(), operand=ast.Compare(left=n.left, ops=[inv[type(n.ops[0])]()], comparators=n.comparators))
                            return n
                    tree = ast.fix_missing_locations(NC().visit(tree))
                if mode == "kwrev":
                    for c in ast.walk(tree):
                        if isinstance(c, ast.Call) and len(c.keywords) > 1 and all(k.arg for k in c.keywords):
                            c.keywords = list(reversed(c.keywords))
                if mode == "defrev":
                    # reverse the order of undecorated methods inside every class and of undecorated module-level functions
                    for c in [tree] + [n for n in ast.walk(tree) if isinstance(n, ast.ClassDef)]:
                        idx = [i for i, s_ in enumerate(c.body) if isinstance(s_, (ast.FunctionDef, ast.AsyncFunctionDef)) and not s_.decorator_list]
                        fns = [c.body[i] for i in idx]
                        for i, f_ in zip(idx, reversed(fns)):
                            c.body[i] = f_
                if mode == "swapelse":
                    for n in ast.walk(tree):
                        if isinstance(n, ast.If) and n.orelse and not (len(n.orelse) == 1 and isinstance(n.orelse[0], ast.If)):
                            t = n.test
                            n.test = t.operand if isinstance(t, ast.UnaryOp) and isinstance(t.op, ast.Not) else ast.UnaryOp(op=ast.Not(), operand=t)
                            n.body, n.orelse = n.orelse, n.body
                    tree = ast.fix_missing_locations(tree)
                if mode == "unelse":
                    tree = unelse(tree)
                if mode == "addelse":
                    tree = addelse(tree)
                new = ast.unparse(tree) + "\n"
            compile(new, p, "exec")
            open(p, "w", encoding="utf-8").write(new)


if __name__ == "__main__":
    write_variant(sys.argv[1], sys.argv[2])
    print("written", sys.argv[1], sys.argv[2])
