"""Expression evaluation, call dispatch, inlining and API summaries (E3/E4)."""
from __future__ import annotations

import ast
from dataclasses import replace

from .absval import (
    TOP, ClassV, Const, EnumV, FuncV, ListV, MsgV, Ref, State, StatusSetV, StatusV, Svc, SymV, TupleV, Txn, ev,
)
from .interp_cfg import (
    ATTR_KINDS, DEPTH_CAP, INLINE_METHODS, MAY_RAISE, MUTATING_METHODS, NO_INLINE, QUEUE_MUTATORS, SELF_SERVICES,
    FUNC_RAISES, SAFE_CALLS, STAGE_LIST_METHODS, STORE_MUTATORS, TASK_METHODS, TXN_METHODS,
)
from .model import AnalysisError, ClassInfo, FuncInfo

KIND_CLASS = {"stage": ("stabilize.models.stage.stage", "StageExecution"), "workflow": ("stabilize.models.workflow", "Workflow")}
CLASS_KIND = {"StageExecution": "stage", "TaskExecution": "task", "Workflow": "workflow"}


class Outcome:
    __slots__ = ("kind", "val", "exc")

    def __init__(self, kind: str, val=None, exc: str = "") -> None:
        self.kind = kind  # return | raise | break | continue
        self.val = val
        self.exc = exc


class EvalMixin:
    # ------------------------------------------------------------------ basics
    def eval(self, node: ast.expr, st: State, abrupt: list) -> list:
        m = getattr(self, "e_" + type(node).__name__, None)
        if m is None:
            return [(st, TOP)]
        return m(node, st, abrupt)

    def eval_seq(self, nodes, st: State, abrupt: list) -> list:
        cur = [(st, [])]
        for n in nodes:
            nxt = []
            for s, vals in cur:
                for s2, v in self.eval(n, s, abrupt):
                    nxt.append((s2, vals + [v]))
            cur = nxt
        return cur

    def e_Constant(self, node, st, abrupt):
        return [(st, Const(node.value))]

    def e_Name(self, node, st, abrupt):
        return [(st, self.lookup(st, node.id))]

    def e_JoinedStr(self, node, st, abrupt):
        if all(isinstance(v, ast.Constant) for v in node.values):
            return [(st, Const("".join(str(v.value) for v in node.values)))]
        # keep a constant prefix (claim keys such as f"mutex:{...}")
        prefix = ""
        for v in node.values:
            if isinstance(v, ast.Constant):
                prefix += str(v.value)
            else:
                break
        return [(st, SymV(f"f'{prefix}…'"))]

    def e_Lambda(self, node, st, abrupt):
        fi = st.stack[-1] if st.stack else None
        sub = FuncInfo("<lambda>", f"{fi.qualname}.<lambda>" if fi else "<lambda>", st.frames[st.cur]["__mod__"], node, fi.cls if fi else None, fi)
        return [(st, FuncV(sub, node, None, st.cur, (), sub.module))]

    def e_Tuple(self, node, st, abrupt):
        return [(s, TupleV(tuple(vals))) for s, vals in self.eval_seq(node.elts, st, abrupt)]

    def e_List(self, node, st, abrupt):
        return [(s, ListV(tuple(vals), False, bool(vals))) for s, vals in self.eval_seq(node.elts, st, abrupt)]

    def e_Set(self, node, st, abrupt):
        out = []
        for s, vals in self.eval_seq(node.elts, st, abrupt):
            if vals and all(isinstance(v, StatusV) and len(v.members) == 1 for v in vals):
                out.append((s, StatusSetV(frozenset(m for v in vals for m in v.members))))
            else:
                out.append((s, TOP))
        return out

    def e_Dict(self, node, st, abrupt):
        cur = [st]
        for v in node.values:
            nxt = []
            for s in cur:
                nxt.extend(s2 for s2, _ in self.eval(v, s, abrupt))
            cur = nxt
        return [(s, TOP) for s in cur]

    def e_Starred(self, node, st, abrupt):
        return self.eval(node.value, st, abrupt)

    def e_Await(self, node, st, abrupt):
        return self.eval(node.value, st, abrupt)

    def e_NamedExpr(self, node, st, abrupt):
        out = []
        for s, v in self.eval(node.value, st, abrupt):
            self.assign_target(node.target, v, s, node)
            out.append((s, v))
        return out

    def e_BinOp(self, node, st, abrupt):
        out = []
        for s, (a, b) in [(s, tuple(v)) for s, v in self.eval_seq([node.left, node.right], st, abrupt)]:
            if isinstance(a, Const) and isinstance(b, Const) and isinstance(a.value, (int, float)) and isinstance(b.value, (int, float)) and not isinstance(a.value, bool):
                try:
                    if isinstance(node.op, ast.Add):
                        out.append((s, Const(a.value + b.value)))
                        continue
                    if isinstance(node.op, ast.Sub):
                        out.append((s, Const(a.value - b.value)))
                        continue
                except Exception:
                    pass
            if isinstance(node.op, ast.Add) and isinstance(a, ListV) and isinstance(b, ListV):
                out.append((s, ListV(a.elems + b.elems, a.open or b.open, a.nonempty or b.nonempty)))
                continue
            out.append((s, TOP))
        return out

    def e_UnaryOp(self, node, st, abrupt):
        out = []
        for s, v in self.eval(node.operand, st, abrupt):
            if isinstance(node.op, ast.Not):
                t = self.truthiness(v, s)
                out.append((s, Const(not t) if t is not None else TOP))
            else:
                out.append((s, TOP))
        return out

    def e_BoolOp(self, node, st, abrupt):
        # value semantics only matter for constants; otherwise TOP (conditions go through cond())
        out = []
        for s, vals in self.eval_seq(node.values, st, abrupt):
            ts = [self.truthiness(v, s) for v in vals]
            if isinstance(node.op, ast.Or):
                res = TOP
                for i, (v, t) in enumerate(zip(vals, ts)):
                    if t is True:
                        res = v
                        break
                    if t is None:
                        # `x or <falsy default>` keeps the shape of x
                        res = v if all(tt is False for tt in ts[i + 1:]) and isinstance(v, (ListV, Ref)) else TOP
                        break
                else:
                    res = vals[-1]
            else:
                res = TOP
                for v, t in zip(vals, ts):
                    if t is False:
                        res = v
                        break
                    if t is None:
                        res = TOP
                        break
                else:
                    res = vals[-1]
            out.append((s, res))
        return out

    def e_IfExp(self, node, st, abrupt):
        out = []
        for s, truth in self.cond(node.test, st, abrupt):
            out.extend(self.eval(node.body if truth else node.orelse, s, abrupt))
        return out

    def e_Compare(self, node, st, abrupt):
        if len(node.ops) != 1:
            return [(st, TOP)]
        r = self._status_cond(node, st.copy(), [])
        if r is not None and len(r) == 1:
            # decided without splitting
            return [(st, Const(r[0][1]))]
        out = []
        op = node.ops[0]
        for s, (a, b) in [(s, tuple(v)) for s, v in self.eval_seq([node.left, node.comparators[0]], st, abrupt)]:
            res = TOP
            if isinstance(op, (ast.Is, ast.IsNot)) and isinstance(b, Const) and b.value is None:
                isnone = None
                if isinstance(a, Const):
                    isnone = a.value is None
                elif isinstance(a, Ref):
                    isnone = None if s.objs[a.oid].maybe_none else False
                elif isinstance(a, (FuncV, ClassV, Svc, Txn, MsgV, ListV, TupleV, EnumV, StatusV)):
                    isnone = False
                if isnone is not None:
                    res = Const(isnone if isinstance(op, ast.Is) else not isnone)
            elif isinstance(op, (ast.Eq, ast.NotEq)):
                eq = None
                if isinstance(a, Const) and isinstance(b, Const):
                    eq = a.value == b.value
                elif isinstance(a, EnumV) and isinstance(b, EnumV) and a.cls == b.cls and a.member and b.member:
                    eq = a.member == b.member
                elif isinstance(a, StatusV) and isinstance(b, StatusV):
                    if len(a.members) == 1 and len(b.members) == 1:
                        eq = a.members == b.members
                    elif not (a.members & b.members):
                        eq = False
                elif isinstance(a, Ref) and isinstance(b, Ref) and a.oid == b.oid:
                    eq = True
                if eq is not None:
                    res = Const(eq if isinstance(op, ast.Eq) else not eq)
            out.append((s, res))
        return out

    def _refine_truth(self, expr, v, st: State, truth: bool) -> None:  # extends Interp._refine_truth
        if isinstance(expr, ast.Compare) and len(expr.ops) == 1 and isinstance(expr.ops[0], (ast.Is, ast.IsNot)):
            c = expr.comparators[0]
            if isinstance(c, ast.Constant) and c.value is None and isinstance(expr.left, ast.Name):
                cur = self.lookup(st, expr.left.id)
                is_none = truth if isinstance(expr.ops[0], ast.Is) else not truth
                if isinstance(cur, Ref) and st.objs[cur.oid].maybe_none:
                    if is_none:
                        self.assign_name_keep_facts(st, expr.left.id, Const(None))
                    else:
                        st.objs[cur.oid] = replace(st.objs[cur.oid], maybe_none=False)
            return
        if isinstance(expr, ast.Name):
            if isinstance(v, ListV):
                self.assign_name_keep_facts(st, expr.id, replace(v, nonempty=True) if truth else ListV((), False, False))
            elif isinstance(v, Ref) and st.objs[v.oid].kind == "list":
                st.set_attr(v, "__nonempty__", Const(truth))
            elif isinstance(v, Ref) and st.objs[v.oid].maybe_none:
                if truth:
                    st.objs[v.oid] = replace(st.objs[v.oid], maybe_none=False)
                else:
                    self.assign_name_keep_facts(st, expr.id, Const(None))

    def e_Subscript(self, node, st, abrupt):
        out = []
        for s, v in self.eval(node.value, st, abrupt):
            if isinstance(v, (ListV, TupleV)) and isinstance(node.slice, ast.Constant) and isinstance(node.slice.value, int):
                i = node.slice.value
                if -len(v.elems) <= i < len(v.elems):
                    out.append((s, v.elems[i]))
                    continue
            if isinstance(v, ClassV) and v.ci.name == "WorkflowStatus":
                out.append((s, StatusV(self.ALL)))
                continue
            if isinstance(v, Ref) and s.objs[v.oid].kind == "list":
                o = s.objs[v.oid]
                if isinstance(node.slice, ast.Slice):
                    out.append((s, v))
                else:
                    out.append((s, self.mk(s, node, o.elem or "obj", None, ("iter", v.oid, o.origin))))
                continue
            out.append((s, TOP))
        return out

    def _comp(self, node, st, abrupt, elt):
        gen = node.generators[0]
        out = []
        for s, it in self.eval(gen.iter, st, abrupt):
            elems, _ = self._iter_elems(s, it, node)
            closed = isinstance(it, (ListV, TupleV)) and not (isinstance(it, ListV) and it.open) and not gen.ifs and len(node.generators) == 1
            cur = [(s, [])]
            for e in elems:
                nxt = []
                for s2, acc in cur:
                    self.assign_target(gen.target, e, s2, node)
                    for g in node.generators[1:]:
                        self.assign_target(g.target, TOP, s2, node)
                    if not closed:
                        s2.loop += 1
                    for s3, v in self.eval(elt, s2, abrupt):
                        if not closed:
                            s3.loop -= 1
                        nxt.append((s3, acc + [v]))
                cur = nxt
            for s2, acc in cur:
                out.append((s2, ListV(tuple(acc), not closed, bool(isinstance(it, ListV) and it.nonempty and not gen.ifs and len(node.generators) == 1))))
        return out

    def e_ListComp(self, node, st, abrupt):
        return self._comp(node, st, abrupt, node.elt)

    e_GeneratorExp = e_ListComp

    def e_SetComp(self, node, st, abrupt):
        return [(s, TOP) for s, _ in self._comp(node, st, abrupt, node.elt)]

    def e_DictComp(self, node, st, abrupt):
        return [(s, TOP) for s, _ in self._comp(node, st, abrupt, node.value)]

    # -------------------------------------------------------------- attributes
    def e_Attribute(self, node, st, abrupt):
        out = []
        for s, base in self.eval(node.value, st, abrupt):
            out.append((s, self.get_attr(s, base, node.attr, node)))
        return out

    def _kind_class(self, kind: str) -> ClassInfo | None:
        if kind in KIND_CLASS:
            m, c = KIND_CLASS[kind]
            mod = self.prog.modules.get(m)
            if mod and c in mod.classes:
                return mod.classes[c]
        return None

    def get_attr(self, st: State, base, attr: str, node=None):
        if isinstance(base, Ref):
            o = st.objs[base.oid]
            have = o.get(attr)
            if have is not None:
                return have
            if o.kind == "self":
                if attr in SELF_SERVICES:
                    return Svc(SELF_SERVICES[attr])
                if attr == "txn_helper":
                    h = self._helper_obj(st)
                    st.set_attr(base, attr, h)
                    return h
                if isinstance(o.cls, ClassInfo):
                    m = self.prog.find_method(o.cls, attr)
                    if m is not None:
                        if any(ast.unparse(d) == "property" for d in m.node.decorator_list):
                            return SymV(f"self.{attr}")
                        return FuncV(m, m.node, base, None, (), m.module)
                return SymV(f"self.{attr}")
            if attr == "status" and o.kind in ("stage", "task", "workflow", "message", "obj"):
                if o.kind == "obj":
                    return TOP
                v = StatusV(self._default_status(st, o), f"{base.oid}.status")
                st.set_attr(base, "status", v)
                return v
            if attr in ATTR_KINDS and o.kind in ("stage", "task", "workflow", "obj"):
                kind, elem = ATTR_KINDS[attr]
                child = st.new_obj(f"{base.oid}.{attr}", kind, None, ("attr", base.oid, attr), maybe_none=(kind != "list"), elem=elem)
                st.set_attr(base, attr, child)
                return child
            if o.kind == "exc" and isinstance(o.cls, ClassInfo):
                return SymV(f"{self.desc(st, base)}.{attr}")
            return SymV(f"{self.desc(st, base)}.{attr}")
        if isinstance(base, ClassV):
            ci = base.ci
            if ci.name == "WorkflowStatus" and attr in self.T.members:
                return StatusV(frozenset([attr]))
            for st_ in ci.node.body:
                if isinstance(st_, ast.Assign) and any(isinstance(t, ast.Name) and t.id == attr for t in st_.targets):
                    return EnumV(ci.name, attr)
            m = self.prog.find_method(ci, attr)
            if m is not None:
                return FuncV(m, m.node, base if any(ast.unparse(d) == "classmethod" for d in m.node.decorator_list) else None, None, (), m.module)
            return SymV(f"{ci.name}.{attr}")
        if isinstance(base, MsgV):
            v = base.get(attr)
            return v if v is not None else SymV(f"<{base.cls}>.{attr}")
        if isinstance(base, StatusV):
            if attr in self.T.props:
                p = self.T.props[attr]
                if base.members <= p:
                    return Const(True)
                if not (base.members & p):
                    return Const(False)
                return TOP
            return SymV(f"<status>.{attr}")
        if isinstance(base, SymV):
            return SymV(f"{base.text}.{attr}")
        return TOP

    # ------------------------------------------------------------------- calls
    def eval_args(self, node: ast.Call, st: State, abrupt: list) -> list:
        exprs = list(node.args) + [k.value for k in node.keywords]
        out = []
        for s, vals in self.eval_seq(exprs, st, abrupt):
            args = vals[: len(node.args)]
            kwargs = {}
            for k, v in zip(node.keywords, vals[len(node.args):]):
                if k.arg is not None:
                    kwargs[k.arg] = v
            out.append((s, args, kwargs))
        return out

    def _watch(self, st: State, name: str, node) -> None:
        if name in self.watch:
            statuses = []
            for oid, o in st.objs.items():
                sv = o.get("status")
                if isinstance(sv, StatusV) and len(sv.members) < len(self.ALL):
                    statuses.append((str(oid), o.kind, sv.members))
            st.emit(ev("call", self.site(st, node), name=name, ctx=self.ctx(st), statuses=tuple(sorted(statuses)), in_txn=bool(st.txn)))

    def e_Call(self, node: ast.Call, st: State, abrupt: list) -> list:
        f = node.func
        name = f.attr if isinstance(f, ast.Attribute) else (f.id if isinstance(f, ast.Name) else "")
        # X.context.<op>(...) / X.outputs.<op>(...)
        if isinstance(f, ast.Attribute) and isinstance(f.value, ast.Attribute) and f.value.attr in ("context", "outputs"):
            out = []
            for s, base in self.eval(f.value.value, st, abrupt):
                for s2, args, kwargs in self.eval_args(node, s, abrupt):
                    if isinstance(base, Ref):
                        key = node.args[0].value if node.args and isinstance(node.args[0], ast.Constant) else "?"
                        if f.attr in ("pop", "update", "clear", "setdefault", "popitem", "__setitem__", "__delitem__"):
                            s2.emit(ev("ctx", self.site(s2, node), op=f.attr, oid=base.oid, key=key, field=f.value.attr, value=None, ctx=self.ctx(s2)))
                    self._watch(s2, name, node)
                    out.append((s2, SymV(f"{self.desc(s2, base)}.{f.value.attr}.{f.attr}({ast.unparse(node.args[0]) if node.args else ''})")))
            return out
        # list variable mutation
        if isinstance(f, ast.Attribute) and isinstance(f.value, ast.Name) and f.attr in MUTATING_METHODS:
            cur = self.lookup(st, f.value.id)
            if isinstance(cur, ListV):
                out = []
                for s, args, kwargs in self.eval_args(node, st, abrupt):
                    cur2 = self.lookup(s, f.value.id)
                    if isinstance(cur2, ListV):
                        if f.attr == "append" and args:
                            new = ListV(cur2.elems + (args[0],), cur2.open or s.loop > 0, True)
                        elif f.attr == "extend" and args and isinstance(args[0], ListV):
                            new = ListV(cur2.elems + args[0].elems, cur2.open or args[0].open or s.loop > 0, cur2.nonempty or args[0].nonempty)
                        elif f.attr == "extend":
                            new = ListV(cur2.elems, True, cur2.nonempty)
                        else:
                            new = ListV(cur2.elems, True, False)
                        self.assign_name_keep_facts(s, f.value.id, new)
                        key = f"f{s.cur}.{f.value.id}"
                        for k in [k for k in s.facts if key in k]:
                            del s.facts[k]
                    out.append((s, TOP if f.attr == "pop" else Const(None)))
                return out
        if isinstance(f, ast.Attribute):
            out = []
            for s, base in self.eval(f.value, st, abrupt):
                for s2, args, kwargs in self.eval_args(node, s, abrupt):
                    self._watch(s2, name, node)
                    out.extend(self.call_method(s2, base, f.attr, args, kwargs, node, abrupt))
            return out
        out = []
        for s, fv in self.eval(f, st, abrupt):
            for s2, args, kwargs in self.eval_args(node, s, abrupt):
                self._watch(s2, name, node)
                out.extend(self.call_value(s2, fv, args, kwargs, node, abrupt))
        return out

    # -- method dispatch
    def call_method(self, st: State, base, attr: str, args, kwargs, node, abrupt) -> list:
        if isinstance(base, Txn):
            return self.txn_call(st, base, attr, args, kwargs, node, abrupt)
        if isinstance(base, Svc):
            return self.svc_call(st, base, attr, args, kwargs, node, abrupt)
        if isinstance(base, Ref):
            o = st.objs[base.oid]
            have = o.get(attr)
            if isinstance(have, (FuncV, ClassV)):
                return self.call_value(st, have, args, kwargs, node, abrupt)
            if o.kind == "self" and isinstance(o.cls, ClassInfo):
                m = self.prog.find_method(o.cls, attr)
                if m is not None:
                    return self.call_value(st, FuncV(m, m.node, base, None, (), m.module), args, kwargs, node, abrupt)
                return [(st, TOP)]
            if o.kind == "message":
                if attr.startswith("copy_with"):
                    cls = o.cls if isinstance(o.cls, str) else getattr(o.cls, "name", "?")
                    fields = tuple(sorted(list(kwargs.items()) + [(f"arg{i}", a) for i, a in enumerate(args)], key=lambda kv: kv[0]))
                    return [(st, MsgV(cls, fields, "copy", self.site(st, node)))]
                return [(st, TOP)]
            kc = self._kind_class(o.kind)
            if kc is not None and (kc.name, attr) in INLINE_METHODS:
                m = self.prog.find_method(kc, attr)
                if m is not None:
                    return self.inline(st, FuncV(m, m.node, base, None, (), m.module), args, kwargs, node, abrupt, force=True)
            if attr == "determine_status":
                return [(st, StatusV(self.ALL, f"determine_status@{getattr(node, 'lineno', 0)}"))]
            if attr in STAGE_LIST_METHODS:
                return [(st, self.mk(st, node, "list", None, ("call", attr, base.oid), elem="stage"))]
            if attr in TASK_METHODS:
                return [(st, self.mk(st, node, "task", None, ("call", attr, base.oid), maybe_none=True))]
            if attr == "stage_by_ref_id" or attr == "stage_by_id":
                return [(st, self.mk(st, node, "stage", None, ("call", attr, base.oid), maybe_none=True))]
            self.may_raise(st, node, abrupt)
            return [(st, TOP)]
        if isinstance(base, ClassV):
            v = self.get_attr(st, base, attr)
            if isinstance(v, FuncV):
                if attr == "create" and base.ci.name in CLASS_KIND:
                    return [(st, self.mk(st, node, CLASS_KIND[base.ci.name], None, ("new", base.ci.name, self.ctx(st))))]
                return self.call_value(st, v, args, kwargs, node, abrupt)
            return [(st, TOP)]
        # unknown receiver: conservative treatment of sensitive API names
        if attr in TXN_METHODS or attr in ("store_stage", "add_stage", "update_status"):
            self.unresolved_sensitive.append((self.site(st, node), attr, " ".join(ast.unparse(node).split())[:120]))
            st.emit(ev("unresolved", self.site(st, node), name=attr, ctx=self.ctx(st)))
        self.may_raise(st, node, abrupt)
        return [(st, TOP)]

    def is_own(self, st: State, ref, depth: int = 0) -> bool:
        """The entity the incoming message addresses: re-read by the message's ids, an entry parameter, or a task of that stage."""
        if not isinstance(ref, Ref) or depth > 4:
            return False
        o = st.objs.get(ref.oid)
        if o is None or not o.origin:
            return False
        g = o.origin
        if g[0] == "param":
            return o.kind in ("stage", "task", "workflow")
        if g[0] == "call" and g[1] in ("retrieve_stage", "retrieve", "retrieve_execution_summary") and len(g) > 2:
            return str(g[2]).startswith("message.") or str(g[2]) in ("stage_id", "execution_id")
        if g[0] == "iter":
            return self.is_own(st, Ref(g[1]), depth + 1)
        if g[0] == "attr" and g[2] in ("tasks", "execution", "_execution"):
            return self.is_own(st, Ref(g[1]), depth + 1)
        if g[0] == "call" and g[1] in ("first_task", "next_task") and len(g) > 2:
            return self.is_own(st, Ref(g[2]), depth + 1)
        return False

    def root_ctx(self, st: State, ref, depth: int = 0) -> str:
        """Call chain at which the root object (the store read / construction it derives from) was created."""
        if not isinstance(ref, Ref) or depth > 6:
            return ""
        o = st.objs.get(ref.oid)
        if o is None or not o.origin:
            return ""
        g = o.origin
        if g[0] == "call" and len(g) > 3 and g[1] in ("retrieve_stage", "retrieve", "retrieve_execution_summary"):
            return str(g[3])
        if g[0] == "new" and len(g) > 2:
            return str(g[2])
        if g[0] in ("iter", "attr"):
            return self.root_ctx(st, Ref(g[1]), depth + 1)
        if g[0] == "call" and len(g) > 2 and isinstance(g[2], str) and g[2] in st.objs:
            return self.root_ctx(st, Ref(g[2]), depth + 1)
        if g[0] == "param":
            return "<param>"
        return ""

    def own_statuses(self, st: State) -> tuple:
        out = []
        for oid, o in st.objs.items():
            sv = o.get("status")
            if o.kind in ("stage", "task", "workflow") and self.is_own(st, Ref(oid)):
                out.append((o.kind, sv.members if isinstance(sv, StatusV) else self.ALL, str(oid)))
        return tuple(sorted(out, key=lambda t: (t[0], t[2])))

    def _msg_info(self, st: State, m) -> dict:
        if isinstance(m, MsgV):
            d = {"cls": m.cls, "same": m.origin == "copy", "origin": m.origin, "msite": m.site}
            for k in ("stage_id", "task_id", "status", "execution_id", "retry_count", "phase"):
                v = m.get(k)
                if v is not None:
                    d[k] = v.members if isinstance(v, StatusV) else self.desc(st, v)
            return d
        if isinstance(m, Ref) and st.objs[m.oid].kind == "message":
            c = st.objs[m.oid].cls
            return {"cls": c if isinstance(c, str) else getattr(c, "name", "?"), "same": True, "origin": "incoming", "msite": ()}
        return {"cls": "?", "same": False, "origin": "unknown", "msite": ()}

    def _is_incoming_id(self, st: State, v) -> bool:
        return isinstance(v, SymV) and v.text.endswith(".message_id") and not v.text.startswith("<")

    def txn_call(self, st: State, txn: Txn, attr: str, args, kwargs, node, abrupt) -> list:
        site = self.site(st, node)
        if txn.tid not in st.txn:
            st.emit(ev("txn_misuse", site, name=attr, ctx=self.ctx(st)))
        if attr == "store_stage":
            obj = args[0] if args else kwargs.get("stage")
            exp = kwargs.get("expected_phase", args[1] if len(args) > 1 else Const(None))
            info = {"oid": -1, "status": self.ALL, "origin": (), "okind": "?"}
            if isinstance(obj, Ref):
                o = st.objs[obj.oid]
                sv = o.get("status")
                info = {"oid": obj.oid, "status": sv.members if isinstance(sv, StatusV) else self.ALL, "origin": o.origin, "okind": o.kind,
                        "own": self.is_own(st, obj), "fresh_ctx": self.root_ctx(st, obj)}
            # a failed CAS raises ConcurrencyError (explicit exception edge)
            s_fail = st.copy()
            s_fail.emit(ev("cas_fail", site, tid=txn.tid, **info))
            abrupt.append((s_fail, Outcome("raise", TOP, "ConcurrencyError")))
            st.emit(ev("store_stage", site, tid=txn.tid, expected=(exp.value if isinstance(exp, Const) else self.desc(st, exp)), loop=st.lp(), ctx=self.ctx(st), **info))
            return [(st, Const(None))]
        if attr == "update_workflow_status":
            obj = args[0] if args else kwargs.get("workflow")
            info = {"oid": -1, "status": self.ALL}
            if isinstance(obj, Ref):
                sv = st.objs[obj.oid].get("status")
                info = {"oid": obj.oid, "status": sv.members if isinstance(sv, StatusV) else self.ALL, "own": self.is_own(st, obj)}
            st.emit(ev("update_workflow_status", site, tid=txn.tid, ctx=self.ctx(st), **info))
            return [(st, Const(None))]
        if attr == "push_message":
            m = args[0] if args else kwargs.get("message")
            delay = args[1] if len(args) > 1 else kwargs.get("delay")
            st.emit(ev("push", site, tid=txn.tid, via="txn", delayed=_delayed(delay), loop=st.lp(), ctx=self.ctx(st), **self._msg_info(st, m)))
            return [(st, Const(None))]
        if attr == "mark_message_processed":
            mid = kwargs.get("message_id", args[0] if args else None)
            st.emit(ev("mark", site, tid=txn.tid, incoming=self._is_incoming_id(st, mid), ctx=self.ctx(st)))
            return [(st, Const(None))]
        if attr == "acquire_claim":
            key = args[1] if len(args) > 1 else kwargs.get("claim_key")
            ktxt = key.text if isinstance(key, SymV) else self.desc(st, key)
            st.emit(ev("claim", site, tid=txn.tid, key=ktxt, steal=kwargs.get("steal_if_owner_terminal") == Const(True), ctx=self.ctx(st)))
            return [(st, SymV(f"acquire_claim({ktxt})@{site[1]}"))]
        if attr == "is_atomic":
            return [(st, TOP)]
        return [(st, TOP)]

    def svc_call(self, st: State, svc: Svc, attr: str, args, kwargs, node, abrupt) -> list:
        site = self.site(st, node)
        if svc.kind == "store":
            if attr == "transaction":
                tid = st.next_tid
                st.next_tid += 1
                return [(st, Txn(tid))]
            if attr in STORE_MUTATORS:
                info = {}
                obj = args[0] if args else None
                if isinstance(obj, Ref):
                    o = st.objs[obj.oid]
                    sv = o.get("status")
                    info = {"oid": obj.oid, "status": sv.members if isinstance(sv, StatusV) else self.ALL, "origin": o.origin, "okind": o.kind,
                            "own": self.is_own(st, obj), "fresh_ctx": self.root_ctx(st, obj)}
                if ("store", attr) in MAY_RAISE:
                    s_fail = st.copy()
                    abrupt.append((s_fail, Outcome("raise", TOP, MAY_RAISE[("store", attr)])))
                exp = kwargs.get("expected_phase")
                st.emit(ev("auto", site, api=f"store.{attr}", in_txn=bool(st.txn), loop=st.lp(), ctx=self.ctx(st), owns=self.own_statuses(st),
                           expected=None if exp is None else (exp.value if isinstance(exp, Const) else self.desc(st, exp)), **info))
                return [(st, TOP)]
            # reads
            if ("store", attr) in MAY_RAISE:
                s_fail = st.copy()
                abrupt.append((s_fail, Outcome("raise", TOP, MAY_RAISE[("store", attr)])))
            argtxt = self.desc(st, args[0]) if args else ""
            if attr == "retrieve_stage":
                return [(st, self.mk(st, node, "stage", None, ("call", "retrieve_stage", argtxt, self.ctx(st)), maybe_none=(st.loop == 0)))]
            if attr in ("retrieve", "retrieve_execution_summary"):
                return [(st, self.mk(st, node, "workflow", None, ("call", attr, argtxt, self.ctx(st))))]
            if attr in STAGE_LIST_METHODS:
                return [(st, self.mk(st, node, "list", None, ("call", attr, argtxt), elem="stage", maybe_none=True))]
            if attr in ("retrieve_by_pipeline_config_id", "retrieve_by_application", "get_all_pending_workflows"):
                return [(st, self.mk(st, node, "list", None, ("call", attr, argtxt), elem="workflow"))]
            return [(st, TOP)]
        if svc.kind == "queue":
            if attr == "push":
                m = args[0] if args else kwargs.get("message")
                delay = args[1] if len(args) > 1 else kwargs.get("delay")
                conn = kwargs.get("connection")
                st.emit(ev("auto", site, api="queue.push", in_txn=bool(st.txn), loop=st.lp(), ctx=self.ctx(st), connection=conn is not None, owns=self.own_statuses(st),
                           delayed=_delayed(delay), **self._msg_info(st, m)))
                return [(st, Const(None))]
            if attr in QUEUE_MUTATORS:
                st.emit(ev("auto", site, api=f"queue.{attr}", in_txn=bool(st.txn), loop=st.lp(), ctx=self.ctx(st)))
                return [(st, TOP)]
            if attr == "has_pending_message_for_task":
                a = self.desc(st, args[0]) if args else "?"
                return [(st, SymV(f"has_pending({a})"))]
            return [(st, TOP)]
        if svc.kind == "recorder":
            if attr.startswith("record_"):
                obj = args[0] if args else None
                info = {"oid": -1, "okind": "?", "status": self.ALL}
                if isinstance(obj, Ref):
                    o = st.objs[obj.oid]
                    sv = o.get("status")
                    info = {"oid": obj.oid, "okind": o.kind, "status": sv.members if isinstance(sv, StatusV) else self.ALL, "own": self.is_own(st, obj)}
                st.emit(ev("event", site, name=attr, in_txn=bool(st.txn), tid=st.txn[-1] if st.txn else 0, loop=st.lp(), ctx=self.ctx(st), **info))
                return [(st, Const(None))]
            return [(st, TOP)]
        return [(st, TOP)]

    # -- value calls
    def may_raise(self, st: State, node, abrupt) -> None:
        """An unmodelled call may raise an exception of unknown type (explicit exception edge)."""
        f = node.func
        name = f.attr if isinstance(f, ast.Attribute) else (f.id if isinstance(f, ast.Name) else "")
        if name in SAFE_CALLS:
            return
        if isinstance(f, ast.Attribute) and isinstance(f.value, ast.Name) and f.value.id in ("logger", "logging", "time", "os", "json", "math"):
            return
        for exc in FUNC_RAISES.get(name, ()):
            abrupt.append((st.copy(), Outcome("raise", TOP, exc)))
        s2 = st.copy()
        abrupt.append((s2, Outcome("raise", TOP, "Exception?")))

    def call_value(self, st: State, fv, args, kwargs, node, abrupt) -> list:
        if isinstance(fv, FuncV):
            return self.inline(st, fv, args, kwargs, node, abrupt)
        if isinstance(fv, ClassV):
            return self.construct(st, fv.ci, args, kwargs, node, abrupt)
        if isinstance(fv, SymV) and fv.text.startswith("<global>"):
            return self.builtin(st, fv.text[len("<global>"):], args, kwargs, node, abrupt)
        self.may_raise(st, node, abrupt)
        return [(st, TOP)]

    def construct(self, st: State, ci: ClassInfo, args, kwargs, node, abrupt) -> list:
        if ci.module.name == "stabilize.queue.messages":
            fields = tuple(sorted(kwargs.items(), key=lambda kv: kv[0]))
            m = MsgV(ci.name, fields, "new", self.site(st, node))
            self.constructed.append(m)
            return [(st, m)]
        mro_names = {c.name for c in self.prog.mro(ci)} | {ast.unparse(b).split(".")[-1] for c in self.prog.mro(ci) for b in c.base_exprs}
        if "Exception" in mro_names or "BaseException" in mro_names:
            ref = self.mk(st, node, "exc", ci, ("new", ci.name))
            init = self.prog.find_method(ci, "__init__")
            if init is not None and init.module.name.startswith("stabilize.handlers"):
                res = self.inline(st, FuncV(init, init.node, ref, None, (), init.module), args, kwargs, node, abrupt, force=True)
                return [(s, ref) for s, _ in res]
            return [(st, ref)]
        if ci.name == "TransactionHelper":
            return [(st, self._helper_obj(st))]
        if ci.name in CLASS_KIND:
            return [(st, self.mk(st, node, CLASS_KIND[ci.name], None, ("new", ci.name, self.ctx(st))))]
        return [(st, self.mk(st, node, "obj", ci.name, ("new", ci.name)))]

    def builtin(self, st: State, name: str, args, kwargs, node, abrupt) -> list:
        if name == "bool" and args:
            t = self.truthiness(args[0], st)
            return [(st, Const(t) if t is not None else (args[0] if isinstance(args[0], SymV) else TOP))]
        if name == "getattr" and len(args) >= 2 and isinstance(args[1], Const) and isinstance(args[0], (Ref, MsgV)):
            return [(st, self.get_attr(st, args[0], args[1].value))]
        if name == "list" and args and isinstance(args[0], (ListV, Ref)):
            return [(st, args[0])]
        if name == "list" and not args:
            return [(st, ListV((), False, False))]
        if name == "next" and args:
            it = args[0]
            elem = TOP
            if isinstance(it, ListV) and it.elems:
                elem = it.elems[0]
            if isinstance(elem, Ref):
                st.objs[elem.oid] = replace(st.objs[elem.oid], maybe_none=True)
            return [(st, elem)]
        if name == "partial" and args and isinstance(args[0], FuncV):
            f = args[0]
            return [(st, replace(f, bound=f.bound + tuple(sorted(kwargs.items(), key=lambda kv: kv[0]))))]
        if name == "enumerate" and args:
            it = args[0]
            if isinstance(it, ListV):
                return [(st, ListV(tuple(TupleV((TOP, e)) for e in it.elems), it.open, it.nonempty))]
            if isinstance(it, Ref) and st.objs[it.oid].kind == "list":
                o = st.objs[it.oid]
                e = self.mk(st, node, o.elem or "obj", None, ("iter", it.oid, o.origin))
                return [(st, ListV((TupleV((TOP, e)),), True, False))]
        return [(st, TOP)]

    # -- inlining
    def _inlinable(self, fi: FuncInfo) -> bool:
        if fi.name in NO_INLINE:
            return False
        if fi.parent is not None:
            return True
        return any(fi.module.name == p or fi.module.name.startswith(p + ".") for p in self.inline_prefixes)

    def inline(self, st: State, fv: FuncV, args, kwargs, node, abrupt, force: bool = False) -> list:
        fi: FuncInfo = fv.fi
        fnode = fv.node
        if not force and not self._inlinable(fi):
            if fi.name not in ("validate_transition", "is_transient", "get_event_recorder"):
                self.may_raise(st, node, abrupt)
            return [(st, self._unknown_call(st, fi, args, kwargs, node))]
        if len(st.stack) >= DEPTH_CAP or sum(1 for f in st.stack if f.node is fnode) >= 3:
            return [(st, TOP)]
        fid = self._push_frame(st, fi, fv.closure, fv.module or fi.module)
        fr = st.frames[fid]
        a = fnode.args
        params = [p.arg for p in a.posonlyargs + a.args]
        pos = list(args)
        if fv.self_val is not None:
            pos = [fv.self_val] + pos
        for p, v in zip(params, pos):
            fr[p] = v
        if a.vararg:
            fr[a.vararg.arg] = ListV(tuple(pos[len(params):]), False, False)
        kw_all = dict(fv.bound)
        kw_all.update(kwargs)
        kwonly = [p.arg for p in a.kwonlyargs]
        for k, v in kw_all.items():
            if k in params or k in kwonly:
                fr[k] = v
        # defaults
        defaults = list(a.defaults)
        for p, d in zip(params[len(params) - len(defaults):], defaults):
            if p not in fr:
                fr[p] = self._default_value(st, d, fid)
        for p, d in zip(kwonly, a.kw_defaults):
            if p not in fr:
                fr[p] = self._default_value(st, d, fid) if d is not None else TOP
        for p in params + kwonly:
            if p not in fr:
                fr[p] = TOP
        if a.kwarg:
            fr[a.kwarg.arg] = TOP
        st.stack = st.stack + (fi,)
        st.calls = st.calls + ((getattr(node, "lineno", 0), getattr(node, "col_offset", 0)),)
        facts_before = set(st.facts)
        objs_before = frozenset(st.objs)
        out = []
        if isinstance(fnode, ast.Lambda):
            sub_abrupt: list = []
            res = self.eval(fnode.body, st, sub_abrupt)
            done = [(s, Outcome("return", v)) for s, v in res] + sub_abrupt
        else:
            normal, ab = self.exec_block(fnode.body, [st])
            done = [(s, Outcome("return", Const(None))) for s in normal] + ab
        for s, o in done:
            if fid in s.frames:
                self._pop_frame(s, fid)
            s.stack = s.stack[:-1]
            s.calls = s.calls[:-1]
            if s.facts:
                for k in [k for k in s.facts if k not in facts_before]:
                    del s.facts[k]
            self.gc(s, (o.val, fv.self_val), objs_before)
            if o.kind == "return":
                out.append((s, o.val if o.val is not None else Const(None)))
            elif o.kind == "raise":
                abrupt.append((s, o))
            else:
                raise AnalysisError(f"{o.kind} escaped function {fi.qualname}")
        if len(out) > 4:
            out = _dedupe_pairs(out)
        return out

    def gc(self, st: State, extra=None, keep: frozenset = frozenset()) -> None:
        """Drop heap objects unreachable from any frame (keeps path states mergeable)."""
        if len(st.objs) <= len(keep) and all(k in keep for k in st.objs):
            return
        live: set[int] = set()
        work = []

        def push(v):
            if isinstance(v, Ref):
                if v.oid not in live:
                    live.add(v.oid)
                    work.append(v.oid)
            elif isinstance(v, (ListV, TupleV)):
                for e in v.elems:
                    push(e)
            elif isinstance(v, MsgV):
                for _, e in v.fields:
                    push(e)
            elif isinstance(v, FuncV):
                push(v.self_val)
                for _, e in v.bound:
                    push(e)
            elif isinstance(v, tuple):
                for e in v:
                    push(e)

        for fr in st.frames.values():
            for k, v in fr.items():
                if k == "__exc__" and v:
                    push(v[1])
                elif not k.startswith("__"):
                    push(v)
        push(extra)
        while work:
            oid = work.pop()
            o = st.objs.get(oid)
            if o is None:
                continue
            for _, v in o.attrs:
                push(v)
            # keep the parent chain (origins refer to it)
            for x in o.origin:
                if isinstance(x, str) and o.origin and o.origin[0] in ("attr", "iter") and x in st.objs:
                    push(Ref(x))
        for oid in [oid for oid in st.objs if oid not in live and oid not in keep]:
            del st.objs[oid]

    def _default_value(self, st: State, d: ast.expr, fid: int):
        if isinstance(d, ast.Constant):
            return Const(d.value)
        if isinstance(d, ast.Name):
            # evaluated at definition time in the defining scope
            parent = st.frames[fid]["__parent__"]
            f = parent
            while f is not None and f in st.frames:
                if d.id in st.frames[f]:
                    return st.frames[f][d.id]
                f = st.frames[f]["__parent__"]
        if isinstance(d, ast.Attribute):
            tmp: list = []
            r = self.eval(d, st, tmp)
            if r:
                return r[0][1]
        return TOP

    def _unknown_call(self, st: State, fi: FuncInfo, args, kwargs, node):
        # summaries of repository functions that are deliberately not inlined
        if fi.name == "validate_transition" and len(args) >= 2:
            self._validate(st, node)
            return Const(None)
        if fi.name == "is_transient":
            return SymV(f"is_transient({self.desc(st, args[0]) if args else ''})")
        if fi.name == "get_event_recorder":
            return Svc("recorder")
        return TOP

    def _validate(self, st: State, node: ast.Call) -> None:
        """validate_transition(x.status, new): returns normally only for legal transitions -> refine x.status."""
        cur_expr, new_expr = node.args[0], node.args[1]
        tmp: list = []
        opnd = self._status_operand(cur_expr, st, tmp)
        nv = self.eval(new_expr, st, tmp)
        new = nv[0][1] if nv else TOP
        to = new.members if isinstance(new, StatusV) else self.ALL
        oid = -1
        if isinstance(cur_expr, ast.Attribute):
            b = self.eval(cur_expr.value, st, tmp)
            if b and isinstance(b[0][1], Ref):
                oid = b[0][1].oid
        if opnd is not None:
            cur, setter = opnd
            legal_from = frozenset(f for f in cur if any(t == f or t in self.T.transitions.get(f, frozenset()) for t in to))
            if legal_from:
                setter(st, legal_from)
            st.frames[st.cur]["__validated__"] = (oid, to)
            # refine a status-typed local `new` to the targets legal from `cur`
            if isinstance(new_expr, ast.Name) and isinstance(new, StatusV):
                legal_to = frozenset(t for t in to if any(t == f or t in self.T.transitions.get(f, frozenset()) for f in legal_from))
                if legal_to:
                    self.assign_name_keep_facts(st, new_expr.id, StatusV(legal_to, new.tok))
                    if new.tok:
                        self._propagate(st, new.tok, legal_to)


def _delayed(delay) -> str:
    if delay is None or (isinstance(delay, Const) and not delay.value):
        return "no"
    if isinstance(delay, Const):
        return "yes"
    return "maybe"


def _dedupe_pairs(pairs: list) -> list:
    seen = set()
    out = []
    for s, v in pairs:
        try:
            k = (s.sig(), v)
            hash(k)
        except TypeError:
            out.append((s, v))
            continue
        if k in seen:
            continue
        seen.add(k)
        out.append((s, v))
    return out
