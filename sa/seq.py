"""E4 - fold an effect trace into the path's commit sequence."""
from __future__ import annotations

from dataclasses import dataclass, field

from .absval import Event

EFFECT_KINDS = {"store_stage", "update_workflow_status", "push", "mark", "claim", "event"}


@dataclass
class Commit:
    kind: str                      # TXN | AUTO
    site: tuple
    effects: list = field(default_factory=list)
    api: str = ""
    event: Event | None = None
    loop: bool = False
    index: int = 0                 # position of the committing event in the trace

    def has(self, kind: str) -> bool:
        return any(e.kind == kind for e in self.effects)

    def of(self, kind: str) -> list:
        return [e for e in self.effects if e.kind == kind]


def commit_seq(trace: tuple) -> list[Commit]:
    out: list[Commit] = []
    open_: dict[int, Commit] = {}
    for i, e in enumerate(trace):
        if e.kind == "txn_begin":
            open_[e.get("tid")] = Commit("TXN", e.site)
        elif e.kind == "txn_commit":
            c = open_.pop(e.get("tid"), None)
            if c is not None:
                c.index = i
                out.append(c)
        elif e.kind == "txn_rollback":
            open_.pop(e.get("tid"), None)
        elif e.kind in EFFECT_KINDS:
            tid = e.get("tid")
            if tid and tid in open_:
                open_[tid].effects.append(e)
                if e.get("loop"):
                    pass
            elif e.kind == "event":
                pass  # event outside a transaction: not a store commit
        elif e.kind == "auto":
            c = Commit("AUTO", e.site, [e], e.get("api"), e, bool(e.get("loop")), i)
            out.append(c)
    return out


def fmt_effect(e: Event) -> str:
    if e.kind == "push":
        s = f"push:{e.get('cls')}"
        if e.get("same"):
            s += "(same)"
        if e.get("delayed") in ("yes", "maybe"):
            s += "+delay" + ("?" if e.get("delayed") == "maybe" else "")
        if e.get("loop"):
            s += "*" if e.get("loop") == "opt" else "+"
        return s
    if e.kind == "mark":
        return "mark" if e.get("incoming") else "mark(other)"
    if e.kind == "store_stage":
        st = e.get("status")
        s = "store_stage[" + ("|".join(sorted(st)) if len(st) <= 4 else f"{len(st)} statuses") + "]"
        if e.get("expected") is not None:
            s += f"?{e.get('expected')}"
        return s
    if e.kind == "update_workflow_status":
        st = e.get("status")
        return "update_wf[" + ("|".join(sorted(st)) if len(st) <= 4 else f"{len(st)}") + "]"
    if e.kind == "claim":
        return f"claim({e.get('key')})"
    if e.kind == "event":
        return f"event:{e.get('name')}"
    if e.kind == "auto":
        s = f"{e.get('api')}"
        if e.get("api") == "queue.push":
            s += f":{e.get('cls')}" + ("+delay" if e.get("delayed") in ("yes", "maybe") else "")
        if e.get("loop"):
            s += "*"
        return s
    return e.kind


def fmt_seq(seq: list[Commit]) -> str:
    parts = []
    for c in seq:
        if c.kind == "TXN":
            parts.append("TXN{" + ",".join(fmt_effect(e) for e in c.effects) + "}")
        else:
            parts.append("AUTO " + fmt_effect(c.event))
    return " ; ".join(parts) if parts else "-"
