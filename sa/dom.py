"""Conditions that hold wherever a node is reached (syntactic dominance), independent of how the ifs are spelled.

conditions_at(fn, node) -> set of (text, truth) facts from
  * the branches of the enclosing ifs,
  * earlier sibling ifs whose taken branch always leaves the block (`if t: return ...` => t is false afterwards),
with conjunctions / disjunctions split where sound (A and B true => A, B true; A or B false => A, B false) and polarity
canonical: a leading `not` is stripped and `!=`, `not in`, `is not` are rewritten to ==, in, is with the truth flipped.
So `if x is not None: NODE`, `if x is None: return` + NODE and `if x is None: ... else: NODE` all give ("x is None", False).
"""
from __future__ import annotations

import ast

from .model import norm

_NEG = {ast.NotEq: ast.Eq, ast.NotIn: ast.In, ast.IsNot: ast.Is}


def parents(fn: ast.AST) -> dict:
    par = {}
    for n in ast.walk(fn):
        for c in ast.iter_child_nodes(n):
            par[id(c)] = n
    return par


def stmt_of(fn: ast.AST, node: ast.AST, par: dict | None = None) -> ast.AST:
    par = par or parents(fn)
    cur = node
    while id(cur) in par and not isinstance(cur, ast.stmt):
        cur = par[id(cur)]
    return cur


def leaves_block(stmts) -> bool:
    if not stmts:
        return False
    last = stmts[-1]
    if isinstance(last, (ast.Return, ast.Raise, ast.Continue, ast.Break)):
        return True
    if isinstance(last, ast.If):
        return leaves_block(last.body) and leaves_block(last.orelse)
    if isinstance(last, ast.Try):
        # every way out of the try statement leaves: finally leaves, or (body [+ else] and every handler leave)
        if last.finalbody and leaves_block(last.finalbody):
            return True
        body_leaves = leaves_block(last.body) or (bool(last.orelse) and leaves_block(last.orelse))
        return body_leaves and all(leaves_block(h.body) for h in last.handlers)
    if isinstance(last, ast.With):
        return leaves_block(last.body)
    return False


def canon_fact(test: ast.expr, truth: bool) -> list:
    """split and canonicalise one (test, truth) into atomic (text, truth) facts"""
    while isinstance(test, ast.UnaryOp) and isinstance(test.op, ast.Not):
        test, truth = test.operand, not truth
    if isinstance(test, ast.BoolOp):
        if (isinstance(test.op, ast.And) and truth) or (isinstance(test.op, ast.Or) and not truth):
            out = []
            for v in test.values:
                out += canon_fact(v, truth)
            return out
        return [(norm(test), truth)]
    if isinstance(test, ast.Compare) and len(test.ops) == 1 and type(test.ops[0]) in _NEG:
        pos = ast.Compare(left=test.left, ops=[_NEG[type(test.ops[0])]()], comparators=test.comparators)
        return [(norm(pos), not truth)]
    return [(norm(test), truth)]


def raw_conditions_at(fn: ast.AST, node: ast.AST) -> list:
    """[(test expr, truth)] - unsplit"""
    par = parents(fn)
    out = []
    cur = stmt_of(fn, node, par)
    while id(cur) in par:
        p = par[id(cur)]
        if isinstance(p, ast.If):
            if any(cur is x for x in p.body):
                out.append((p.test, True))
            elif any(cur is x for x in p.orelse):
                out.append((p.test, False))
        for fld in ("body", "orelse", "finalbody"):
            blk = getattr(p, fld, None)
            if isinstance(blk, list) and any(cur is x for x in blk):
                for s in blk:
                    if s is cur:
                        break
                    if isinstance(s, ast.If):
                        if leaves_block(s.body) and not leaves_block(s.orelse):
                            out.append((s.test, False))
                        elif s.orelse and leaves_block(s.orelse) and not leaves_block(s.body):
                            out.append((s.test, True))
        cur = p
        if cur is fn:
            break
    return out


def conditions_at(fn: ast.AST, node: ast.AST) -> set:
    out = set()
    for t, tr in raw_conditions_at(fn, node):
        out |= set(canon_fact(t, tr))
    return out


def holds(fn: ast.AST, node: ast.AST, text: str, truth: bool = True) -> bool:
    """does `text` (any spelling) have the given truth wherever node is reached?"""
    try:
        e = ast.parse(text, mode="eval").body
    except SyntaxError:
        return False
    want = set(canon_fact(e, truth))
    have = conditions_at(fn, node)
    return want <= have


def expand_locals(expr: ast.expr, fn: ast.AST, depth: int = 2) -> ast.expr:
    """copy of expr with single-definition locals of fn replaced by their defining expression (depth-limited): a condition
    computed into a variable first reads the same as the inline condition"""
    import copy

    defs: dict = {}
    for n in ast.walk(fn):
        if isinstance(n, ast.Assign) and len(n.targets) == 1 and isinstance(n.targets[0], ast.Name):
            defs.setdefault(n.targets[0].id, []).append(n.value)
        elif isinstance(n, ast.AnnAssign) and isinstance(n.target, ast.Name) and n.value is not None:
            defs.setdefault(n.target.id, []).append(n.value)
        elif isinstance(n, (ast.For, ast.AugAssign, ast.With, ast.NamedExpr)):
            for t in ast.walk(n.target if hasattr(n, "target") else n):
                if isinstance(t, ast.Name) and isinstance(getattr(t, "ctx", None), ast.Store):
                    defs.setdefault(t.id, []).append(None)

    def sub(e, d):
        class R(ast.NodeTransformer):
            def visit_Name(self, n):
                v = defs.get(n.id)
                if d > 0 and v and len(v) == 1 and v[0] is not None and isinstance(n.ctx, ast.Load):
                    return sub(v[0], d - 1)
                return n
        return R().visit(copy.deepcopy(e))

    return sub(expr, depth)
