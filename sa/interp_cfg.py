"""Closed tables of the path interpreter (reviewed against the repository)."""
PATH_CAP = 80000
DEPTH_CAP = 24

INLINE_PREFIXES = (
    "stabilize.handlers",
    "stabilize.persistence.transaction",
    "stabilize.recovery",
)
# small model methods whose bodies are interpreted (summaries derived, not hard-coded)
INLINE_METHODS = {
    ("StageExecution", "failure_status"),
    ("Workflow", "update_status"),
    ("Workflow", "resume"),
    ("Workflow", "pause"),
    ("Workflow", "cancel"),
}
NO_INLINE = {"execute_with_timeout", "resolve_task", "verify_task_outputs", "run_stage_finalizers", "_invoke_task_cleanup", "set_event_context", "current_time_millis", "get_backoff_period", "_get_backoff_period"}

PASS_DECORATORS = {"DEADLOCK_RETRY_POLICY", "ERROR_HANDLING_RETRY_POLICY"}
# a local name used as decorator passes through when it was built by one of these (retry wrappers: call the function, possibly again)
PASS_DECORATOR_FACTORIES = {"RetryWithBackoffPolicy"}

# attribute name -> service kind, on `self`-like objects
SELF_SERVICES = {
    "repository": "store", "store": "store", "_store": "store",
    "queue": "queue",
    "event_recorder": "recorder",
}
ANNOT_SERVICES = {"WorkflowStore": "store", "Queue": "queue", "EventRecorder": "recorder"}

STORE_MUTATORS = {
    "store", "update_status", "delete", "store_stage", "add_stage", "remove_stage", "pause", "resume", "cancel",
    "mark_message_processed", "cleanup_old_processed_messages", "cleanup_completed_stage_claims",
}
QUEUE_MUTATORS = {"push", "ack", "ensure", "reschedule", "clear", "extend_lock", "move_to_dlq", "replay_dlq", "check_and_move_expired", "clear_dlq"}
TXN_METHODS = {"store_stage", "update_workflow_status", "push_message", "mark_message_processed", "acquire_claim"}

STAGE_LIST_METHODS = {
    "get_upstream_stages", "get_downstream_stages", "get_synthetic_stages", "top_level_stages", "before_stages", "after_stages",
    "first_after_stages", "upstream_stages", "initial_stages", "all_upstream_stages", "downstream_stages", "direct_children",
}
TASK_METHODS = {"first_task", "next_task"}
ATTR_KINDS = {"tasks": ("list", "task"), "stages": ("list", "stage"), "execution": ("workflow", ""), "stage": ("stage", ""), "_execution": ("workflow", "")}

# exceptions raised only by modelled sources (no synthetic entry into their handlers)
EXPLICIT_ONLY = {"ConcurrencyError", "_ClaimBlockedError", "RetryLimitReached", "InvalidStateTransitionError"}
MAY_RAISE = {  # summarised API -> exception
    ("store", "retrieve_stage"): "ValueError",
    ("store", "retrieve"): "WorkflowNotFoundError",
    ("store", "store_stage"): "ConcurrencyError",
    ("txn", "store_stage"): "ConcurrencyError",
}
MUTATING_METHODS = {"append", "pop", "update", "clear", "remove", "extend", "insert", "sort", "add", "discard", "setdefault"}



# attribute stores that are tracked on abstract objects (everything else is irrelevant to the rules)
STORED_ATTRS = {"status", "kind", "execution"}

# calls assumed not to raise (everything else that is neither inlined nor summarised gets an exception edge)
SAFE_CALLS = {
    "len", "bool", "isinstance", "hasattr", "getattr", "str", "int", "float", "list", "dict", "set", "tuple", "frozenset", "sorted", "any", "all",
    "max", "min", "sum", "enumerate", "range", "zip", "next", "iter", "repr", "type", "id", "partial", "timedelta", "cast",
    "get", "keys", "items", "values", "append", "extend", "pop", "update", "add", "discard", "copy", "setdefault", "sort", "startswith", "endswith",
    "lower", "upper", "strip", "split", "join", "format", "total_seconds", "isoformat", "monotonic", "time", "issuperset", "issubset",
    "debug", "info", "warning", "error", "critical", "exception", "log",
    "current_time_millis", "set_event_context", "copy_with_attempts", "set", "wait", "acquire", "release",
    "first_task", "next_task", "before_stages", "after_stages", "first_after_stages", "top_level_stages", "initial_stages", "upstream_stages",
    "is_initial", "stage_by_ref_id", "all_upstream_stages_complete", "determine_status", "failure_status", "should_fail_pipeline",
    "cleanup", "is_transient", "truncate_error", "classify_error", "audit", "get_message_type_name", "cancel_task", "register_token", "unregister_token",
    "run_stage_finalizers", "_invoke_task_cleanup", "get_finalizer_registry", "get_backoff_period", "_get_backoff_period", "for_attempt",
    "validate_transition", "get_event_recorder", "set_error_context",
}

# summarised repository functions: exceptions they may raise (besides an unknown one)
FUNC_RAISES = {
    "execute_with_timeout": ("TaskTimeoutError",),
    "resolve_task": ("TaskNotFoundError",),
    "verify_task_outputs": ("TransientVerificationError", "VerificationError"),
    "evaluate_expression": ("ExpressionError",),
}
