"""Status predicates as sets (E7): the set of WorkflowStatus members for which a boolean expression over ONE
status-valued subject is true.  `subject` is the normalised text of the status expression (e.g. "s.status").

Recognised: subject.is_<prop>, subject ==/!=/is/is not WorkflowStatus.M, subject in / not in {members} | NAMED_SET,
not / and / or of those.  Anything else -> None (the caller reports "not decidable", never guesses).
"""
from __future__ import annotations

import ast

from .model import norm
from .status_tables import _member_of, _member_set


def status_set(test: ast.expr, subject: str, T, named: dict | None = None) -> frozenset | None:
    ALL = frozenset(T.members)
    named = named or {}

    def members_of(e: ast.expr) -> frozenset | None:
        if isinstance(e, ast.Name):
            if e.id in T.sets:
                return T.sets[e.id]
            if e.id in named:
                return named[e.id]
        return _member_set(e)

    def ev(e: ast.expr) -> frozenset | None:
        if isinstance(e, ast.UnaryOp) and isinstance(e.op, ast.Not):
            r = ev(e.operand)
            return None if r is None else ALL - r
        if isinstance(e, ast.BoolOp):
            parts = [ev(v) for v in e.values]
            if any(p is None for p in parts):
                return None
            out = parts[0]
            for p in parts[1:]:
                out = (out & p) if isinstance(e.op, ast.And) else (out | p)
            return out
        if isinstance(e, ast.Attribute) and norm(e.value) == subject and e.attr in T.props:
            return T.props[e.attr]
        if isinstance(e, ast.Compare) and len(e.ops) == 1 and norm(e.left) == subject:
            op, c = e.ops[0], e.comparators[0]
            if isinstance(op, (ast.Eq, ast.Is)):
                m = _member_of(c)
                return frozenset([m]) if m else None
            if isinstance(op, (ast.NotEq, ast.IsNot)):
                m = _member_of(c)
                return ALL - frozenset([m]) if m else None
            if isinstance(op, ast.In):
                return members_of(c)
            if isinstance(op, ast.NotIn):
                s = members_of(c)
                return None if s is None else ALL - s
        return None

    return ev(test)


def comprehension_filter(value: ast.expr) -> tuple[ast.comprehension, ast.expr | None] | None:
    """(generator, filter) of `[x for x in ITER if FILTER]` (single generator), else None"""
    if isinstance(value, (ast.ListComp, ast.GeneratorExp, ast.SetComp)) and len(value.generators) == 1:
        g = value.generators[0]
        if len(g.ifs) == 0:
            return g, None
        if len(g.ifs) == 1:
            return g, g.ifs[0]
        return g, ast.BoolOp(op=ast.And(), values=list(g.ifs))
    return None
