"""Consume-without-continuation analysis (used by C05.R6).

A handler path "consumes" its message when it returns normally (the processor then marks and acks the
message) without pushing any message and without storing a status.  Every such path ends the chain of
messages that drives a workflow, so each one must be justified by the path condition under which it is
taken: either durable state makes the message moot (the addressed entity already left the status the
handler acts on), or somebody else is known to carry the workflow forward.

The path condition is recorded by re-enumerating the handler with its own If-tests as recorded guards:
    mode "all": every leaf test of every If/IfExp/While in the handler class
    mode "ret": only the tests of Ifs with an early `return` in one branch (handlers whose full condition
                set is too large to enumerate)
Facts are written `test` / `!test`, optionally qualified `function::test`.
"""
from __future__ import annotations

import ast
from dataclasses import dataclass

from .dom import canon_fact
from .paths import BASE, Config, probe
from .seqrules import path_infos


def _leaves(e):
    if isinstance(e, ast.BoolOp):
        for v in e.values:
            yield from _leaves(v)
    elif isinstance(e, ast.UnaryOp) and isinstance(e.op, ast.Not):
        yield from _leaves(e.operand)
    else:
        yield e


def guard_tests(cls_node: ast.ClassDef, mode: str) -> frozenset:
    tests = set()
    for n in ast.walk(cls_node):
        if not isinstance(n, (ast.If, ast.IfExp, ast.While)):
            continue
        if mode == "ret" and not (isinstance(n, ast.If) and (any(isinstance(x, ast.Return) for x in n.body) or any(isinstance(x, ast.Return) for x in n.orelse))):
            continue
        for l in _leaves(n.test):
            tests.add(" ".join(ast.unparse(l).split()))
    return frozenset(tests)


def _fn_index(cls_node: ast.ClassDef) -> list:
    out = []
    for n in ast.walk(cls_node):
        if isinstance(n, (ast.FunctionDef, ast.AsyncFunctionDef)):
            out.append((n.lineno, n.end_lineno or n.lineno, n.name))
    return sorted(out, key=lambda t: t[1] - t[0])       # innermost (shortest) first


@dataclass
class ConsumePath:
    handler: str
    shape: str
    facts: frozenset          # {"test", "!test", "fn::test", "fn::!test"}
    ordered: tuple            # facts in decision order (unqualified), for display
    site: tuple


def consume_paths(ctx, entry, mode: str, path_cap: int = 30000) -> tuple[list, int]:
    """(consume-only paths of the handler, number of paths enumerated)"""
    cls = entry.cls
    cfg = Config(watch=BASE.watch, guards=guard_tests(cls.node, mode), path_cap=path_cap)
    res = probe(ctx, cls.name + ":consume", cls.module.name, cls.name + ".handle", {"message": ("message", entry.message)}, cfg, (cls.module.name, cls.name))
    fns = _fn_index(cls.node)
    file_of_cls = cls.module.relpath

    def fn_of(site) -> str:
        if not site or site[0] != file_of_cls:
            return ""
        for a, b, name in fns:
            if a <= site[1] <= b:
                return name
        return ""

    out = []
    seen = set()
    for pi in path_infos({cls.name: res}):
        if pi.outcome != "return" or pi.synthetic_after is not None:
            continue
        if pi.pushes() or any(e.kind in ("store_stage", "update_workflow_status") for c in pi.seq for e in c.effects):
            continue
        if any(e.kind == "txn_rollback" for e in pi.trace):
            continue
        facts = set()
        ordered = []
        last_site = None
        for e in pi.trace:
            if e.kind != "guard":
                continue
            raw = str(e.get("raw") or e.get("text"))
            # canonical polarity (sa/dom.py): `x != y` decided True is the fact `!x == y`, whichever way the source spells it
            try:
                atoms = canon_fact(ast.parse(raw, mode="eval").body, bool(e.get("truth")))
            except SyntaxError:
                atoms = [(raw, bool(e.get("truth")))]
            fn = fn_of(e.site)
            for text, truth in atoms:
                lit = text if truth else "!" + text
                facts.add(lit)
                if fn:
                    facts.add(f"{fn}::{lit}")
                if lit not in ordered:
                    ordered.append(lit)
            last_site = e.site
        key = (pi.shape, frozenset(facts))
        if key in seen:
            continue
        seen.add(key)
        out.append(ConsumePath(cls.name, pi.shape, frozenset(facts), tuple(ordered), last_site or pi.where()))
    return out, len(res.paths)


def canon_literal(lit: str) -> list:
    """table fact ('test', '!test', 'fn::!test') -> canonical literal(s) in the same notation"""
    prefix = ""
    if "::" in lit:
        prefix, lit = lit.split("::", 1)
        prefix += "::"
    truth = not lit.startswith("!")
    text = lit[1:] if not truth else lit
    try:
        atoms = canon_fact(ast.parse(text, mode="eval").body, truth)
    except SyntaxError:
        atoms = [(text, truth)]
    return [prefix + (t if tr else "!" + t) for t, tr in atoms]


def justify(cp: ConsumePath, entries: list) -> tuple | None:
    """first table entry whose facts (in canonical polarity) all hold on the path"""
    for facts, reason in entries:
        want = [c for f in facts for c in canon_literal(f)]
        if all(f in cp.facts for f in want):
            return facts, reason
    return None
