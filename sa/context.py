"""Shared, lazily built analysis context (program model, status tables)."""
from __future__ import annotations

from functools import cached_property

from .model import Program


class Context:
    def __init__(self, repo: str) -> None:
        self.repo = repo

    @cached_property
    def prog(self) -> Program:
        return Program(self.repo)

    @cached_property
    def st(self):
        from .status_tables import load

        return load(self.prog)


_CTX: dict[str, Context] = {}


def get_context(repo: str) -> Context:
    if repo not in _CTX:
        _CTX[repo] = Context(repo)
    return _CTX[repo]
