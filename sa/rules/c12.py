"""C12 - replaying the event log reproduces the stored state.

  R1  writer/reader table: for every recorder method the status the replay derives from its event equals the status the
      entity has when the event is recorded (per call site, per status class); every regular durable status change has an event
  R2  every lifecycle EventType a recorder emits has an apply case (or is listed status-neutral)
  R3  cut points: only events <= as_of are applied; a snapshot is used only if it is not newer than the cut; events are
      read strictly after the snapshot, in sequence order
  R4  snapshot table: every key the state emits is restored from a snapshot
"""
from __future__ import annotations

import ast
import re

from .. import sqlshape
from ..model import AnalysisError, norm
from ..paths import all_paths
from ..seqrules import path_infos

REC = {"stage": ("stabilize.events.recorder.stage_events", "_apply_stage_event"), "task": ("stabilize.events.recorder.task_events", "_apply_task_event"),
       "workflow": ("stabilize.events.recorder.workflow_events", "_apply_workflow_event")}

# status writes that are made durable without an event, each with the reason it is outside "regular start/complete/fail/skip/cancel steps"
NO_EVENT_OK = {
    "JumpToStageHandler": "stages force-marked / re-armed by a jump are outside the log (property statement)",
    "RestartStageHandler": "operator re-arm, outside the log",
    "PauseTaskHandler": "PAUSED parking is not a final status",
    "ResumeStageHandler": "resume from PAUSED is not a lifecycle event",
    "SignalStageHandler": "resume from SUSPENDED is not a lifecycle event",
    "StartWaitingWorkflowsHandler": "BUFFERED -> NOT_STARTED promotion is recorded as workflow.started",
    "AddMultiInstanceHandler": "no status change",
}
NO_EVENT_SITES = {
    ("RunTaskHandler", "SUSPENDED"): "SUSPENDED parking is not a final status",
    ("RunTaskHandler", "RUNNING"): "resume after a buffered signal",
    ("StartStageHandler", "NOT_STARTED"): "claim revert (not durable)",
    ("StartWorkflowHandler", "BUFFERED"): "explicit wait for a concurrency slot",
    ("StartWorkflowHandler", "TERMINAL"): "workflow without initial stages (construction error)",
    ("StartTaskHandler", "RUNNING", "CompleteTask"): "disabled SkippableTask: started only to be completed as SKIPPED; CompleteTask's task.completed event carries the final status",
}
# recorder call sites where the replayed status intentionally differs from the stored one until a later event
EVENT_STATUS_OK = {
    ("StartWaitingWorkflowsHandler", "record_workflow_started"): "promotion of a BUFFERED workflow: recorded ahead of the StartWorkflow step that makes it RUNNING (and records the event again); the final status is decided by later events",
}


def _calls(node, name=None):
    for n in ast.walk(node):
        if isinstance(n, ast.Call):
            f = n.func
            nm = f.attr if isinstance(f, ast.Attribute) else (f.id if isinstance(f, ast.Name) else "")
            if name is None or nm == name:
                yield n


def recorder_table(prog) -> dict:
    """record_x -> {etype, keys, status_src}"""
    out = {}
    for kind, (modname, _) in REC.items():
        mod = prog.module(modname)
        for c in mod.classes.values():
            for m in c.methods.values():
                if not m.name.startswith("record_"):
                    continue
                et = None
                keys = {}
                for n in ast.walk(m.node):
                    if isinstance(n, ast.keyword) and n.arg == "event_type":
                        et = norm(n.value).split(".")[-1]
                    if isinstance(n, ast.keyword) and n.arg == "data" and isinstance(n.value, ast.Dict):
                        for k, v in zip(n.value.keys, n.value.values):
                            if isinstance(k, ast.Constant):
                                keys[k.value] = norm(v)
                out[m.name] = {"kind": kind, "etype": et, "keys": keys, "file": m.file, "line": m.node.lineno}
    return out


def apply_table(prog) -> dict:
    """EventType member -> {status: ('const', S) | ('data', default) | None, kind}"""
    rp = prog.cls("stabilize.events.replay", "EventReplayer")
    out = {}
    for kind, (_, fname) in REC.items():
        f = rp.methods.get(fname)
        if f is None:
            raise AnalysisError(f"{fname} not found")
        for n in ast.walk(f.node):
            if isinstance(n, ast.If):
                m = re.fullmatch(r"event\.event_type == EventType\.(\w+)", norm(n.test))
                if not m:
                    continue
                st = None
                for s_ in n.body:
                    if isinstance(s_, ast.Assign) and re.fullmatch(r"(state\.status|stage\[['\"]status['\"]\]|task\[['\"]status['\"]\])", norm(s_.targets[0])):
                        v = s_.value
                        if isinstance(v, ast.Constant):
                            st = ("const", v.value)
                        else:
                            mm = re.fullmatch(r"event\.data\.get\(['\"]status['\"], ['\"](\w+)['\"]\)", norm(v))
                            st = ("data", mm.group(1)) if mm else ("?", norm(v))
                out[m.group(1)] = {"status": st, "kind": kind, "file": f.file, "line": n.lineno}
    return out


def run(ctx, rep) -> None:
    prog, T = ctx.prog, ctx.st
    rep.rule("C12.R1", "per recorder call site: status derived by the replay's apply case from the event = status of the entity when the event is recorded; every regular durable status change of a stage/task/workflow has such an event on its path")
    rep.rule("C12.R2", "every EventType emitted by a stage/task/workflow recorder has an apply case (status-neutral ones listed)")
    rep.rule("C12.R3", "as_of: events filtered by sequence <= as_of, snapshot used only if snapshot.sequence <= as_of; events read with sequence > start ORDER BY sequence ASC; start = snapshot.sequence")
    rep.rule("C12.R5", "log order = commit order: no event is recorded outside a transaction AFTER a commit of the same path that pushed a message (another worker handling that message can record the entity's later events first, and the replay then ends on the earlier status)")
    rep.rule("C12.R4", "keys emitted by WorkflowState.to_dict = keys restored by _load_state_from_snapshot")
    rep.undecided += ["equality of data payloads (context, outputs)", "ordering effects of concurrent recorders"]
    rt = recorder_table(prog)
    at = apply_table(prog)
    rep.count(recorder_methods=len(rt), apply_cases=len(at))
    rep.floor("recorder methods", len(rt), 14)
    rep.floor("apply cases", len(at), 15)
    NEUTRAL = {"WORKFLOW_CREATED": "carries application/name only", "TASK_RETRIED": "retry counter only", "CONTEXT_UPDATED": "context only"}
    # ---- R2 ----------------------------------------------------------------------------------------
    for name, r in sorted(rt.items()):
        et = r["etype"]
        if et is None:
            rep.fail("C12.R2", f"{name}: event type", "event_type not recognised", r["file"], r["line"], disc=f"{name}:etype")
            continue
        ok = et in at or et in NEUTRAL
        rep.check(ok, "C12.R2", f"{name} -> {et} has an apply case", "applied by the replayer" if et in at else NEUTRAL.get(et, "no apply case: the replay ignores this lifecycle event"), r["file"], r["line"], disc=f"{name}:{et}")
        if et in at and at[et]["status"] and at[et]["status"][0] == "data":
            wrote = r["keys"].get("status")
            obj = {"stage": "stage", "task": "task", "workflow": "workflow"}[r["kind"]]
            rep.check(wrote == f"{obj}.status.name", "C12.R1", f"{name} writes the status the replay reads", f"data['status'] = {wrote}; replay: event.data.get('status', {at[et]['status'][1]!r})", r["file"], r["line"], disc=f"{name}:status-key")
    # ---- R1 on path data ------------------------------------------------------------------------------
    res = all_paths(ctx)
    infos = [p for p in path_infos(res) if p.message]
    seen: set = set()
    n_ev = 0
    for pi in infos:
        for e in pi.trace:
            if e.kind != "event":
                continue
            name = str(e.get("name"))
            r = rt.get(name)
            if r is None or r["etype"] not in at:
                continue
            a = at[r["etype"]]["status"]
            if a is None:
                continue
            n_ev += 1
            st = e.get("status")
            key = (pi.handler, name, e.site, tuple(sorted(st)) if len(st) < 12 else ("*",))
            if key in seen:
                continue
            seen.add(key)
            if a[0] == "const" and (pi.handler, name) in EVENT_STATUS_OK:
                rep.ok("C12.R1", f"{pi.handler}: {name}", "listed: " + EVENT_STATUS_OK[(pi.handler, name)], e.site[0], e.site[1])
            elif a[0] == "const":
                ok = st == frozenset({a[1]})
                rep.check(ok, "C12.R1", f"{pi.handler}: {name}", f"replay sets {a[1]!r}; the entity is {sorted(st) if len(st) < 12 else 'in any status'} when the event is recorded" + ("" if ok else " - replayed and stored status can differ"),
                          e.site[0], e.site[1], disc=f"{name}:{a[1]}:{','.join(sorted(st)) if len(st) < 12 else 'any'}")
            elif a[0] == "data":
                rep.ok("C12.R1", f"{pi.handler}: {name}", f"replay reads the recorded status name ({sorted(st) if len(st) < 6 else len(st)} possible)", e.site[0], e.site[1])
            else:
                rep.fail("C12.R1", f"{pi.handler}: {name}", f"apply case derives the status in an unrecognised way: {a[1]}", e.site[0], e.site[1], disc=f"{name}:unrecognised")
    rep.floor("recorder call events on handler paths", n_ev, 40)
    # every regular durable status change has an event on its path
    n_w = 0
    for pi in infos:
        if pi.outcome != "return" or pi.synthetic_after is not None or not pi.seq:
            continue
        events = [e for e in pi.trace if e.kind == "event"]
        if not pi.marks() and not events:
            continue        # error / re-queue branch: the step did not complete regularly
        for i, w in enumerate(pi.trace):
            if w.kind != "status_write" or w.get("okind") not in ("stage", "task", "workflow"):
                continue
            oid = str(w.get("oid"))
            # durable? stored by a later committed transaction (the object itself, or the stage whose task it is)
            stored = False
            for c in pi.seq:
                if c.index <= i:
                    continue
                for x in c.effects:
                    if x.kind in ("store_stage", "update_workflow_status") and (str(x.get("oid")) == oid or ("it:" + str(x.get("oid"))[:40]) in oid or oid.startswith(str(x.get("oid")) + ".")):
                        stored = True
            if not stored:
                continue
            if any(x.kind == "txn_rollback" for x in pi.trace[i + 1:]):
                continue        # the step did not complete regularly (a later transaction of the activation failed)
            # a later write to the same object supersedes this one
            if any(x.kind == "status_write" and str(x.get("oid")) == oid for x in pi.trace[i + 1:]):
                continue
            n_w += 1
            has = any(str(e.get("oid")) == oid for e in events if pi.trace.index(e) > i) if events else False
            to = w.get("to")
            tag = ",".join(sorted(to)) if len(to) <= 2 else "*"
            key = ("w", pi.handler, w.get("okind"), tag, has, w.site)
            if key in seen:
                continue
            seen.add(key)
            label = f"{pi.handler}: {w.get('okind')} -> {sorted(to) if len(to) <= 3 else 'status'} ({str(w.get('ctx')).split('>')[-1]})"
            if has:
                rep.ok("C12.R1", label, "an event for the entity is recorded on the path", w.site[0], w.site[1])
                continue
            reason = NO_EVENT_OK.get(pi.handler)
            if reason is None:
                pushed = sorted({str(x.get("cls")) for c in pi.seq for x in c.effects if x.kind == "push"})
                for t_ in to:
                    if len(to) == 1:
                        reason = NO_EVENT_SITES.get((pi.handler, t_)) or next((NO_EVENT_SITES[(pi.handler, t_, p_)] for p_ in pushed if (pi.handler, t_, p_) in NO_EVENT_SITES), None)
            if reason:
                rep.ok("C12.R1", label, "listed: " + reason, w.site[0], w.site[1])
            else:
                rep.fail("C12.R1", label, "the status change becomes durable but no event for that entity is recorded on the path: a replay keeps the previous status", w.site[0], w.site[1],
                         disc=f"noevent:{w.get('okind')}:{tag}:{str(w.get('ctx')).split('>')[-1]}")
    rep.floor("durable status writes examined", n_w, 25)
    # R5: an event recorded after (outside) the commit that released the follow-up message can be overtaken
    n_o = 0
    for pi in infos:
        if not pi.seq:
            continue
        for i, e in enumerate(pi.trace):
            if e.kind != "event":
                continue
            n_o += 1
            if e.get("in_txn"):
                continue
            released = [c for c in pi.seq if c.index < i and any(x.kind == "push" for x in c.effects)]
            key = ("order", pi.handler, e.get("name"), bool(released), e.site)
            if key in seen:
                continue
            seen.add(key)
            if released:
                pushed = sorted({str(x.get("cls")) for c in released for x in c.effects if x.kind == "push"})
                rep.fail("C12.R5", f"{pi.handler}: {e.get('name')} after the releasing commit", f"recorded outside the transaction, after the commit that pushed {pushed}: a second worker can handle those messages and record the entity's "
                         "completion before this event is appended - the log then ends with the earlier status (store SUCCEEDED, replay RUNNING)", e.site[0], e.site[1], disc=f"order:{e.get('name')}")
            else:
                rep.ok("C12.R5", f"{pi.handler}: {e.get('name')} outside a transaction", "no message was released before it on this path", e.site[0], e.site[1])
    rep.floor("recorder call events examined for log order", n_o, 40)

    # ---- R3 ----------------------------------------------------------------------------------------
    rbf = prog.func("stabilize.events.replay", "EventReplayer.rebuild_workflow_state")
    rb = rbf.node
    from ..cutmodel import analyse
    probs = analyse(rb)
    for desc, what in probs:
        rep.fail("C12.R3", f"as_of cut: {desc}", what, rbf.file, rb.lineno, disc=f"cut:{desc}:{what[:40]}")
    rep.check(not probs, "C12.R3", "as_of cut decided by case split", "as_of in {None, 0, positive} x snapshot store / snapshot found / snapshot.sequence <= as_of: events filtered by e.sequence <= as_of exactly when a cut is given (0 included), "
              "a snapshot is loaded only when not newer than the cut, events are read from the loaded snapshot's sequence (else 0), every selected event is applied", rbf.file, rb.lineno, disc="cut-model")
    q = [s for s in sqlshape.statements(prog) if s.func.qualname == "SqliteEventStoreMixin.get_events_for_workflow" and s.kind == "SELECT"]
    ok = bool(q) and any(w.replace(" ", "") == "sequence>?" for w in q[0].where) and q[0].order_by in ("sequence asc", "sequence") and any("workflow_id" in w for w in q[0].where)
    rep.check(ok, "C12.R3", "events are read strictly after the start sequence, ascending", f"where {q[0].where if q else None} order by {q[0].order_by if q else None}", q[0].file if q else "", q[0].line if q else 0, disc="query")

    # ---- R4 ----------------------------------------------------------------------------------------
    ws = prog.cls("stabilize.events.replay", "WorkflowState")
    td = ws.methods["to_dict"].node
    d = [n for n in ast.walk(td) if isinstance(n, ast.Dict)]
    emitted = {k.value for k in d[0].keys if isinstance(k, ast.Constant)} if d else set()
    ld = prog.func("stabilize.events.replay", "EventReplayer._load_state_from_snapshot").node
    call = [c for c in _calls(ld, "WorkflowState")]
    restored = {k.arg for k in call[0].keywords} if call else set()
    for k in sorted(emitted):
        rep.check(k in restored, "C12.R4", f"snapshot key {k} is restored", "restored by _load_state_from_snapshot" if k in restored else f"`{k}` is part of the state (and of every snapshot) but is dropped when a replay starts from a snapshot", "src/stabilize/events/replay.py", ld.lineno, disc=f"snapshot:{k}")
    rep.floor("state keys", len(emitted), 8)
