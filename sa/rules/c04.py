"""C04 - a stage starts exactly once even when workers race.

  R1  every path to planning passes through a committed claim (store_stage with expected_phase) first
  R2  the loser of the claim does nothing (no commit, no push) and returns
  R3  the claim UPDATEs are compare-and-swap on (id, version, status)
  R4  first-of / quorum joins are marked fired after the claim and before the plan commit; a fired join is never READY again
  R5  downstream triggered once: CompleteStage's RUNNING guard + mark/flip + version CAS (C02.R2, C07.R1) - cross-reference
"""
from __future__ import annotations

import ast

from .. import sqlshape
from ..model import AnalysisError, norm
from .c07 import cas_update_rule, token_integrity_rule
from .startstage_probe import start_if_ready_paths, timeline

PLANNING = ("_plan_stage", "_collect_start_messages", "_cancel_deferred_choice_siblings")


def run(ctx, rep) -> None:
    prog = ctx.prog
    rep.rule("C04.R1", "on every path of _start_if_ready a planning side effect (_plan_stage, _collect_start_messages, _cancel_deferred_choice_siblings, add_stage, any push of a start message) is preceded by a COMMITTED transaction containing store_stage(stage, expected_phase=E)")
    rep.rule("C04.R2", "a failed claim CAS (ConcurrencyError) ends the activation: no later commit, no push, normal return")
    rep.rule("C04.R3", "UPDATE stage_executions ... WHERE id AND version = :version AND status = :expected_phase, version bump, zero rows -> ConcurrencyError")
    rep.rule("C04.R4", "_join_fired = True is written after the claim commit and before the plan transaction for DISCRIMINATOR and N_OF_M; the evaluators return non-READY when it is set")
    rep.undecided += ["the statement-level interleavings themselves"]
    rep.assumptions += ["SQLite serialises writers: the conditional UPDATE of the claim is the linearisation point"]
    r = start_if_ready_paths(ctx)
    rep.count(start_if_ready_paths=len(r.paths))
    rep.floor("paths of _start_if_ready", len(r.paths), 100)
    n_plan = 0
    seen: set = set()
    n_loser = 0
    for p in r.paths:
        tl = timeline(p)
        claimed = False          # a committed txn with store_stage(expected)
        pending_claim: dict = {}
        for i, e in enumerate(tl):
            if e.kind == "store_stage" and e.get("expected") is not None and e.get("own"):
                pending_claim[e.get("tid")] = e
            elif e.kind == "txn_commit" and e.get("tid") in pending_claim:
                claimed = True
            elif e.kind == "txn_rollback":
                pending_claim.pop(e.get("tid"), None)
            side = None
            if e.kind == "call" and e.get("name") in PLANNING:
                side = e.get("name")
            elif e.kind == "auto" and e.get("api") in ("store.add_stage",):
                side = "add_stage"
            elif e.kind in ("push", "auto") and e.get("cls") in ("StartTask", "CompleteStage") or (e.kind in ("push",) and e.get("cls") == "StartStage" and e.get("stage_id") != "message.stage_id"):
                side = f"push:{e.get('cls')}"
            if side:
                n_plan += 1
                key = (side, e.site, claimed)
                if key in seen:
                    continue
                seen.add(key)
                rep.check(claimed, "C04.R1", f"{side} after the claim", "planning side effect reached without a committed claim CAS: two racing workers would both plan" if not claimed else "dominated by a committed claim",
                          e.site[0], e.site[1], disc=f"{side}")
        # R2: loser paths = rollback of a txn that attempted store_stage with expected... the compacted marker keeps the attempted kinds
        rb = [i for i, e in enumerate(tl) if e.kind == "txn_rollback" and "cas_fail" in (e.get("attempted") or ())]
        if rb and not claimed and p.outcome == "return":
            # first transaction of the activation failed at its CAS -> nothing else may follow
            later = [e for e in tl[rb[0] + 1:] if e.kind in ("txn_commit", "auto", "push")]
            # the _ClaimBlockedError branch legitimately re-queues / cancels: it is recognised by its status revert
            blocked = any(e.kind == "status_write" and e.get("to") == frozenset({"NOT_STARTED"}) for e in tl[rb[0]:])
            if not blocked:
                n_loser += 1
                key = ("loser", bool(later))
                if key not in seen:
                    seen.add(key)
                    rep.check(not later, "C04.R2", "claim loser does nothing", f"effects after losing the claim: {[(e.kind, e.get('cls') or e.get('api')) for e in later[:3]]}", tl[rb[0]].site[0], tl[rb[0]].site[1], disc="loser")
    rep.floor("planning side effects checked", n_plan, 50)
    rep.floor("claim-loser paths", n_loser, 1)
    # loser must not fall through to planning: in the source, except ConcurrencyError after the claim returns
    fi = prog.func("stabilize.handlers.start_stage.handler", "StartStageHandler._start_if_ready")
    tries = [t for t in ast.walk(fi.node) if isinstance(t, ast.Try) and any("expected_phase" in norm(s) for s in t.body)]
    if not tries:
        raise AnalysisError("claim try-block not found")
    hs = [h for h in tries[0].handlers if h.type is not None and "ConcurrencyError" in norm(h.type)]
    rep.check(bool(hs) and isinstance(hs[0].body[-1], ast.Return), "C04.R2", "except ConcurrencyError after the claim returns", "no fall-through to planning", fi.file, hs[0].lineno if hs else tries[0].lineno, disc="return")

    # ---- R3 -------------------------------------------------------------------------------------
    stmts = [s for s in sqlshape.statements(prog) if s.table == "stage_executions" and s.kind == "UPDATE" and (any("expected_phase" in w for w in s.where) or "expected_phase" in s.params)]
    if rep.tier != "thorough":
        stmts = [s for s in stmts if sqlshape.is_sqlite(s)]
    for s in stmts:
        cas_update_rule(rep, "C04.R3", s, "stage", prog)
        ok = any(w.replace(" ", "") in ("status=:expected_phase", "status=%(expected_phase)s") for w in s.where)
        bound = s.params.get("expected_phase") == "expected_phase"
        rep.check(ok and bound, "C04.R3", f"{s.func.qualname} phase conjunct", f"AND status = :expected_phase bound to the argument (where {s.where})", s.file, s.line, disc=f"{s.func.qualname}:phase")
    rep.floor("expected_phase UPDATE statements", len([s for s in stmts if sqlshape.is_sqlite(s)]), 2)
    # store_stage selects the phase-aware statement exactly when expected_phase is given
    for qual, mod in (("AtomicTransaction.store_stage", "stabilize.persistence.sqlite.transaction"), ("SqliteStageOpsMixin.store_stage", "stabilize.persistence.sqlite.store.stage_ops")):
        f = prog.func(mod, qual)
        # either spelling: `if expected_phase is not None: <phase UPDATE>` or `if expected_phase is None: ... else: <phase UPDATE>`
        sel = [n for n in ast.walk(f.node) if isinstance(n, ast.If) and (
            (norm(n.test) == "expected_phase is not None" and any("expected_phase" in norm(x) and "UPDATE" in norm(x) for x in n.body)) or
            (norm(n.test) == "expected_phase is None" and any("expected_phase" in norm(x) and "UPDATE" in norm(x) for x in n.orelse) and not any("expected_phase" in norm(x) and "UPDATE" in norm(x) for x in n.body)))]
        rep.check(bool(sel), "C04.R3", f"{qual} uses the phase CAS when expected_phase is given", "if expected_phase is not None: UPDATE ... AND status = :expected_phase", f.file, sel[0].lineno if sel else f.node.lineno, disc=f"{qual}:select")

    rep.rule("C04.R3b", "the version token is advanced only by the persistence layer and read before the rows it protects (the zombie test `no tasks` must be at least as new as the version it is paired with)")
    token_integrity_rule(ctx, rep, "C04.R3b")

    # ---- R4 -------------------------------------------------------------------------------------
    n_fired = 0
    order_ok = True
    bad_site = None
    for p in r.paths:
        tl = timeline(p)
        commits = [i for i, e in enumerate(tl) if e.kind == "txn_commit"]
        for i, e in enumerate(tl):
            if e.kind == "ctx" and e.get("key") == "_join_fired" and e.get("op") == "write":
                n_fired += 1
                claim_before = any(c < i for c in commits) and any(x.kind == "store_stage" and x.get("expected") is not None for x in tl[:i])
                plan_after = [x for x in tl[i + 1:] if x.kind == "store_stage" and x.get("expected") is None]
                early_plan = [x for x in tl[:i] if x.kind == "store_stage" and x.get("expected") is None]
                if not claim_before or early_plan:
                    order_ok = False
                    bad_site = e.site
    rep.check(order_ok and n_fired > 0, "C04.R4", "_join_fired set after the claim, before the plan commit", f"{n_fired} writes on paths" if order_ok else "flag written before the claim commit or after the plan store", (bad_site or ("src/stabilize/handlers/start_stage/handler.py", 0))[0], (bad_site or ("", 0))[1], disc="order")
    for jt in ("DISCRIMINATOR", "N_OF_M"):
        ifs = [n for n in ast.walk(fi.node) if isinstance(n, ast.If) and norm(n.test) == f"stage.join_type == JoinType.{jt}" and any('stage.context["_join_fired"] = True' in norm(s).replace("'", '"') for s in n.body)]
        rep.check(bool(ifs), "C04.R4", f"{jt} join is marked fired", f"if stage.join_type == JoinType.{jt}: stage.context['_join_fired'] = True", fi.file, ifs[0].lineno if ifs else fi.node.lineno, disc=f"fired:{jt}")
    rd = prog.module("stabilize.dag.readiness")
    for fn in ("_evaluate_discriminator", "_evaluate_n_of_m"):
        f = rd.functions.get(fn)
        if f is None:
            raise AnalysisError(f"{fn} not found")
        var = None
        for n in ast.walk(f.node):
            if isinstance(n, ast.Assign) and '_join_fired' in norm(n.value) and isinstance(n.targets[0], ast.Name):
                var = n.targets[0].id
        branch = [n for n in f.node.body if isinstance(n, ast.If) and var and norm(n.test) == var]
        ok = False
        if branch:
            rets = [x for x in ast.walk(branch[0]) if isinstance(x, ast.Return)]
            all_not_ready = bool(rets) and all("PredicatePhase.READY" not in norm(x.value) for x in rets)
            # every path through the branch returns
            def returns(stmts):
                if not stmts:
                    return False
                last = stmts[-1]
                if isinstance(last, ast.Return):
                    return True
                if isinstance(last, ast.If) and last.orelse:
                    return returns(last.body) and returns(last.orelse)
                return False
            ok = all_not_ready and returns(branch[0].body)
            # and the check precedes every READY return of the function
            ready = [x.lineno for x in ast.walk(f.node) if isinstance(x, ast.Return) and "PredicatePhase.READY" in norm(x.value)]
            ok = ok and all(branch[0].lineno < l for l in ready)
        rep.check(ok, "C04.R4", f"{fn}: a fired join is never READY", "if join_fired: return NOT_READY on every path, before any READY return", f.file, branch[0].lineno if branch else f.node.lineno, disc=f"{fn}:fired")
