"""C04 - a stage starts exactly once even when workers race.

  R1  every path to planning passes through a committed claim (store_stage with expected_phase) first
  R2  the loser of the claim does nothing (no commit, no push) and returns
  R3  the claim UPDATEs are compare-and-swap on (id, version, status)
  R4  first-of / quorum joins are marked fired after the claim and before the plan commit; a fired join is never READY again
  R5  downstream triggered once: CompleteStage's RUNNING guard + mark/flip + version CAS (C02.R2, C07.R1) - cross-reference
"""
from __future__ import annotations

import ast

from .. import sqlshape
from ..model import AnalysisError, norm
from .c07 import cas_update_rule, token_integrity_rule
from .startstage_probe import start_if_ready_paths, timeline

PLANNING = ("_plan_stage", "_collect_start_messages", "_cancel_deferred_choice_siblings")


def run(ctx, rep) -> None:
    prog = ctx.prog
    rep.rule("C04.R1", "on every path of _start_if_ready a planning side effect (_plan_stage, _collect_start_messages, _cancel_deferred_choice_siblings, add_stage, any push of a start message) is preceded by a COMMITTED transaction containing store_stage(stage, expected_phase=E)")
    rep.rule("C04.R2", "a failed claim CAS (ConcurrencyError) ends the activation: no later commit, no push, normal return")
    rep.rule("C04.R3", "UPDATE stage_executions ... WHERE id AND version = :version AND status = :expected_phase, version bump, zero rows -> ConcurrencyError")
    rep.rule("C04.R4", "_join_fired = True is written after the claim commit and before the plan transaction for DISCRIMINATOR and N_OF_M; the evaluators return non-READY when it is set")
    rep.undecided += ["the statement-level interleavings themselves"]
    rep.assumptions += ["SQLite serialises writers: the conditional UPDATE of the claim is the linearisation point"]
    r = start_if_ready_paths(ctx)
    rep.count(start_if_ready_paths=len(r.paths))
    rep.floor("paths of _start_if_ready", len(r.paths), 100)
    n_plan = 0
    seen: set = set()
    n_loser = 0
    for p in r.paths:
        tl = timeline(p)
        claimed = False          # a committed txn with store_stage(expected)
        pending_claim: dict = {}
        for i, e in enumerate(tl):
            if e.kind == "store_stage" and e.get("expected") is not None and e.get("own"):
                pending_claim[e.get("tid")] = e
            elif e.kind == "txn_commit" and e.get("tid") in pending_claim:
                claimed = True
            elif e.kind == "txn_rollback":
                pending_claim.pop(e.get("tid"), None)
            side = None
            if e.kind == "call" and e.get("name") in PLANNING:
                side = e.get("name")
            elif e.kind == "auto" and e.get("api") in ("store.add_stage",):
                side = "add_stage"
            elif e.kind in ("push", "auto") and e.get("cls") in ("StartTask", "CompleteStage") or (e.kind in ("push",) and e.get("cls") == "StartStage" and e.get("stage_id") != "message.stage_id"):
                side = f"push:{e.get('cls')}"
            if side:
                n_plan += 1
                key = (side, e.site, claimed)
                if key in seen:
                    continue
                seen.add(key)
                rep.check(claimed, "C04.R1", f"{side} after the claim", "planning side effect reached without a committed claim CAS: two racing workers would both plan" if not claimed else "dominated by a committed claim",
                          e.site[0], e.site[1], disc=f"{side}")
        # R2: loser paths = rollback of a txn that attempted store_stage with expected... the compacted marker keeps the attempted kinds
        rb = [i for i, e in enumerate(tl) if e.kind == "txn_rollback" and "cas_fail" in (e.get("attempted") or ())]
        if rb and not claimed and p.outcome == "return":
            # first transaction of the activation failed at its CAS -> nothing else may follow
            later = [e for e in tl[rb[0] + 1:] if e.kind in ("txn_commit", "auto", "push")]
            # the _ClaimBlockedError branch legitimately re-queues / cancels: it is recognised by its status revert
            blocked = any(e.kind == "status_write" and e.get("to") == frozenset({"NOT_STARTED"}) for e in tl[rb[0]:])
            if not blocked:
                n_loser += 1
                key = ("loser", bool(later))
                if key not in seen:
                    seen.add(key)
                    rep.check(not later, "C04.R2", "claim loser does nothing", f"effects after losing the claim: {[(e.kind, e.get('cls') or e.get('api')) for e in later[:3]]}", tl[rb[0]].site[0], tl[rb[0]].site[1], disc="loser")
    rep.floor("planning side effects checked", n_plan, 50)
    rep.floor("claim-loser paths", n_loser, 1)
    # loser must not fall through to planning: in the source, except ConcurrencyError after the claim returns
    fi = prog.func("stabilize.handlers.start_stage.handler", "StartStageHandler._start_if_ready")
    tries = [t for t in ast.walk(fi.node) if isinstance(t, ast.Try) and any("expected_phase" in norm(s) for s in t.body)]
    if not tries:
        raise AnalysisError("claim try-block not found")
    hs = [h for h in tries[0].handlers if h.type is not None and "ConcurrencyError" in norm(h.type)]
    rep.check(bool(hs) and isinstance(hs[0].body[-1], ast.Return), "C04.R2", "except ConcurrencyError after the claim returns", "no fall-through to planning", fi.file, hs[0].lineno if hs else tries[0].lineno, disc="return")

    # ---- R3 -------------------------------------------------------------------------------------
    stmts = [s for s in sqlshape.statements(prog) if s.table == "stage_executions" and s.kind == "UPDATE" and (any("expected_phase" in w for w in s.where) or "expected_phase" in s.params)]
    if rep.tier != "thorough":
        stmts = [s for s in stmts if sqlshape.is_sqlite(s)]
    for s in stmts:
        cas_update_rule(rep, "C04.R3", s, "stage", prog)
        ok = any(w.replace(" ", "") in ("status=:expected_phase", "status=%(expected_phase)s") for w in s.where)
        bound = s.params.get("expected_phase") == "expected_phase"
        rep.check(ok and bound, "C04.R3", f"{s.func.qualname} phase conjunct", f"AND status = :expected_phase bound to the argument (where {s.where})", s.file, s.line, disc=f"{s.func.qualname}:phase")
    rep.floor("expected_phase UPDATE statements", len([s for s in stmts if sqlshape.is_sqlite(s)]), 2)
    # store_stage selects the phase-aware statement exactly when expected_phase is given
    for qual, mod in (("AtomicTransaction.store_stage", "stabilize.persistence.sqlite.transaction"), ("SqliteStageOpsMixin.store_stage", "stabilize.persistence.sqlite.store.stage_ops")):
        f = prog.func(mod, qual)
        # either spelling: `if expected_phase is not None: <phase UPDATE>` or `if expected_phase is None: ... else: <phase UPDATE>`
        sel = [n for n in ast.walk(f.node) if isinstance(n, ast.If) and (
            (norm(n.test) == "expected_phase is not None" and any("expected_phase" in norm(x) and "UPDATE" in norm(x) for x in n.body)) or
            (norm(n.test) == "expected_phase is None" and any("expected_phase" in norm(x) and "UPDATE" in norm(x) for x in n.orelse) and not any("expected_phase" in norm(x) and "UPDATE" in norm(x) for x in n.body)))]
        rep.check(bool(sel), "C04.R3", f"{qual} uses the phase CAS when expected_phase is given", "if expected_phase is not None: UPDATE ... AND status = :expected_phase", f.file, sel[0].lineno if sel else f.node.lineno, disc=f"{qual}:select")

    rep.rule("C04.R3b", "the version token is advanced only by the persistence layer and read before the rows it protects (the zombie test `no tasks` must be at least as new as the version it is paired with)")
    token_integrity_rule(ctx, rep, "C04.R3b")

    # ---- R4 -------------------------------------------------------------------------------------
    n_fired = 0
    order_ok = True
    bad_site = None
    for p in r.paths:
        tl = timeline(p)
        commits = [i for i, e in enumerate(tl) if e.kind == "txn_commit"]
        for i, e in enumerate(tl):
            if e.kind == "ctx" and e.get("key") == "_join_fired" and e.get("op") == "write":
                n_fired += 1
                claim_before = any(c < i for c in commits) and any(x.kind == "store_stage" and x.get("expected") is not None for x in tl[:i])
                plan_after = [x for x in tl[i + 1:] if x.kind == "store_stage" and x.get("expected") is None]
                early_plan = [x for x in tl[:i] if x.kind == "store_stage" and x.get("expected") is None]
                if not claim_before or early_plan:
                    order_ok = False
                    bad_site = e.site
    rep.check(order_ok and n_fired > 0, "C04.R4", "_join_fired set after the claim, before the plan commit", f"{n_fired} writes on paths" if order_ok else "flag written before the claim commit or after the plan store", (bad_site or ("src/stabilize/handlers/start_stage/handler.py", 0))[0], (bad_site or ("", 0))[1], disc="order")
    for jt in ("DISCRIMINATOR", "N_OF_M"):
        ifs = [n for n in ast.walk(fi.node) if isinstance(n, ast.If) and norm(n.test) == f"stage.join_type == JoinType.{jt}" and any('stage.context["_join_fired"] = True' in norm(s).replace("'", '"') for s in n.body)]
        rep.check(bool(ifs), "C04.R4", f"{jt} join is marked fired", f"if stage.join_type == JoinType.{jt}: stage.context['_join_fired'] = True", fi.file, ifs[0].lineno if ifs else fi.node.lineno, disc=f"fired:{jt}")
    rd = prog.module("stabilize.dag.readiness")
    for fn in ("_evaluate_discriminator", "_evaluate_n_of_m"):
        f = rd.functions.get(fn)
        if f is None:
            raise AnalysisError(f"{fn} not found")
        var = None
        for n in ast.walk(f.node):
            if isinstance(n, ast.Assign) and '_join_fired' in norm(n.value) and isinstance(n.targets[0], ast.Name):
                var = n.targets[0].id
        branch = [n for n in f.node.body if isinstance(n, ast.If) and var and norm(n.test) == var]
        ok = False
        if branch:
            rets = [x for x in ast.walk(branch[0]) if isinstance(x, ast.Return)]
            all_not_ready = bool(rets) and all("PredicatePhase.READY" not in norm(x.value) for x in rets)
            # every path through the branch returns
            def returns(stmts):
                if not stmts:
                    return False
                last = stmts[-1]
                if isinstance(last, ast.Return):
                    return True
                if isinstance(last, ast.If) and last.orelse:
                    return returns(last.body) and returns(last.orelse)
                return False
            ok = all_not_ready and returns(branch[0].body)
            # and the check precedes every READY return of the function
            ready = [x.lineno for x in ast.walk(f.node) if isinstance(x, ast.Return) and "PredicatePhase.READY" in norm(x.value)]
            ok = ok and all(branch[0].lineno < l for l in ready)
        rep.check(ok, "C04.R4", f"{fn}: a fired join is never READY", "if join_fired: return NOT_READY on every path, before any READY return", f.file, branch[0].lineno if branch else f.node.lineno, disc=f"{fn}:fired")

    # ---- R5: every finishing upstream triggers the join -----------------------------------------------------------------------------
    # "Exactly once" also forbids ZERO starts. The arbitration between simultaneous upstreams is the downstream's own claim: every
    # upstream that finishes pushes StartStage for every activated downstream, and the claim CAS lets one through. If an upstream
    # decides, from a read of the join's OTHER upstreams taken before its own commit, that "the sibling will trigger it", two
    # upstreams finishing together each see the other still RUNNING and nobody pushes.
    rep.rule("C04.R5", "CompleteStage pushes StartStage for every activated downstream: the collection the pushing loop iterates over comes from the split logic / the downstream query only and is never narrowed by a function that reads the join's other upstreams")
    READS_OTHERS = ("get_upstream_stages", "evaluate_readiness", "upstream_stages", "all_upstream_stages_complete")
    cls = prog.cls("stabilize.handlers.complete_stage.handler", "CompleteStageHandler")
    methods = {}
    for c_ in [cls] + [prog.cls(b.module.name, b.name) for b in getattr(cls, "bases_resolved", [])]:
        methods.update(c_.methods)
    for m_ in prog.modules.values():
        if m_.name.startswith("stabilize.handlers.complete_stage"):
            for c_ in m_.classes.values():
                for k_, v_ in c_.methods.items():
                    methods.setdefault(k_, v_)
    n5 = 0
    seen_loops: set = set()
    for mi in cls.methods.values():
        fns_ = [x for x in ast.walk(mi.node) if isinstance(x, (ast.FunctionDef, ast.AsyncFunctionDef))]
        for fn in sorted(fns_, key=lambda x: (x.end_lineno or x.lineno) - x.lineno):      # innermost first: a loop belongs to the innermost function
            for loop in [x for x in ast.walk(fn) if isinstance(x, ast.For) and isinstance(x.target, ast.Name)]:
                if id(loop) in seen_loops:
                    continue
                seen_loops.add(id(loop))
                ctors = [c for c in ast.walk(loop) if isinstance(c, ast.Call) and isinstance(c.func, ast.Name) and c.func.id == "StartStage"
                         and any(k.arg == "stage_id" and norm(k.value) == f"{loop.target.id}.id" for k in c.keywords)]
                if not ctors:
                    continue
                it = loop.iter
                chain = [norm(it)]
                narrowed = None
                for _ in range(4):
                    if isinstance(it, ast.Name):
                        pos = getattr(loop, "_ord", loop.lineno)
                        defs = [a for a in ast.walk(fn) if isinstance(a, ast.Assign) and getattr(a, "_ord", a.lineno) < pos and any(
                            (isinstance(t, ast.Name) and t.id == it.id) or (isinstance(t, ast.Tuple) and any(isinstance(e_, ast.Name) and e_.id == it.id for e_ in t.elts)) for t in a.targets)]
                        if not defs:
                            break
                        it = max(defs, key=lambda a: getattr(a, "_ord", a.lineno)).value
                        chain.append(norm(it)[:70])
                        continue
                    if isinstance(it, ast.Call) and isinstance(it.func, ast.Attribute) and norm(it.func.value) == "self" and it.func.attr in methods:
                        body = methods[it.func.attr].node
                        hits = sorted({c.func.attr for c in ast.walk(body) if isinstance(c, ast.Call) and isinstance(c.func, ast.Attribute) and c.func.attr in READS_OTHERS} |
                                      {c.func.id for c in ast.walk(body) if isinstance(c, ast.Call) and isinstance(c.func, ast.Name) and c.func.id in READS_OTHERS})
                        if hits:
                            narrowed = (it.func.attr, hits)
                            break
                        # follow the first argument that is a collection being filtered
                        nxt = next((a for a in it.args if isinstance(a, ast.Name)), None)
                        if nxt is None:
                            break
                        it = nxt
                        chain.append(norm(it))
                        continue
                    if isinstance(it, (ast.ListComp, ast.GeneratorExp)) and len(it.generators) == 1:
                        g = it.generators[0]
                        if any(isinstance(c, ast.Call) and ((isinstance(c.func, ast.Attribute) and c.func.attr in READS_OTHERS) or (isinstance(c.func, ast.Name) and c.func.id in READS_OTHERS)) for i_ in g.ifs for c in ast.walk(i_)):
                            narrowed = ("comprehension filter", ["reads the other upstreams"])
                            break
                        it = g.iter
                        chain.append(norm(it)[:70])
                        continue
                    break
                n5 += 1
                rep.check(narrowed is None, "C04.R5", f"{mi.qualname}: StartStage for every {chain[0]}", " <- ".join(chain) if narrowed is None else
                          f"`{chain[0]}` is narrowed by {narrowed[0]} ({', '.join(narrowed[1])}): an upstream withholds the trigger because, in a read taken BEFORE its own commit, another upstream of the join was still active - "
                          "two upstreams finishing together each leave it to the other and the join is never started", mi.file, loop.lineno, disc=f"trigger-all:{fn.name}:{loop.target.id}")
    rep.floor("StartStage pushing loops in CompleteStage", n5, 2)

    # ---- R6: the zombie re-claim cannot be taken while the original claimer is alive ---------------------------------------------------
    # A RUNNING stage without tasks and synthetic children is re-planned ("zombie": the claimer died before planning). The same
    # state is what a LIVE claimer leaves between its claim commit and its plan commit. A second StartStage read in that window
    # re-claims RUNNING -> RUNNING (the CAS succeeds: only the version moved), plans too, and the original claimer plans as well;
    # planning side effects that commit on their own (add_stage of builder-declared before-stages) are then duplicated.
    rep.rule("C04.R6", "the zombie branch of _start_if_ready (re-plan a RUNNING stage) requires evidence that the first claimer is gone (age / lease / owner of the claim), not only the absence of tasks and synthetic stages")
    sir = prog.func("stabilize.handlers.start_stage.handler", "StartStageHandler._start_if_ready").node
    from ..dom import raw_conditions_at as _rca6
    zomb = [a for a in ast.walk(sir) if isinstance(a, ast.Assign) and norm(a.targets[0]) == "claim_expected_phase" and isinstance(a.value, ast.Constant) and a.value.value == "RUNNING"]
    if not zomb:
        zomb = [k for k in ast.walk(sir) if isinstance(k, ast.keyword) and k.arg == "expected_phase" and isinstance(k.value, ast.Constant) and k.value.value == "RUNNING"]
    if not zomb:
        raise AnalysisError("_start_if_ready: the zombie (expected_phase RUNNING) claim was not found")
    EVID = ("time", "age", "lease", "expire", "owner", "claimed_by", "heartbeat", "deadline")
    # the "already RUNNING: ignore" returns; what separates them from the zombie fall-through are their non-status conditions
    from ..dom import expand_locals as _xl6
    from ..dom import conditions_at as _ca6
    ignores = [r for r in ast.walk(sir) if isinstance(r, ast.Return) and r.value is None and ("stage.status == WorkflowStatus.RUNNING", True) in _ca6(sir, r)]
    if not ignores:
        raise AnalysisError("_start_if_ready: no 'already RUNNING - ignore' return found")
    tests = []
    for r in ignores:
        for t, tr in _rca6(sir, r):
            if "stage.status" in norm(t):
                continue
            tests.append(norm(_xl6(t, sir, 2)))
    tests = sorted(set(tests))
    import re as _re6
    has_evidence = any(set(_re6.findall(r"[a-z]+", t.lower())) & {"time", "age", "lease", "expired", "expiry", "owner", "heartbeat", "deadline", "claimed", "elapsed", "stale"} for t in tests)
    rep.check(has_evidence, "C04.R6", "zombie re-plan only with evidence that the first claimer is gone", "the RUNNING branch consults a time / lease / owner" if has_evidence else
              f"the RUNNING branch decides on {tests[:3]} only: a StartStage read between the first claimer's claim commit and its plan commit sees the same state, re-claims RUNNING -> RUNNING and plans as well - "
              "with a builder that declares before-stages two sets of synthetic stages are stored, one orphaned, and the stage's own task never runs", "src/stabilize/handlers/start_stage/handler.py", zomb[0].value.lineno if hasattr(zomb[0], "value") else sir.lineno, disc="zombie-live-claimer")
