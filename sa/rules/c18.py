"""C18 - persistent signals are never lost; a suspended stage resumes once per signal.

  R1  SignalStage three-way split: SUSPENDED -> resume in one commit; persistent -> buffered in the stage context in one commit; transient -> only marked
  R2  on suspend, a buffered signal is consumed exactly once: removed from the buffer, delivered, statuses RUNNING, RunTask pushed - one commit; otherwise the stage is stored SUSPENDED
  R3  both sides write the stage through the version CAS on a stage read inside the retried closure
  R4  the mailbox survives: only SignalStage appends and only _handle_suspended removes; planning copies the context; re-arm does not clear it
"""
from __future__ import annotations

import ast

from ..keyscan import key_sites
from ..model import AnalysisError, norm
from ..paths import Config, all_paths, probe
from ..seqrules import atoms, shape
from ..seq import commit_seq

CFG = Config(ctx_keys=frozenset({"_buffered_signals", "_signal_name", "_signal_data"}), guards=frozenset({"message.persistent"}), muted=frozenset({"except"}))


def run(ctx, rep) -> None:
    prog = ctx.prog
    rep.rule("C18.R1", "SignalStage: status SUSPENDED => TXN{store(stage RUNNING, _signal_* set), mark, push RunTask|StartStage}; else persistent => TXN{store(_buffered_signals written), mark}; else TXN{mark} without a store")
    rep.rule("C18.R2", "_handle_suspended: buffered => pop first + write back + _signal_* + statuses RUNNING + push RunTask in ONE transaction with the mark; else TXN{store SUSPENDED, mark} and no push")
    rep.rule("C18.R3", "every store of the mailbox / SUSPENDED state goes through txn.store_stage on a stage read inside the retried closure")
    rep.rule("C18.R4", "writers of _buffered_signals: SignalStageHandler (append) and _handle_suspended (pop + write back) only; reset_stage_for_retry does not remove it; _plan_stage copies own-context keys")
    rep.undecided += ["the interleavings and crash points themselves (argument: CAS + retry on fresh data closes the lost-signal window)"]
    mod = "stabilize.handlers.signal_stage"
    sig = probe(ctx, "SignalStageHandler.handle", mod, "SignalStageHandler.handle", {"message": ("message", "SignalStage")}, CFG, self_cls=(mod, "SignalStageHandler"))
    seen: set = set()
    classes = {"resume": 0, "buffer": 0, "drop": 0}
    for p in sig.paths:
        if p.outcome != "return":
            continue
        seq = commit_seq(p.trace)
        if not seq:
            continue
        a = atoms(seq[-1])
        if any("Invalid" in x for x in a):
            continue
        persistent = None
        for e in p.trace:
            if e.kind == "guard" and "persistent" in str(e.get("text")):
                persistent = e.get("truth")
        writes = [e for e in p.trace if e.kind == "status_write" and e.get("okind") == "stage"]
        ctxw = [e for e in p.trace if e.kind == "ctx" and e.get("op") == "write"]
        stores = [e for c in seq for e in c.effects if e.kind == "store_stage"]
        pushes = [e for c in seq for e in c.effects if e.kind == "push"]
        cs = shape(seq)
        key = (cs, persistent, bool(writes))
        if key in seen:
            continue
        seen.add(key)
        site = seq[-1].site
        if writes:      # SUSPENDED branch
            classes["resume"] += 1
            ok = len(seq) == 1 and writes[0].get("frm") == frozenset({"SUSPENDED"}) and writes[0].get("to") == frozenset({"RUNNING"}) and "mark" in a and bool(stores) \
                and bool(pushes) and all(e.get("cls") in ("RunTask", "StartStage") for e in pushes) and {"_signal_name", "_signal_data"} <= {e.get("key") for e in ctxw}
            rep.check(ok, "C18.R1", f"signal to a SUSPENDED stage: {cs}", "SUSPENDED->RUNNING, signal payload written, mark and continuation in one commit", site[0], site[1], disc=f"resume:{cs}")
        elif persistent is True:
            classes["buffer"] += 1
            ok = len(seq) == 1 and "mark" in a and bool(stores) and any(e.get("key") == "_buffered_signals" for e in ctxw) and not pushes
            rep.check(ok, "C18.R1", f"persistent signal to a non-suspended stage: {cs}", "buffered in the stage context and stored with the mark", site[0], site[1], disc=f"buffer:{cs}")
        elif persistent is False:
            classes["drop"] += 1
            ok = len(seq) == 1 and a == ("mark",) and not stores
            rep.check(ok, "C18.R1", f"transient signal to a non-suspended stage: {cs}", "consumed without any effect", site[0], site[1], disc=f"drop:{cs}")
        else:
            rep.fail("C18.R1", f"SignalStage path {cs}", "path does not decide message.persistent and does not resume: unclassified", site[0], site[1], disc=f"unclassified:{cs}")
    for k, v in classes.items():
        rep.check(v > 0, "C18.R1", f"SignalStage has a {k} branch", f"{v} path class(es)", "src/stabilize/handlers/signal_stage.py", 0, disc=f"class:{k}")
    # the buffered entry carries name and data
    fn = prog.func(mod, "SignalStageHandler._handle_with_retry.on_stage").node
    app = [c for c in ast.walk(fn) if isinstance(c, ast.Call) and norm(c.func) == "buffered.append"]
    ok = bool(app) and "message.signal_name" in norm(app[0]) and "message.signal_data" in norm(app[0])
    rep.check(ok, "C18.R1", "the buffered entry holds the signal name and data", norm(app[0])[:100] if app else "", "src/stabilize/handlers/signal_stage.py", app[0].lineno if app else fn.lineno, disc="entry")

    # ---- R2 --------------------------------------------------------------------------------------
    hs = probe(ctx, "_handle_suspended", "stabilize.handlers.run_task.result", "_handle_suspended", {"message": ("message", "RunTask")}, CFG)
    n_b = n_s = 0
    for p in hs.paths:
        if p.outcome != "return":
            continue
        seq = commit_seq(p.trace)
        ctxw = [e for e in p.trace if e.kind == "ctx" and e.get("op") == "write"]
        sw = [e for e in p.trace if e.kind == "status_write"]
        if not seq:
            continue
        a = atoms(seq[-1])
        cs = shape(seq)
        if not sw:
            continue        # guard branch (task/stage left RUNNING meanwhile): only marks
        consumed = any(e.get("key") == "_buffered_signals" for e in ctxw)
        final_stage = [e for c in seq for e in c.effects if e.kind == "store_stage"]
        key = ("hs", cs, consumed)
        if key in seen:
            continue
        seen.add(key)
        site = seq[-1].site
        if consumed:
            n_b += 1
            ok = len(seq) == 1 and "mark" in a and "push:RunTask" in a and final_stage and final_stage[-1].get("status") == frozenset({"RUNNING"}) and {"_signal_name", "_signal_data"} <= {e.get("key") for e in ctxw}
            rep.check(bool(ok), "C18.R2", f"suspend with a buffered signal: {cs}", "buffer written back, payload delivered, RUNNING stored, RunTask pushed, mark - one commit", site[0], site[1], disc=f"consume:{cs}")
        else:
            n_s += 1
            ok = len(seq) == 1 and "mark" in a and not any(x.startswith("push:") for x in a) and final_stage and final_stage[-1].get("status") == frozenset({"SUSPENDED"})
            rep.check(bool(ok), "C18.R2", f"suspend without a buffered signal: {cs}", "SUSPENDED stored durably with the mark, nothing pushed", site[0], site[1], disc=f"suspend:{cs}")
    rep.check(n_b > 0 and n_s > 0, "C18.R2", "both suspend branches exist", f"consume paths={n_b}, suspend paths={n_s}", "src/stabilize/handlers/run_task/result.py", 0, disc="both")
    hn = prog.func("stabilize.handlers.run_task.result", "_handle_suspended").node
    t = norm(hn)
    pop = [n for n in ast.walk(hn) if isinstance(n, ast.Assign) and norm(n.value) == "buffered.pop(0)"]
    wb = [n for n in ast.walk(hn) if isinstance(n, ast.Assign) and norm(n.targets[0]).replace("'", '"') == 'stage.context["_buffered_signals"]' and norm(n.value) == "buffered"]
    rep.check(len(pop) == 1 and len(wb) == 1 and pop[0].lineno < wb[0].lineno, "C18.R2", "exactly one buffered signal is removed and the rest written back", "signal = buffered.pop(0); stage.context['_buffered_signals'] = buffered", "src/stabilize/handlers/run_task/result.py", pop[0].lineno if pop else hn.lineno, disc="pop-one")

    # ---- R3 --------------------------------------------------------------------------------------
    res = all_paths(ctx)
    n3 = 0
    for name in ("SignalStageHandler", "RunTaskHandler"):
        for p in res[name].paths:
            for e in p.trace:
                if e.kind == "store_stage" and e.get("own"):
                    parts = str(e.get("ctx")).split(">")
                    idx = [i for i, q in enumerate(parts) if q.split(".")[-1] == "retry_on_concurrency_error"]
                    fresh = str(e.get("fresh_ctx") or "")
                    key = ("r3", name, e.site, bool(idx), fresh)
                    if key in seen:
                        continue
                    seen.add(key)
                    n3 += 1
                    ok = bool(idx) and fresh.split(">")[: idx[-1] + 1] == parts[: idx[-1] + 1]
                    rep.check(ok, "C18.R3", f"{name}: store at {parts[-1]}", "stored stage was read inside the retried closure" if ok else f"stage read at [{fresh}] is stored from [{'>'.join(parts)}]: a lost CAS would re-apply stale state",
                              e.site[0], e.site[1], disc=f"{name}:{parts[-1]}")
    rep.floor("transactional stores of the own stage in SignalStage / RunTask", n3, 4)
    # deliver-or-buffer is decided on the status of the very copy that is written (shared rule, sa/rules/c07.py)
    from .c07 import decision_read_rule
    nd = decision_read_rule(ctx, rep, "C18.R3", ("stabilize.handlers.signal_stage", "stabilize.handlers.run_task"))
    if not nd:
        rep.ok("C18.R3", "no signal / suspend write on a re-read copy", "no stage variable is re-read between its status test and its store in signal_stage / run_task", "src/stabilize/handlers/signal_stage.py", 0)

    # ---- R4 --------------------------------------------------------------------------------------
    sites = key_sites(prog, "_buffered_signals")
    allowed = {"SignalStageHandler._handle_with_retry.on_stage": {"read", "write"}, "_handle_suspended": {"read", "write"}}
    for s in sites:
        ok = s["qual"] in allowed and s["op"] in allowed[s["qual"]]
        rep.check(ok, "C18.R4", f"_buffered_signals {s['op']} in {s['qual']}", "only SignalStage appends and only _handle_suspended consumes the mailbox", s["file"], s["line"], disc=f"{s['qual']}:{s['op']}")
    rep.floor("sites touching _buffered_signals", len(sites), 4)
    rs = prog.func("stabilize.handlers.jump_to_stage.reset", "reset_stage_for_retry").node
    rep.check("stage.context = " not in norm(rs) and "stage.context.clear()" not in norm(rs), "C18.R4", "re-arm keeps the stage context", "reset_stage_for_retry pops listed keys only", "src/stabilize/handlers/jump_to_stage/reset.py", rs.lineno, disc="rearm")
    pl = prog.func("stabilize.handlers.start_stage.planner", "StartStagePlannerMixin._plan_stage").node
    loop = [n for n in ast.walk(pl) if isinstance(n, ast.For) and norm(n.iter) == "stage.context.items()"]
    ok = bool(loop) and any(isinstance(x, ast.Assign) and norm(x) == "merged[key] = value" for x in ast.walk(loop[0])) and any(isinstance(x, ast.Assign) and norm(x) == "stage.context = merged" for x in ast.walk(pl))
    rep.check(ok, "C18.R4", "planning carries every own-context key into the planned context", "for key, value in stage.context.items(): merged[key] = value; stage.context = merged", "src/stabilize/handlers/start_stage/planner.py", loop[0].lineno if loop else pl.lineno, disc="plan-copy")
    # an own-context value that no ancestor provides (the mailbox is one) is copied VERBATIM: the only branch that rebuilds a
    # list requires the key to be present in the ancestor merge already (shape shared with C16.R2)
    from .c16 import _list_merge_shape
    ifs_ = [i_ for i_ in (loop[0].body if loop else []) if isinstance(i_, ast.If)]
    kv_ = [norm(e_) for e_ in loop[0].target.elts] if loop and isinstance(loop[0].target, ast.Tuple) and len(loop[0].target.elts) == 2 else ["key", "value"]
    okv = any(_list_merge_shape(i_, "merged", kv_[0], kv_[1]) for i_ in ifs_)
    rep.check(okv, "C18.R4", "planning copies an own-only context value unchanged", "a list is rebuilt (item by item, without duplicates) only when the ancestor merge already has that key; otherwise merged[key] = value" if okv else
              "the overlay rebuilds list values that exist only in the stage's own context: equal entries of `_buffered_signals` (two identical persistent signals) collapse into one and a signal is lost",
              "src/stabilize/handlers/start_stage/planner.py", loop[0].lineno if loop else pl.lineno, disc="plan-verbatim")

    _r6_entry_points(ctx, rep)

    # ---- R5: the resume message is not mistaken for a duplicate ---------------------------------------------------------
    # RunTask keeps an in-process registry of executing task ids and drops a RunTask for a registered task. The entry is removed
    # only after the result was committed - and that commit already contains the resume RunTask of a consumed signal. Dropping
    # is right for a re-delivery of the SAME message; any other message for the task is its continuation.
    rep.rule("C18.R5", "a RunTask for a task registered as executing is dropped only when it is the same message (redelivery); otherwise it is re-queued")
    from ..dom import conditions_at
    rh = prog.func("stabilize.handlers.run_task.handler", "RunTaskHandler.handle.on_task")
    drops = []
    for r_ in ast.walk(rh.node):
        if isinstance(r_, ast.Return):
            facts = conditions_at(rh.node, r_)
            if any(t_ == "existing_start is None" and tr_ is False for t_, tr_ in facts) and any("stale_threshold_s" in t_ for t_, _ in facts):
                drops.append((r_, facts))
    rep.floor("duplicate-RunTask drop branches", len(drops), 1)
    for r_, facts in drops:
        ident = any("message_id" in t_ for t_, _ in facts)
        blk_calls = [c_ for t2 in ast.walk(rh.node) if isinstance(t2, ast.If) and any(x is r_ for x in ast.walk(t2)) for c_ in ast.walk(t2) if isinstance(c_, ast.Call) and isinstance(c_.func, ast.Attribute) and c_.func.attr in ("push", "push_message")]
        ok = ident or bool(blk_calls)
        rep.check(ok, "C18.R5", "RunTask for an executing task: only a redelivery of the same message is dropped", "message identity compared / the message is re-queued" if ok else
                  "every RunTask for a task id registered in _executing_tasks is dropped (return => marked processed and acked). The registry entry outlives the commit that pushes the resume RunTask of a consumed "
                  "persistent signal, so another worker thread polling that resume inside the window discards it: the stage stays RUNNING/SUSPENDED with an empty queue and the signal's resume is lost",
                  rh.file, r_.lineno, disc="resume-dropped-as-duplicate")


# ---- R6: the API entry points send persistent signals --------------------------------------------------------------------
def _param_default(fn: ast.FunctionDef, name: str):
    a = fn.args
    pos = list(a.posonlyargs) + list(a.args)
    for p_, d_ in zip(pos[len(pos) - len(a.defaults):], a.defaults):
        if p_.arg == name:
            return d_
    for p_, d_ in zip(a.kwonlyargs, a.kw_defaults):
        if p_.arg == name:
            return d_
    if any(p_.arg == name for p_ in pos + list(a.kwonlyargs)):
        return "required"
    return None


def _r6_entry_points(ctx, rep) -> None:
    """`persistent` as it reaches the SignalStage message when a HITL entry point is called with its defaults.
    Resolved through the module's own call chain: explicit keyword -> constant / parameter (-> its default / the argument the
    module-internal caller passes); keyword omitted -> the dataclass default of SignalStage.persistent."""
    prog = ctx.prog
    rep.rule("C18.R6", "every public entry point of stabilize.hitl that sends a SignalStage sends it persistent when called with its defaults (an approval given before the gate suspends is buffered, not dropped)")
    msg = prog.cls("stabilize.queue.messages", "SignalStage")
    dc_default = None
    for st in msg.node.body:
        if isinstance(st, ast.AnnAssign) and isinstance(st.target, ast.Name) and st.target.id == "persistent":
            dc_default = st.value.value if isinstance(st.value, ast.Constant) else None
    if dc_default is None:
        raise AnalysisError("SignalStage.persistent: dataclass field with a constant default not found")
    hm = prog.modules.get("stabilize.hitl")
    if hm is None:
        raise AnalysisError("module stabilize.hitl not found")
    fns = {n: f for n, f in hm.functions.items()}

    def effective(fname: str, bindings: dict, depth: int = 0) -> list:
        """[(value, site)] for every SignalStage sent (directly or through module functions) by fname under `bindings`
        (parameter -> constant | 'unknown'); parameters not bound take their default"""
        if depth > 4 or fname not in fns:
            return []
        fn = fns[fname].node

        def val(e):
            if e is None:
                return "unknown"
            if isinstance(e, ast.Constant):
                return e.value
            if isinstance(e, ast.Name):
                if e.id in bindings:
                    return bindings[e.id]
                d = _param_default(fn, e.id)
                if isinstance(d, ast.Constant):
                    return d.value
                return "unknown"
            return "unknown"

        out = []
        for c in ast.walk(fn):
            if not isinstance(c, ast.Call):
                continue
            callee = norm(c.func).split(".")[-1]
            if callee == "SignalStage":
                kw = {k.arg: k.value for k in c.keywords if k.arg}
                if any(k.arg is None for k in c.keywords):
                    out.append(("unknown", c.lineno))
                elif "persistent" in kw:
                    out.append((val(kw["persistent"]), c.lineno))
                else:
                    out.append((dc_default, c.lineno))
            elif isinstance(c.func, ast.Name) and callee in fns and callee != fname:
                g = fns[callee].node
                a = g.args
                pos = [p_.arg for p_ in list(a.posonlyargs) + list(a.args)]
                b = {}
                for i, arg in enumerate(c.args):
                    if i < len(pos):
                        b[pos[i]] = val(arg)
                for k in c.keywords:
                    if k.arg:
                        b[k.arg] = val(k.value)
                out += effective(callee, b, depth + 1)
        return out

    n = 0
    for name, f in sorted(fns.items()):
        if name.startswith("_"):
            continue
        sent = effective(name, {})
        for v, line in sent:
            n += 1
            rep.check(v is True, "C18.R6", f"hitl.{name}: SignalStage sent with defaults is persistent", f"persistent = {v!r} (message built at line {line}; SignalStage.persistent defaults to {dc_default!r})" + ("" if v is True else
                      ": a decision handled before the gate's suspend is durable is dropped as a transient signal and the gate then waits forever"), f.file, f.node.lineno, disc=f"entry:{name}")
    rep.floor("HITL entry points that send SignalStage", n, 3)
