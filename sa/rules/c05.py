"""C05 - when the engine goes quiet every workflow is finished or explicitly waiting.

  R1  final-status function: SUCCEEDED only if every top-level stage is continuable; a TERMINAL stage gives TERMINAL;
      "not ready" re-queues itself with a bounded retry budget
  R2  continuation completeness: a transaction that completes a stage pushes its continuation in the same commit
  R3  continuation effectiveness: a message pushed for the handler's own entity is acceptable to its receiver in the
      status stored by the same commit (not dead on arrival)
  R4  a workflow that ends not SUCCEEDED cancels its RUNNING top-level stages in the same commit
  R5  no silent consume: a path that leaves the own stage/task RUNNING (written on this path) pushed a continuation or raised
  R6  consume table: every path that consumes its message without pushing or storing anything is taken only under a
      reviewed condition (moot by durable state / somebody else carries the workflow on)
"""
from __future__ import annotations

import ast

from ..model import AnalysisError, norm
from ..paths import all_paths
from ..seqrules import atoms, commits_after_synthetic, path_infos, shape

# receiver guard: message class -> (entity kind, statuses in which the receiver acts on it)
def accept_table(T):
    ALL = frozenset(T.members)
    COMPLETED = T.sets["COMPLETED_STATUSES"]
    return {
        "CompleteTask": ("task", frozenset({"RUNNING"})),
        "RunTask": ("task", frozenset({"RUNNING"})),
        "StartTask": ("task", frozenset({"NOT_STARTED"})),
        "PauseTask": ("task", ALL - COMPLETED),
        "CompleteStage": ("stage", frozenset({"RUNNING"}) | T.sets["HALT_STATUSES"]),
        "SkipStage": ("stage", frozenset({"NOT_STARTED"})),
    }


# completing transactions that deliberately push nothing, with the reason
NO_CONTINUATION_OK = {
    # (handler, shape): (reason, guards that must have been decided this way on the path)
    ("CancelStageHandler", "TXN{mark,store_stage}"): ("cancellation ends the path; whoever asked for the cancel pushed CompleteWorkflow (CancelWorkflow fan-out / failure branch of CompleteStage)", {}),
    ("SkipStageHandler", "TXN{mark,store_stage}"): ("synthetic stage without a parent id (data inconsistency branch): nothing to notify", {"phase is not None": True, "parent_id": False}),
    ("CompleteStageHandler", "TXN{mark,store_stage}"): ("synthetic stage without a parent id (data inconsistency branch): nothing to notify", {"phase is not None": True, "parent_id": False}),
    ("PauseTaskHandler", "TXN{mark,store_stage}"): ("explicit wait: PAUSED until ResumeStage", {}),
}
SILENT_RUNNING_OK = {
    ("ResumeStageHandler", "TXN{mark,store_stage}"): "a PAUSED stage always has its PAUSED task (PauseTask sets both); the no-task branch is defensive",
    ("ResumeStageHandler", "TXN{mark,store_stage,update_workflow_status}"): "as above",
}


# R6: reviewed conditions under which a handler may consume its message without a continuation.
# facts: leaf tests of the handler's own Ifs ("!": decided False; "fn::" qualifies by function)
MOOT = "moot: the addressed entity already left the status this handler acts on (a duplicate, or overtaken by another message)"
CONSUME_OK = {
    "StartWorkflowHandler": [
        ({"execution.status != WorkflowStatus.NOT_STARTED"}, MOOT),
    ],
    "StartWaitingWorkflowsHandler": [
        ({"!message.pipeline_config_id"}, "no concurrency group: nothing to promote"),
        ({"!buffered"}, "no BUFFERED workflow in the group"),
        ({"buffered"}, "promotion loop with no free slot (or zero iterations in the abstraction): the remaining workflows stay BUFFERED, an explicit wait for a slot"),
    ],
    "SkipStageHandler": [({"stage.status != WorkflowStatus.NOT_STARTED"}, MOOT)],
    "CancelStageHandler": [({"stage.status.is_complete"}, MOOT)],
    "ContinueParentStageHandler": [
        ({"_handle_before_phase::after_stages", "_handle_before_phase::!not_started_after"}, "task-less parent whose after-stages were already started: their completion pushes ContinueParentStage(STAGE_AFTER)"),
        ({"!phase == SyntheticStageOwner.STAGE_BEFORE", "!phase == SyntheticStageOwner.STAGE_AFTER"}, "neither phase: SyntheticStageOwner has exactly these two members (C05.R6 checks the enum)"),
    ],
    "JumpToStageHandler": [({"source_stage is None"}, "jump request naming a source stage that does not exist: nothing was started on its behalf"),
                           ({"source_stage.status != WorkflowStatus.RUNNING"}, MOOT + " (the stage that asked for the jump was canceled / finalized before the jump was handled)")],
    "SignalStageHandler": [({"!stage.status == WorkflowStatus.SUSPENDED", "!message.persistent"}, "a non-persistent signal to a stage that is not waiting is dropped by design (C18)")],
    "CancelRegionHandler": [
        ({"!isinstance(execution, Workflow)"}, "no such workflow"),
        ({"!region"}, "empty region name"),
        ({"!stages_to_cancel"}, "no active stage in the region"),
    ],
    "AddMultiInstanceHandler": [
        ({"stage.mi_config is None"}, "not a multi-instance stage"),
        ({"!stage.mi_config.allow_dynamic"}, "dynamic instances not allowed"),
        ({"stage.status.is_complete"}, MOOT),
    ],
    "StartTaskHandler": [({"task_model.status != WorkflowStatus.NOT_STARTED"}, MOOT)],
    "CompleteTaskHandler": [({"task.status != WorkflowStatus.RUNNING"}, MOOT)],
    "CompleteStageHandler": [
        ({"stage.status == WorkflowStatus.NOT_STARTED"}, "stale message of a previous loop iteration: the jump that reset the stage pushed StartStage in the same commit"),
        ({"stage.status not in {WorkflowStatus.RUNNING}"}, MOOT + " (halt statuses re-push the workflow/parent completion instead)"),
        ({"!status == WorkflowStatus.RUNNING", "in_flight_children"}, "failed stage whose on-failure / after children are still in flight: their completion drives the parent"),
        ({"status == WorkflowStatus.RUNNING"}, "determine_status() says tasks or synthetic children are still in flight: their own completion messages carry the stage on"),
        ({"stage.status in {WorkflowStatus.RUNNING}", "!stage.status == WorkflowStatus.RUNNING"}, "error branch: the stage was RUNNING when the step began and the copy re-read after the failure is not any more - the completion was "
         "committed after all (or another handler finalized the stage), and that commit carries the continuation (C05.R2)"),
    ],
    "CompleteWorkflowHandler": [({"execution.status.is_complete"}, MOOT)],
    "CancelWorkflowHandler": [({"execution.status.is_complete"}, MOOT)],
    "RestartStageHandler": [
        ({"execution.is_canceled"}, "a canceled workflow is not restarted"),
        ({"!stage.status.is_complete"}, "only a completed stage can be restarted"),
    ],
    "ResumeStageHandler": [({"stage.status != WorkflowStatus.PAUSED"}, MOOT)],
    "PauseTaskHandler": [({"task.status.is_complete"}, MOOT)],
}
# wait sets behind "children still in flight" consume entries: (module, function, variable)
WAIT_VARS = [("stabilize.handlers.complete_stage.handler", "CompleteStageHandler._handle_with_retry.on_stage", "in_flight_children")]
CONSUME_MODE = {"CompleteStageHandler": "ret", "JumpToStageHandler": "ret"}      # full condition set too large: early-return tests only
CONSUME_OK["StartStageHandler"] = [      # examined in the thorough tier only (enumeration ~1.5 min)
    ({"fresh_stage is None"}, "the stage disappeared between two reads: nothing to start"),
    ({"readiness.phase == PredicatePhase.READY", "!stage.status == WorkflowStatus.RUNNING"}, MOOT + " (completed: its own CompleteStage pushed the continuation; the halted sub-case of this branch pushes CompleteWorkflow, which C05.R15 checks - "
     "the `is_halt` test is not an early-return test and therefore not a recorded fact of this enumeration)"),
    ({"!readiness.phase == PredicatePhase.READY", "!readiness.phase == PredicatePhase.SKIP"}, "NOT_READY with an upstream still active: that upstream's completion pushes StartStage again (C05.R2), polling stops by design"),
    ({"stage.status == WorkflowStatus.RUNNING", "has_tasks"}, "duplicate StartStage for a stage that is already planned: its tasks carry it on"),
    ({"stage.status == WorkflowStatus.RUNNING", "has_synthetic"}, "duplicate StartStage for a stage whose synthetic children are planned: they carry it on"),
]
CONSUME_THOROUGH = {"StartStageHandler": "ret"}
CONSUME_UNDECIDED = {"StartStageHandler": "condition set too large for the quick tier (decided in the thorough tier); its consume branches are also covered by C04/C11 (claim loser, refused claim) and C05.R5",
                     "RunTaskHandler": "condition set too large to enumerate; covered by C05.R5 (no silent RUNNING) and C02.R3"}


def consume_rule(ctx, rep, rid: str, only: frozenset | None = None) -> tuple:
    """the consume table applied to the registered handlers (all, or those named in `only`); shared with C17.R6"""
    from ..consume import consume_paths, justify
    from ..handlers import registered_handlers
    n_paths = n_cons = 0
    for h in registered_handlers(ctx.prog):
        name = h.cls.name
        if h.marker or (only is not None and name not in only):
            continue
        if name in CONSUME_UNDECIDED and not (rep.tier == "thorough" and name in CONSUME_THOROUGH):
            rep.undecided.append(f"{rid} for {name}: {CONSUME_UNDECIDED[name]}")
            continue
        entries = CONSUME_OK.get(name)
        try:
            cps, n = consume_paths(ctx, h, CONSUME_THOROUGH.get(name) or CONSUME_MODE.get(name, "all"))
        except AnalysisError as e:
            rep.error(f"{rid} {name}: {e}")
            continue
        n_paths += n
        used = set()
        for cp in cps:
            n_cons += 1
            j = justify(cp, entries or [])
            cond = " ; ".join(cp.ordered) or "(no test decided)"
            if j is not None:
                used.add(tuple(sorted(j[0])))
                rep.ok(rid, f"{name}: consume [{cp.shape}]", f"under {cond}: {j[1]}", cp.site[0], cp.site[1])
            else:
                rep.fail(rid, f"{name}: message consumed without continuation", f"path [{cp.shape}] taken under `{cond}` pushes nothing and stores nothing, and this condition is not a reviewed reason for ending the message chain: "
                         "if nobody else is certain to continue the workflow it is stuck with an empty queue", cp.site[0], cp.site[1], disc="consume:" + ";".join(sorted(f for f in cp.facts if "::" not in f)))
        for facts, reason in entries or []:
            if tuple(sorted(facts)) not in used:
                rep.notes.append(f"{rid} table entry not exercised on this tree: {name} {sorted(facts)}")
    return n_paths, n_cons


def _r6(ctx, rep) -> None:
    rep.rule("C05.R6", "every handler path that returns normally without pushing a message or storing a status is taken under a reviewed path condition (table CONSUME_OK: moot by durable state, or another in-flight entity carries the workflow on)")
    n_paths, n_cons = consume_rule(ctx, rep, "C05.R6")
    rep.count(consume_probe_paths=n_paths, consume_paths=n_cons)
    rep.floor("consume-only paths examined", n_cons, 30)
    # wait sets: a handler that consumes its message because "children are still in flight" must only wait for children that
    # can still send a completion message. A NOT_STARTED child is live only if its StartStage was pushed.
    from ..statuspred import comprehension_filter, status_set
    T = ctx.st
    for (modname, qual, var) in WAIT_VARS:
        fi_ = ctx.prog.func(modname, qual)
        asg = [n for n in ast.walk(fi_.node) if isinstance(n, ast.Assign) and len(n.targets) == 1 and norm(n.targets[0]) == var]
        if not asg:
            rep.fail("C05.R6", f"wait set `{var}`", f"`{var}` is no longer assigned in {qual}: the reviewed wait condition changed shape", fi_.file, fi_.node.lineno, disc=f"waitvar:{var}:missing")
            continue
        for a in asg:
            v = a.value
            conditioned = None
            if isinstance(v, ast.IfExp):
                empty_else = isinstance(v.orelse, (ast.List, ast.Tuple)) and not v.orelse.elts
                if empty_else:
                    conditioned, v = norm(v.test), v.body
            cf = comprehension_filter(v)
            if cf is None:
                rep.fail("C05.R6", f"wait set `{var}`", f"not a filtered comprehension over child stages: {norm(a.value)[:80]}", fi_.file, a.lineno, disc=f"waitvar:{var}:shape")
                continue
            g, flt = cf
            subj = norm(g.target) + ".status"
            W = status_set(flt, subj, T) if flt is not None else frozenset(T.members)
            if W is None:
                rep.fail("C05.R6", f"wait set `{var}`", f"filter `{norm(flt)}` is not a status predicate this checker can evaluate", fi_.file, a.lineno, disc=f"waitvar:{var}:undecidable")
                continue
            dead = sorted(W & T.sets["COMPLETED_STATUSES"])
            rep.check(not dead, "C05.R6", f"`{var}` never waits for a completed child", f"waits for children in {sorted(W)}", fi_.file, a.lineno, disc=f"waitvar:{var}:completed")
            ok = "NOT_STARTED" not in W or conditioned is not None
            rep.check(ok, "C05.R6", f"`{var}` counts a NOT_STARTED child as in flight only with evidence that it was started",
                      (f"NOT_STARTED children count only under `{conditioned}`" if conditioned else f"waits for children in {sorted(W)}") if ok else
                      f"`{norm(a.value)[:90]}` counts every NOT_STARTED child as in flight: a pre-declared child whose StartStage was never pushed (the stage's own task failed first) sends no completion message, "
                      "the CompleteStage is consumed and the stage stays RUNNING with an empty queue", fi_.file, a.lineno, disc=f"waitvar:{var}:not-started")
    # the phase enum is closed
    so = [c for m in ctx.prog.modules.values() for c in m.classes.values() if c.name == "SyntheticStageOwner"]
    members = [norm(s_.targets[0]) for s_ in so[0].node.body if isinstance(s_, ast.Assign)] if so else []
    rep.check(sorted(members) == ["STAGE_AFTER", "STAGE_BEFORE"], "C05.R6", "SyntheticStageOwner has exactly STAGE_BEFORE and STAGE_AFTER", f"members {members}", so[0].module.relpath if so else "", so[0].node.lineno if so else 0, disc="phase-enum")


def run(ctx, rep) -> None:
    prog, T = ctx.prog, ctx.st
    COMPLETED = T.sets["COMPLETED_STATUSES"]
    rep.rule("C05.R1", "_determine_final_status: SUCCEEDED => all top-level statuses continuable; TERMINAL present => TERMINAL; otherwise CANCELED/STOPPED handling, then a bounded re-queue (retry_count + 1, TERMINAL when the budget is spent)")
    rep.rule("C05.R2", "every transaction in CompleteStage/SkipStage/CancelStage/StartStage/ContinueParentStage that stores the own stage in a completed status also pushes StartStage/SkipStage/ContinueParentStage/CompleteWorkflow/CompleteStage/CancelStage, or is listed")
    rep.rule("C05.R3", "for every push of a message addressing the handler's own task/stage: status stored by that commit ∩ statuses in which the receiving handler acts ≠ ∅")
    rep.rule("C05.R4", "CompleteWorkflow: non-SUCCEEDED outcomes push CancelStage for every RUNNING top-level stage in the transaction that stores the outcome")
    rep.rule("C05.R5", "a normally returning path whose commits leave the own stage/task in RUNNING (written on this path) contains a continuation push")
    rep.undecided += ["liveness in general: that no arrival order wedges a workflow", "whether each reviewed consume condition really implies that somebody else continues the workflow (argued per entry in CONSUME_OK, not proved)"]
    res = all_paths(ctx)
    infos = [p for p in path_infos(res) if p.message]
    ACC = accept_table(T)
    seen: set = set()

    # ---- R1 (structural part; the predicate part is decided by E7 in _r1_pred) ----------------------------
    _r1(ctx, rep)
    _r11_incomplete_branches(ctx, rep)
    _r12_after_stage_gate(ctx, rep)
    _r13_redirect(ctx, rep)
    _r14_error_branch_marks_failed(ctx, rep)
    _r15_late_start_of_halted_stage(ctx, rep)
    _r6(ctx, rep)

    # ---- R2 ----------------------------------------------------------------------------------------
    n2 = 0
    for pi in infos:
        if pi.handler not in ("CompleteStageHandler", "SkipStageHandler", "CancelStageHandler", "StartStageHandler", "ContinueParentStageHandler", "JumpToStageHandler"):
            continue
        after_syn = commits_after_synthetic(pi)
        for i, c in enumerate(pi.seq):
            if c.kind != "TXN" or i in after_syn:
                continue
            commit_ev = pi.trace[c.index]
            stores = [e for e in c.effects if e.kind == "store_stage" and e.get("own")]
            if not stores:
                continue
            wrote = [e for e in pi.trace[: c.index] if e.kind == "status_write" and e.get("own") and e.get("okind") == "stage" and str(e.get("oid")) == str(stores[-1].get("oid"))]
            if not wrote:
                continue
            st_at = [m for (k, m, oid) in (commit_ev.get("owns") or ()) if k == "stage" and str(oid) == str(stores[-1].get("oid"))]
            final = st_at[0] if st_at else stores[-1].get("status")
            if not (final <= COMPLETED):
                continue
            n2 += 1
            cs = shape([c])
            pushes = [x for x in atoms(c) if x.startswith("push:")]
            gsig = tuple(sorted((str(e.get("raw")), e.get("truth")) for e in pi.trace if e.kind == "guard"))
            key = ("r2", pi.handler, cs, gsig if not pushes else ())
            if key in seen:
                continue
            seen.add(key)
            if pushes:
                rep.ok("C05.R2", f"{pi.handler}:{cs}", f"stage stored as {sorted(final)} with continuation {pushes}", c.site[0], c.site[1])
            elif (pi.handler, cs) in NO_CONTINUATION_OK and _guards_hold(pi, NO_CONTINUATION_OK[(pi.handler, cs)][1]):
                rep.ok("C05.R2", f"{pi.handler}:{cs}", "listed: " + NO_CONTINUATION_OK[(pi.handler, cs)][0], c.site[0], c.site[1])
            else:
                rep.fail("C05.R2", f"{pi.handler}:{cs}", f"the stage becomes {sorted(final)} durably but no continuation is pushed in that commit: nothing will ever drive the workflow further", c.site[0], c.site[1], disc=cs)
    rep.floor("stage-completing transactions", n2, 30)
    # decision table of the continuation (siblings: CompleteStage success branch, SkipStage; reference: StabilizeHandler.start_next)
    TABLE = {
        "StartStage": {"downstream_stages": True},
        "ContinueParentStage": {"downstream_stages": False, "phase is not None": True, "parent_id": True},
        "CompleteWorkflow": {"downstream_stages": False, "phase is not None": False},
    }
    nt = 0
    for pi in infos:
        if pi.handler not in ("CompleteStageHandler", "SkipStageHandler"):
            continue
        got = {}
        for e in pi.trace:
            if e.kind == "guard":
                raw = str(e.get("raw"))
                if raw.startswith("not "):
                    got[raw[4:]] = not e.get("truth")
                else:
                    got[raw] = e.get("truth")
        if "downstream_stages" not in got:
            continue        # not the downstream-selection branch
        for c in pi.seq:
            if c.kind != "TXN" or not any(e.kind == "store_stage" and e.get("own") for e in c.effects):
                continue
            if any(e.kind == "push" and e.get("cls") == "CancelStage" for e in c.effects) or pi.synthetic_after is not None:
                continue        # failure propagation, not the success continuation
            for e in c.effects:
                if e.kind == "push" and e.get("cls") in TABLE:
                    if e.get("cls") == "StartStage" and e.get("stage_id") == "message.stage_id":
                        continue
                    req = TABLE[e.get("cls")]
                    bad = {k: got.get(k) for k, v in req.items() if got.get(k) is not None and got.get(k) != v}
                    missing = [k for k in req if k not in got]
                    nt += 1
                    key = ("tab", pi.handler, e.get("cls"), tuple(sorted(bad.items())), tuple(missing))
                    if key in seen:
                        continue
                    seen.add(key)
                    rep.check(not bad and not missing, "C05.R2", f"{pi.handler}: {e.get('cls')} chosen under the reference conditions", f"required {req}; path decided {dict((k, got.get(k)) for k in req)}",
                              e.site[0], e.site[1], disc=f"table:{e.get('cls')}:{sorted(bad.items())}:{missing}")
    rep.floor("continuation choices checked against the decision table", nt, 10)

    # ---- R3b: a completion pushed UPWARD (to the parent of a synthetic stage) is effective ---------------------------
    # CompleteStage(parent) only acts when the parent's determine_status() is not RUNNING. A child that ended in a
    # continuable status leaves the parent's own tasks / later children unstarted, so determine_status() says RUNNING and
    # the message is dropped as stale: the parent must be continued with ContinueParentStage instead.
    CONT = T.sets["CONTINUABLE_STATUSES"]
    nu = 0
    for pi in infos:
        for c in pi.seq:
            if c.kind != "TXN":
                continue
            commit_ev = pi.trace[c.index]
            for e in c.effects:
                if e.kind != "push" or e.get("cls") != "CompleteStage" or not str(e.get("stage_id")).endswith(".parent_stage_id"):
                    continue
                stores = [x for x in c.effects if x.kind == "store_stage" and x.get("own")]
                if not stores:
                    continue
                st_at = [m for (k, m, oid) in (commit_ev.get("owns") or ()) if k == "stage" and str(oid) == str(stores[-1].get("oid"))]
                if not st_at:
                    continue
                final = st_at[0]
                nu += 1
                key = ("up", pi.handler, tuple(sorted(final)))
                if key in seen:
                    continue
                seen.add(key)
                ok = not (final <= CONT)
                rep.check(ok, "C05.R3", f"{pi.handler}: CompleteStage pushed to the parent of a synthetic stage stored as {sorted(final)}",
                          "the child halted: the parent's determine_status() is a halt status and the message completes it" if ok else
                          "the child ended in a continuable status, so the parent's own tasks (before-phase) or remaining children are still NOT_STARTED, determine_status() returns RUNNING and "
                          "CompleteStageHandler drops this message as stale: nothing starts the parent's tasks and the workflow stays RUNNING with an empty queue (ContinueParentStage is the message that continues a parent)",
                          e.site[0], e.site[1], disc=f"upward-complete:{','.join(sorted(final))}")
    rep.floor("upward CompleteStage pushes examined", nu, 3)

    # ---- R7: an error branch must be able to record the failure -----------------------------------------------------
    # A status write through the validating setter raises when the transition is illegal. Inside an error handler (after an
    # exception edge) that second exception escapes the handler: the failure is never stored, the message is retried into
    # the DLQ and the entity stays as it is in the store - with nothing queued to continue it.
    rep.rule("C05.R7", "a validated status write made after an exception edge (inside an error branch) is a legal transition from every status the object can have on that path")
    n7 = 0
    for pi in infos:
        if pi.synthetic_after is None:
            continue
        for i, e in enumerate(pi.trace):
            if e.kind != "status_write" or i <= pi.synthetic_after or not e.get("validated") or e.get("okind") not in ("stage", "task", "workflow"):
                continue
            frm, to = frozenset(e.get("frm")), frozenset(e.get("to"))
            if len(frm) > 8:
                continue        # status unknown on this path: nothing to conclude
            n7 += 1
            illegal = sorted(f for f in frm for t_ in to if f != t_ and t_ not in T.transitions.get(f, frozenset()))
            key = ("r7", pi.handler, e.site, tuple(illegal))
            if key in seen:
                continue
            seen.add(key)
            rep.check(not illegal, "C05.R7", f"{pi.handler}: error branch sets {e.get('okind')} {sorted(to)}", f"from {sorted(frm)}: legal" if not illegal else
                      f"the object handled by the error branch can already be {illegal} in memory (the status was applied before the step failed); {illegal[0]} -> {sorted(to)[0]} is rejected by the validating setter, "
                      "so the error branch raises again: the failure is never recorded, the message cycles into the DLQ and the stored entity stays RUNNING with an empty queue",
                      e.site[0], e.site[1], disc=f"error-branch:{e.get('okind')}:{','.join(illegal)}")
    rep.floor("validated status writes on fault paths", n7, 1)

    # ---- R8: a lost claim is not a duplicate unless somebody else holds the stage -----------------------------------------
    # The claim CAS (version AND status) also fails when another KIND of writer bumped the version while the status is still
    # NOT_STARTED (a persistent signal buffered into the stage, join bookkeeping written by an upstream's completion). Then
    # nobody claimed the stage; consuming the StartStage leaves the stage NOT_STARTED with nothing queued.
    rep.rule("C05.R8", "the ConcurrencyError handler of the StartStage claim consumes the message only after re-reading the stage and finding it no longer NOT_STARTED (otherwise it re-raises / retries / re-queues)")
    sir = prog.func("stabilize.handlers.start_stage.handler", "StartStageHandler._start_if_ready")
    claim_tries = [t_ for t_ in ast.walk(sir.node) if isinstance(t_, ast.Try) and any(isinstance(c_, ast.Call) and isinstance(c_.func, ast.Attribute) and c_.func.attr == "store_stage" and any(k_.arg == "expected_phase" for k_ in c_.keywords)
                                                                                         for b_ in t_.body for c_ in ast.walk(b_))]
    rep.floor("claim try-blocks in _start_if_ready", len(claim_tries), 1)
    for t_ in claim_tries:
        hs = [h_ for h_ in t_.handlers if h_.type is not None and "ConcurrencyError" in norm(h_.type)]
        for h_ in hs:
            rereads = any(isinstance(c_, ast.Call) and isinstance(c_.func, ast.Attribute) and c_.func.attr in ("retrieve_stage",) for c_ in ast.walk(h_))
            reraises = any(isinstance(x_, ast.Raise) for x_ in ast.walk(h_))
            requeues = any(isinstance(c_, ast.Call) and isinstance(c_.func, ast.Attribute) and c_.func.attr in ("push", "push_message") for c_ in ast.walk(h_))
            ok = rereads and (reraises or requeues)
            rep.check(ok, "C05.R8", "StartStage claim: a lost CAS is treated as a duplicate only if the stage left NOT_STARTED", "the handler re-reads the stage and re-raises / re-queues while it is still NOT_STARTED" if ok else
                      "`except ConcurrencyError: return` after the claim: the CAS also fails when a persistent signal or join bookkeeping was written onto the still NOT_STARTED stage between this handler's read and its claim - "
                      "nobody holds the stage, yet the StartStage is consumed (marked processed and acked): the stage never starts and the workflow stays RUNNING with an empty queue",
                      sir.file, h_.lineno, disc="claim-lost-consumed")

    # ---- R9: determine_status - a halted child outranks "children still in progress" -------------------------------------
    # CompleteStage acts only when determine_status() is not RUNNING. If a NOT_STARTED sibling of a halted child makes it say
    # RUNNING, the CompleteStage pushed by the halting child is dropped as stale, nobody starts that sibling (its predecessor
    # halted), and the stage stays RUNNING for good.
    rep.rule("C05.R9", "StageExecution.determine_status: every `return RUNNING` that is justified by unfinished after-stages is reached only after the halt statuses (TERMINAL / STOPPED / CANCELED) of the after-stages were excluded")
    from ..dom import conditions_at as _cond_at
    ds = None
    for m_ in prog.modules.values():
        if "StageExecution" in m_.classes and "determine_status" in m_.classes["StageExecution"].methods:
            ds = m_.classes["StageExecution"].methods["determine_status"]
    if ds is None:
        raise AnalysisError("StageExecution.determine_status not found")
    n9 = 0
    for r_ in ast.walk(ds.node):
        if not (isinstance(r_, ast.Return) and r_.value is not None and norm(r_.value) == "WorkflowStatus.RUNNING"):
            continue
        facts = _cond_at(ds.node, r_)
        about_after = [t_ for t_, tr_ in facts if tr_ and "after_stage_statuses" in t_ and t_ != "after_stage_statuses"]
        if not about_after:
            continue
        n9 += 1
        excluded = {st_ for st_ in ("TERMINAL", "STOPPED", "CANCELED") if (f"WorkflowStatus.{st_} in after_stage_statuses", False) in facts}
        ok = excluded == {"TERMINAL", "STOPPED", "CANCELED"}
        branch = "task-less stage" if ("core_statuses", False) in facts else "stage with core work done"
        rep.check(ok, "C05.R9", f"determine_status ({branch}): RUNNING for unfinished after-stages only when none of them halted", f"halt statuses excluded first: {sorted(excluded)}" if ok else
                  f"`return RUNNING` under `{about_after[0]}` is reached although an after-stage may be {sorted({'TERMINAL', 'STOPPED', 'CANCELED'} - excluded)}: with chained after-stages (after2 requires after1) and after1 halted, "
                  "after2 stays NOT_STARTED for ever, determine_status() keeps saying RUNNING, the CompleteStage pushed by after1 is dropped as stale and the stage never completes",
                  ds.file, r_.lineno, disc=f"after-halt-first:{branch}")
    rep.floor("RUNNING returns of determine_status justified by after-stages", n9, 1)

    # ---- R10: only a stage that has not started waits for its upstreams -----------------------------------------------------
    # StartStage's NOT_READY handling (stop polling / re-queue with a budget / fail the stage TERMINAL when the budget is spent)
    # is meant for a NOT_STARTED stage. A later upstream's StartStage for a join that already fired (stage RUNNING or finished)
    # is NOT_READY too: re-queued for the whole budget it keeps the engine busy long after the workflow finished, and when the
    # budget runs out it fails a correctly running stage.
    rep.rule("C05.R10", "in StartStageHandler.handle the wait-budget branch (re-queue with retry_count + 1 / TERMINAL after max_stage_wait_retries) is reached only for a stage that is still NOT_STARTED")
    hs_ = prog.func("stabilize.handlers.start_stage.handler", "StartStageHandler.handle.on_stage")
    # the wait-budget actions are those taken for the `stage` the readiness was computed for (not the error branch's re-read copy)
    budget = [n_ for n_ in ast.walk(hs_.node) if isinstance(n_, ast.Call) and ((norm(n_.func) == "self.set_stage_status" and "TERMINAL" in norm(n_) and n_.args and norm(n_.args[0]) == "stage")
                                                                               or (norm(n_.func) == "StartStage" and any(k_.arg == "retry_count" for k_ in n_.keywords)))]
    rep.floor("wait-budget actions in StartStage.handle", len(budget), 2)
    for n_ in budget:
        facts = _cond_at(hs_.node, n_)
        in_try_handler = False
        ok = ("stage.status == WorkflowStatus.NOT_STARTED", True) in facts
        what = "re-queue with retry_count + 1" if norm(n_.func) == "StartStage" else "fail the stage TERMINAL when the wait budget is spent"
        rep.check(ok, "C05.R10", f"StartStage.handle: `{what}` only for a NOT_STARTED stage", "reached only with stage.status == NOT_STARTED" if ok else
                  f"`{what}` is reached whatever the stage's own status: the StartStage pushed by the LOSING upstream of a fired first-of / quorum join (stage already RUNNING or SUCCEEDED, readiness NOT_READY 'already fired') is re-queued "
                  "max_stage_wait_retries times after the workflow finished, and then the handler tries to mark the stage TERMINAL - a join whose own task runs longer than the budget is failed although it fired correctly",
                  hs_.file, n_.lineno, disc=f"wait-budget-any-status:{'requeue' if norm(n_.func) == 'StartStage' else 'terminal'}")

    # ---- R3 continuation effectiveness ------------------------------------------------------------------
    n3 = 0
    for pi in infos:
        for i, c in enumerate(pi.seq):
            if c.kind != "TXN":
                continue
            commit_ev = pi.trace[c.index]
            owns = commit_ev.get("owns") or ()
            for e in c.effects:
                if e.kind != "push" or e.get("cls") not in ACC:
                    continue
                kind, accept = ACC[e.get("cls")]
                idf = "task_id" if kind == "task" else "stage_id"
                # the handler's own entity: addressed as message.<id>, or through the object read for that id (`stage.id` of the own stage)
                own_ids = {f"message.{idf}"} | ({f"{oid}.id" for (k, m, oid) in owns if k == "stage"} if kind == "stage" else set())
                if str(e.get(idf)) not in own_ids:
                    continue
                # the entity as stored by this commit: only objects (or stages whose tasks) this commit stores
                stored_oids = [str(x.get("oid")) for x in c.effects if x.kind == "store_stage"]
                cands = []
                for (k, m, oid) in owns:
                    if k != kind:
                        continue
                    if kind == "stage" and str(oid) in stored_oids:
                        cands.append(m)
                    if kind == "task" and any(str(oid).find("it:" + so[:40]) >= 0 or so in str(oid) for so in stored_oids):
                        cands.append(m)
                if not cands:
                    continue        # the commit does not store that entity: its durable status is whatever the guard saw
                n3 += 1
                ok = any(m & accept for m in cands)
                key = ("r3", pi.handler, e.get("cls"), ok, tuple(sorted(tuple(sorted(m)) for m in cands)))
                if key in seen:
                    continue
                seen.add(key)
                best = min(cands, key=len)
                rep.check(ok, "C05.R3", f"{pi.handler} pushes {e.get('cls')} for its own {kind}", f"stored {kind} status {sorted(best) if len(best) < 12 else 'any'}; {e.get('cls')} acts only on {sorted(accept)}" +
                          ("" if ok else " - the message is ignored on arrival and the stage never completes"), e.site[0], e.site[1], disc=f"{e.get('cls')}:{','.join(sorted(best)) if len(best) < 12 else 'any'}")
    rep.floor("own-entity continuation pushes checked against the receiver's guard", n3, 8)

    # ---- R4 ----------------------------------------------------------------------------------------
    cw = prog.func("stabilize.handlers.complete_workflow", "CompleteWorkflowHandler._handle_with_retry.on_execution").node
    t = norm(cw)
    # the stages that get CancelStage when the workflow ends unsuccessfully: the collection the CancelStage loop iterates over is a
    # status filter over the top-level stages that lets RUNNING and the parked statuses (SUSPENDED, PAUSED) through - a parked stage
    # left out stays parked for ever inside the finished workflow - and it is filled for every non-SUCCEEDED outcome
    from ..statuspred import comprehension_filter as _cf4, status_set as _ss4
    from ..dom import conditions_at as _ca4
    sel, sel_detail, sel_line = False, "the loop pushing CancelStage was not found", cw.lineno
    for lp in [x for x in ast.walk(cw) if isinstance(x, ast.For) and any(isinstance(c_, ast.Call) and isinstance(c_.func, ast.Name) and c_.func.id == "CancelStage" for c_ in ast.walk(x))]:
        it = lp.iter
        defs = [a for a in ast.walk(cw) if isinstance(a, ast.Assign) and isinstance(it, ast.Name) and norm(a.targets[0]) == it.id and not (isinstance(a.value, (ast.List, ast.Tuple)) and not a.value.elts)]
        if len(defs) != 1:
            sel_detail = f"`{norm(it)}` has {len(defs)} non-empty definitions"
            continue
        cf = _cf4(defs[0].value)
        if cf is None:
            sel_detail = f"`{norm(defs[0].value)[:80]}` is not a filtered comprehension"
            continue
        g, flt = cf
        W = frozenset(T.members) if flt is None else _ss4(flt, f"{norm(g.target)}.status", T)
        dom_ok = norm(g.iter) in ("execution.top_level_stages()", "execution.stages")
        need = {"RUNNING", "SUSPENDED", "PAUSED"}
        under = ("status == WorkflowStatus.SUCCEEDED", False) in _ca4(cw, defs[0])
        sel_line = defs[0].lineno
        if W is None:
            sel_detail = f"filter `{norm(flt)}` is not a status predicate"
        elif not dom_ok:
            sel_detail = f"iterates {norm(g.iter)}"
        elif not need <= W:
            sel_detail = f"cancels stages in {sorted(W)}: {sorted(need - W)} stage(s) of a workflow that failed / was canceled get no CancelStage and stay parked for ever inside the finished workflow"
        elif W & T.sets["COMPLETED_STATUSES"]:
            sel_detail = f"cancels stages in {sorted(W)}: completed stages would be sent CancelStage"
        elif not under:
            sel_detail = "not under `status != SUCCEEDED`"
        else:
            sel, sel_detail = True, f"if status != SUCCEEDED: CancelStage for top-level stages in {sorted(W)}"
    rep.check(sel, "C05.R4", "every live top-level stage (RUNNING or parked) is selected for every non-SUCCEEDED outcome", sel_detail, "src/stabilize/handlers/complete_workflow.py", sel_line, disc="select")
    ok4 = True
    site4 = ("src/stabilize/handlers/complete_workflow.py", 0)
    n4 = 0
    for pi in infos:
        if pi.handler != "CompleteWorkflowHandler":
            continue
        for c in pi.seq:
            ups = [e for e in c.effects if e.kind == "update_workflow_status"]
            cancels = [e for e in c.effects if e.kind == "push" and e.get("cls") == "CancelStage"]
            if cancels:
                n4 += 1
                if not ups:
                    ok4, site4 = False, c.site
        # CancelStage outside the status transaction
        for c in pi.seq:
            if c.kind == "AUTO" and c.event is not None and c.event.get("cls") == "CancelStage":
                ok4, site4 = False, c.site
    rep.check(ok4 and n4 > 0, "C05.R4", "CancelStage rides in the commit that stores the workflow outcome", f"{n4} path(s) push CancelStage inside the status transaction", site4[0], site4[1], disc="same-commit")

    # ---- R5 SEQ-6 ----------------------------------------------------------------------------------
    n5 = 0
    for pi in infos:
        if pi.outcome != "return" or not pi.seq:
            continue
        after_syn = commits_after_synthetic(pi)
        if after_syn:
            continue
        wrote_running = [e for e in pi.trace if e.kind == "status_write" and e.get("own") and e.get("to") == frozenset({"RUNNING"}) and e.get("frm") != frozenset({"RUNNING"})]
        if not wrote_running:
            continue
        # is the RUNNING status durable at the end? last committed store of that object (or its stage) has it RUNNING
        last_ev = pi.trace[pi.seq[-1].index]
        durable_running = False
        for w in wrote_running:
            stored = [e for c in pi.seq for e in c.effects if e.kind == "store_stage" and (str(e.get("oid")) == str(w.get("oid")) or str(w.get("oid")).find("it:" + str(e.get("oid"))[:40]) >= 0)]
            if stored:
                # status of the written object at the last commit that stored it
                ci = max(i for i, c in enumerate(pi.seq) if any(e in stored for e in c.effects))
                ev = pi.trace[pi.seq[ci].index]
                ms = [m for (k, m, oid) in (ev.get("owns") or ()) if str(oid) == str(w.get("oid"))]
                if ms and ms[0] == frozenset({"RUNNING"}):
                    durable_running = True
        if not durable_running:
            continue
        n5 += 1
        pushes = [e for c in pi.seq for e in c.effects if e.kind == "push" or (e.kind == "auto" and e.get("api") == "queue.push")]
        cs = pi.shape
        key = ("r5", pi.handler, cs)
        if key in seen:
            continue
        seen.add(key)
        site = pi.seq[-1].site
        if pushes:
            rep.ok("C05.R5", f"{pi.handler}:{cs}", "entity left RUNNING with a continuation queued", site[0], site[1])
        elif (pi.handler, cs) in SILENT_RUNNING_OK:
            rep.ok("C05.R5", f"{pi.handler}:{cs}", "listed: " + SILENT_RUNNING_OK[(pi.handler, cs)], site[0], site[1])
        else:
            rb = [e for e in pi.trace if e.kind == "txn_rollback"]
            ncs = " ; ".join(x.replace("claim,", "") for x in cs.split(" ; ") if not x.startswith("AUTO store.add_stage") and not x.startswith("AUTO queue.push:CancelStage"))
            rep.fail("C05.R5", f"{pi.handler}:{ncs}", "the message is consumed (normal return) after a commit that left its own stage/task RUNNING, and nothing is queued to continue it"
                     + (f"; a later transaction was rolled back and the exception swallowed at line {rb[-1].site[1]}" if rb else ""), site[0], site[1],
                     disc="silent-running")
    rep.floor("paths that leave the own entity RUNNING", n5, 10)


def _guards_hold(pi, req: dict) -> bool:
    got = {}
    for e in pi.trace:
        if e.kind == "guard":
            got[str(e.get("raw") or e.get("text"))] = e.get("truth")
    for text, truth in req.items():
        hits = [v for k, v in got.items() if k == text or k.endswith("." + text)]
        if not hits or hits[-1] != truth:
            return False
    return True


def _r1(ctx, rep) -> None:
    prog = ctx.prog
    fi = prog.func("stabilize.handlers.complete_workflow", "CompleteWorkflowHandler._determine_final_status")
    fn = fi.node
    body = [s for s in fn.body if not (isinstance(s, ast.Expr) and isinstance(s.value, ast.Constant))]
    tests = [(i, norm(s.test), s) for i, s in enumerate(body) if isinstance(s, ast.If)]
    t = norm(fn)
    ok_src = "stages = execution.top_level_stages()" in t and "statuses = [s.status for s in stages]" in t
    rep.check(ok_src, "C05.R1", "the outcome is computed from the top-level stages' statuses", "statuses = [s.status for s in execution.top_level_stages()]", fi.file, fn.lineno, disc="source")
    from ..dom import expand_locals
    # a condition computed into a local first reads the same as the inline condition
    tests = [(i, norm(expand_locals(s_.test, fn, 1)) if isinstance(s_.test, ast.Name) else t_, s_) for i, t_, s_ in tests]
    first = tests[0] if tests else None
    ok = first is not None and first[1] in ("all((s in CONTINUABLE_STATUSES for s in statuses))", "all(s in CONTINUABLE_STATUSES for s in statuses)") and norm(first[2].body[0]) == "return WorkflowStatus.SUCCEEDED"
    rep.check(ok, "C05.R1", "SUCCEEDED requires every top-level stage continuable", "if all(s in CONTINUABLE_STATUSES for s in statuses): return SUCCEEDED (first test)", fi.file, first[2].lineno if first else fn.lineno, disc="all-continuable")
    term = [x for x in tests if x[1] == "WorkflowStatus.TERMINAL in statuses"]
    ok = bool(term) and norm(term[0][2].body[0]) == "return WorkflowStatus.TERMINAL" and all(x[0] >= term[0][0] or x is first for x in tests)
    # no non-SUCCEEDED-with-all-continuable return precedes it: TERMINAL test is the second test
    ok = ok and len(tests) > 1 and tests[1] is term[0]
    rep.check(ok, "C05.R1", "a TERMINAL stage makes the workflow TERMINAL", "second test: if TERMINAL in statuses: return TERMINAL", fi.file, term[0][2].lineno if term else fn.lineno, disc="terminal")
    # every other `return WorkflowStatus.SUCCEEDED` is a finding: the workflow is reported SUCCEEDED although not all stages are continuable
    for r in [n for n in ast.walk(fn) if isinstance(n, ast.Return) and n.value is not None and norm(n.value) == "WorkflowStatus.SUCCEEDED"]:
        if first is not None and r in first[2].body:
            continue
        guard = [x for x in tests if any(r is y for y in ast.walk(x[2]))]
        gtxt = guard[0][1] if guard else "?"
        rep.fail("C05.R1", "SUCCEEDED returned although a top-level stage is not continuable", f"`return SUCCEEDED` under `{gtxt}`: a stage that ended {gtxt.split('.')[1].split(' ')[0] if '.' in gtxt else '?'} (failPipeline=false) is not continuable, yet the workflow is reported SUCCEEDED",
                 fi.file, r.lineno, disc=f"succeeded-under:{gtxt}")
    # bounded re-queue
    lim = [x for x in tests if x[1] == "retry_count >= max_retries"]
    ok = bool(lim) and norm(lim[0][2].body[-1]) == "return WorkflowStatus.TERMINAL"
    rep.check(ok, "C05.R1", "the wait for unfinished stages is bounded", "if retry_count >= max_retries: return TERMINAL", fi.file, lim[0][2].lineno if lim else fn.lineno, disc="bounded")
    # the final `return None` is preceded - in the function itself or in a helper method it calls - by the delayed push of a
    # CompleteWorkflow whose retry_count is the incoming one + 1
    cls_ = prog.cls("stabilize.handlers.complete_workflow", "CompleteWorkflowHandler")

    def _requeues(stmts, depth=0) -> bool:
        txt = " ".join(norm(s_) for s_ in stmts)
        if "retry_count=retry_count + 1" in txt and "self.queue.push(" in txt and "self.retry_delay" in txt and "CompleteWorkflow(" in txt:
            return True
        if depth < 1:
            for s_ in stmts:
                for c_ in ast.walk(s_):
                    if isinstance(c_, ast.Call) and isinstance(c_.func, ast.Attribute) and isinstance(c_.func.value, ast.Name) and c_.func.value.id == "self":
                        h_ = prog.find_method(cls_, c_.func.attr)
                        if h_ is not None and "retry_count" in [norm(a_) for a_ in c_.args] + [k_.arg for k_ in c_.keywords] and _requeues(h_.node.body, depth + 1):
                            return True
        return False

    tail = body[-6:]
    tt = " ".join(norm(s) for s in tail)
    ok = _requeues(tail) and norm(body[-1]) == "return None"
    rep.check(ok, "C05.R1", "not ready: re-queue CompleteWorkflow with retry_count + 1, then None", tt[:120], fi.file, body[-1].lineno, disc="requeue")
    on = prog.func("stabilize.handlers.complete_workflow", "CompleteWorkflowHandler._handle_with_retry.on_execution").node
    g = [s for s in on.body if isinstance(s, ast.If) and norm(s.test) == "status is None" and isinstance(s.body[-1], ast.Return)]
    rep.check(bool(g), "C05.R1", "a None outcome leaves the workflow untouched", "if status is None: return", fi.file, g[0].lineno if g else on.lineno, disc="none")


# ---- R11 / R12 ---------------------------------------------------------------------------------------------------------
def _r11_incomplete_branches(ctx, rep) -> None:
    """`_other_branches_incomplete` decides whether a workflow with a STOPPED (failPipeline=false) stage may be finalised.
    Read as EXISTS stage: P(status, upstreams complete) and tabulated over every status member x {True, False}."""
    from ..stagepred import eval_pred, exists_predicate

    prog, T = ctx.prog, ctx.st
    rep.rule("C05.R11", "_other_branches_incomplete counts as unfinished: every RUNNING, SUSPENDED or PAUSED stage and every NOT_STARTED stage whose upstreams are complete (its StartStage is in flight); and no stage in a completed status")
    fi = prog.func("stabilize.handlers.complete_workflow", "CompleteWorkflowHandler._other_branches_incomplete")
    ep = exists_predicate(fi.node)
    if ep is None:
        raise AnalysisError("_other_branches_incomplete: not of the form `exists stage in stages: P(stage)` (for/if/return True, any(...), not all(...))")
    var, disj = ep
    table = {}
    for m in T.members:
        for U in (True, False):
            vals = [eval_pred(d, var, m, U, T) for d in disj]
            if any(v is True for v in vals):
                table[(m, U)] = True
            elif any(v is None for v in vals):
                raise AnalysisError(f"_other_branches_incomplete: a disjunct is not a predicate over (status, all_upstream_stages_complete()): {[norm(d) for d, v in zip(disj, vals) if v is None][0]}")
            else:
                table[(m, U)] = False
    must = [(m, U) for m in ("RUNNING", "SUSPENDED", "PAUSED") for U in (True, False)] + [("NOT_STARTED", True)]
    why = {"RUNNING": "the stage is executing", "SUSPENDED": "the stage waits for its signal and resumes when it arrives", "PAUSED": "the stage resumes when the workflow is resumed",
           "NOT_STARTED": "all of its upstreams are complete, so its StartStage is queued or about to be: the branch is between two stages"}
    for m, U in must:
        if m != "NOT_STARTED" and U is False:
            continue
        ok = table[(m, U)] and (m == "NOT_STARTED" or table[(m, False)])
        rep.check(ok, "C05.R11", f"a {m} stage{' with complete upstreams' if m == 'NOT_STARTED' else ''} keeps the workflow open", f"P({m}) = {table[(m, U)]}" + ("" if ok else
                  f": {why[m]}, yet a workflow with a STOPPED stage is finalised SUCCEEDED over it - the stage is then cancelled / its work never runs"), fi.file, fi.node.lineno, disc=f"incomplete:{m}")
    done = sorted(m for m in T.complete if table[(m, True)] or table[(m, False)])
    rep.check(not done, "C05.R11", "a finished stage does not keep the workflow open", "P(m) = False for every completed status" if not done else f"P is true for completed statuses {done}: CompleteWorkflow is re-queued until its budget is spent and the workflow ends TERMINAL",
              fi.file, fi.node.lineno, disc="incomplete:completed")
    # the helper is what guards the STOPPED branch
    df = prog.func("stabilize.handlers.complete_workflow", "CompleteWorkflowHandler._determine_final_status").node
    from ..dom import conditions_at
    rets = [r for r in ast.walk(df) if isinstance(r, ast.Return) and r.value is not None and norm(r.value) in ("WorkflowStatus.SUCCEEDED",)]
    guarded = 0
    for r in rets:
        cs = conditions_at(df, r)
        if any("WorkflowStatus.STOPPED in" in t and tr for t, tr in cs):
            ok = any("_other_branches_incomplete(" in t and not tr for t, tr in cs)
            guarded += 1
            rep.check(ok, "C05.R11", "SUCCEEDED over a STOPPED stage only when no other branch is unfinished", "return SUCCEEDED under `not self._other_branches_incomplete(stages)`" if ok else "the STOPPED branch returns SUCCEEDED without consulting _other_branches_incomplete",
                      fi.file, r.lineno, disc="incomplete:guard")


def _r12_after_stage_gate(ctx, rep) -> None:
    """CompleteStage starts pre-declared after-stages when the stage's core work (tasks + before-stages) is finished without
    halting.  The same decision exists twice: on the stage-level status (`status.is_complete and not status.is_halt`) and, while
    the after-stages are still NOT_STARTED, element-wise on the core statuses.  Both must accept exactly the same statuses."""
    from ..dom import raw_conditions_at
    from ..statuspred import status_set

    prog, T = ctx.prog, ctx.st
    rep.rule("C05.R12", "CompleteStage: the element-wise 'core work done' gate for NOT_STARTED after-stages accepts exactly the statuses that are complete and not halting (the stage-level gate)")
    want = frozenset(T.complete) - frozenset(T.halt)
    cls = prog.cls("stabilize.handlers.complete_stage.handler", "CompleteStageHandler")
    n = 0
    for mname, mi in cls.methods.items():
        for fn in [x for x in ast.walk(mi.node) if isinstance(x, (ast.FunctionDef, ast.AsyncFunctionDef))]:
            for a in ast.walk(fn):
                if not (isinstance(a, ast.Assign) and isinstance(a.value, ast.Constant) and a.value.value is True and isinstance(a.targets[0], ast.Name)):
                    continue
                flag = a.targets[0].id
                # the flag must be the one that gates `first_after_stages()` handling
                uses = [i for i in ast.walk(fn) if isinstance(i, ast.If) and isinstance(i.test, ast.Name) and i.test.id == flag and "first_after_stages" in norm(i)]
                if not uses:
                    continue
                gates = []
                for t, truth in raw_conditions_at(fn, a):
                    for c in ast.walk(t):
                        if isinstance(c, ast.Call) and isinstance(c.func, ast.Name) and c.func.id == "all" and len(c.args) == 1 and isinstance(c.args[0], (ast.GeneratorExp, ast.ListComp)) and truth:
                            gates.append(c)
                if not gates:
                    continue
                for c in gates:
                    g = c.args[0].generators[0]
                    if not isinstance(g.target, ast.Name):
                        continue
                    pred = c.args[0].elt
                    for cond in g.ifs:
                        pred = ast.BoolOp(op=ast.And(), values=[cond, pred])
                    ss = None
                    for subject in (g.target.id, g.target.id + ".status"):
                        ss = status_set(pred, subject, T)
                        if ss is not None:
                            break
                    if ss is None:
                        raise AnalysisError(f"CompleteStage core-work gate `{norm(c)[:80]}` is not a status predicate")
                    n += 1
                    miss, extra = sorted(want - ss), sorted(ss - want)
                    ok = not miss and not extra
                    rep.check(ok, "C05.R12", "core-work gate for pre-declared after-stages", f"accepts {sorted(ss)}" + ("" if ok else
                              (f"; rejects {miss}: a stage whose task / before-stage ended in one of them never starts its NOT_STARTED after-stages - CompleteStage is dropped as stale and the stage stays RUNNING with nothing queued" if miss else "") +
                              (f"; also accepts {extra}: after-stages start while core work is unfinished or halted" if extra else "")), mi.file, c.lineno, disc="after-gate")
    if n == 0:
        raise AnalysisError("CompleteStage: the element-wise core-work gate (`all(<status predicate> for s in core)` setting the after-stage flag) was not found")


# ---- R13: a task result that CompleteTask does not continue from is always accompanied by the message that does --------------
def _eval3(e: ast.expr, subject: str, m: str, T):
    """three-valued truth of e for status m of `subject`; atoms that are not status predicates are unknown (None)"""
    from ..statuspred import status_set
    if isinstance(e, ast.UnaryOp) and isinstance(e.op, ast.Not):
        r = _eval3(e.operand, subject, m, T)
        return None if r is None else not r
    if isinstance(e, ast.BoolOp):
        vals = [_eval3(v, subject, m, T) for v in e.values]
        if isinstance(e.op, ast.And):
            return False if any(v is False for v in vals) else (None if any(v is None for v in vals) else True)
        return True if any(v is True for v in vals) else (None if any(v is None for v in vals) else False)
    ss = status_set(e, subject, T)
    return None if ss is None else (m in ss)


def _r13_redirect(ctx, rep) -> None:
    prog, T = ctx.prog, ctx.st
    rep.rule("C05.R13", "every task-result status for which CompleteTask stores the task and pushes nothing (REDIRECT: 'flow handled by JumpToStage') reaches CompleteTask only from a commit that also pushes JumpToStage")
    # A. statuses CompleteTask does not continue from
    ct = prog.cls("stabilize.handlers.complete_task", "CompleteTaskHandler")
    from ..statuspred import status_set
    nocont: set = set()
    where = None
    for mi in ct.methods.values():
        for i in ast.walk(mi.node):
            if not isinstance(i, ast.If):
                continue
            ss = status_set(i.test, "message.status", T)
            if ss is None or not i.body:
                continue
            leaves = isinstance(i.body[-1], ast.Return)
            pushes = any(isinstance(c, ast.Call) and isinstance(c.func, ast.Attribute) and c.func.attr in ("push_message", "push") for s in i.body for c in ast.walk(s))
            stores = any(isinstance(c, ast.Call) and isinstance(c.func, ast.Attribute) and c.func.attr == "store_stage" for s in i.body for c in ast.walk(s))
            if leaves and stores and not pushes:
                nocont |= set(ss)
                where = (mi.file, i.lineno)
    rep.count(completetask_no_continuation_statuses=len(nocont))
    if not nocont:
        rep.ok("C05.R13", "CompleteTask continues from every status", "no status-specific branch of CompleteTask stores without pushing", "src/stabilize/handlers/complete_task.py", 0)
        return
    # B. dispatch of the task result
    pr = prog.func("stabilize.handlers.run_task.result", "process_result")
    chain = []
    top = [s for s in pr.node.body if isinstance(s, ast.If) and status_set(s.test, "result.status", T) is not None or (isinstance(s, ast.If) and "result.status" in norm(s.test))]
    disp = None
    for s in pr.node.body:
        if isinstance(s, ast.If) and "result.status" in norm(s.test) and s.orelse:
            disp = s
    if disp is None:
        raise AnalysisError("process_result: the if/elif dispatch on result.status was not found")
    cur = disp
    while True:
        chain.append((cur.test, cur.body))
        if len(cur.orelse) == 1 and isinstance(cur.orelse[0], ast.If):
            cur = cur.orelse[0]
        else:
            chain.append((None, cur.orelse))
            break
    mod = prog.modules["stabilize.handlers.run_task.result"]
    n = 0
    for idx, (test, body) in enumerate(chain):
        reach = set()
        for m in T.members:
            if test is not None and _eval3(test, "result.status", m, T) is False:
                continue
            if any(t is not None and _eval3(t, "result.status", m, T) is True for t, _ in chain[:idx]):
                continue
            reach.add(m)
        callees = [norm(c.func) for s in body for c in ast.walk(s) if isinstance(c, ast.Call) and isinstance(c.func, ast.Name) and c.func.id in mod.functions]
        for cal in callees:
            fn = mod.functions[cal].node
            ctors = {}
            for c in ast.walk(fn):
                if isinstance(c, ast.Call) and isinstance(c.func, ast.Name) and c.func.id[:1].isupper() and any(k.arg == "execution_id" for k in c.keywords):
                    ctors.setdefault(c.func.id, []).append(c)
            for c in ctors.get("CompleteTask", []):
                st = [k.value for k in c.keywords if k.arg == "status"]
                if not st:
                    continue
                if norm(st[0]) == "result.status":
                    sent = set(reach)
                else:
                    from ..status_tables import _member_of
                    mm = _member_of(st[0])
                    sent = {mm} if mm else set(reach)
                bad = sorted(sent & nocont)
                n += 1
                ok = not bad or "JumpToStage" in ctors
                rep.check(ok, "C05.R13", f"{cal}: its CompleteTask carries only statuses CompleteTask continues from, or comes with JumpToStage", "JumpToStage pushed in the same commit" if ok and bad else ("never carries a status CompleteTask stops at" if ok else
                          f"`{cal}` is reached with result.status in {bad} (dispatch branch {idx + 1}) and pushes CompleteTask({bad[0]}) WITHOUT JumpToStage; CompleteTask stores the task {bad[0]} and pushes nothing "
                          f"({where[0]}:{where[1]}): the stage stays RUNNING with nothing queued"), pr.file, c.lineno, disc=f"redirect:{cal}:{'+'.join(bad)}")
    rep.floor("CompleteTask pushes of task results", n, 2)


# ---- R14: an error branch that hands its stage to CompleteStage fails it first ------------------------------------------------------
def _r14_error_branch_marks_failed(ctx, rep) -> None:
    """CompleteStage finalises a stage from determine_status(): a RUNNING stage whose tasks are NOT_STARTED is 'still in flight'
    and the message is consumed. An except-branch that stores the stage unchanged and pushes CompleteStage therefore wedges it
    (StartStage: a builder raising during planning). The branch must give the stage a halt status itself."""
    prog, T = ctx.prog, ctx.st
    rep.rule("C05.R14", "in the start_stage handlers every except-branch that stores a stage and pushes CompleteStage for it first gives it a halt status (validated setter): CompleteStage would otherwise compute RUNNING from the unplanned / NOT_STARTED tasks and drop the message")
    HALT = T.sets["HALT_STATUSES"]
    n = 0
    for f in prog.all_functions():
        if not f.module.name.startswith("stabilize.handlers.start_stage"):
            continue
        for h in [x for x in ast.walk(f.node) if isinstance(x, ast.ExceptHandler)]:
            for g in [x for x in ast.walk(h) if isinstance(x, (ast.FunctionDef, ast.AsyncFunctionDef))] + [h]:
                body_nodes = list(ast.walk(g))
                pushes = [c for c in body_nodes if isinstance(c, ast.Call) and isinstance(c.func, ast.Name) and c.func.id == "CompleteStage"]
                stores = [c for c in body_nodes if isinstance(c, ast.Call) and isinstance(c.func, ast.Attribute) and c.func.attr == "store_stage" and c.args and isinstance(c.args[0], ast.Name)]
                if not pushes or not stores or (g is h and any(isinstance(x, (ast.FunctionDef, ast.AsyncFunctionDef)) and any(p_ in list(ast.walk(x)) for p_ in pushes) for x in ast.walk(h))):
                    continue
                n += 1
                var = stores[0].args[0].id
                marks = [c for c in body_nodes if isinstance(c, ast.Call) and isinstance(c.func, ast.Attribute) and c.func.attr == "set_stage_status" and len(c.args) >= 2 and norm(c.args[0]) == var
                         and norm(c.args[1]).split(".")[-1] in HALT and getattr(c, "_ord", c.lineno) < getattr(stores[0], "_ord", stores[0].lineno)]
                ok = bool(marks)
                rep.check(ok, "C05.R14", f"{f.qualname}: error branch fails `{var}` before handing it to CompleteStage", f"set_stage_status({var}, {norm(marks[0].args[1])}) precedes the store" if ok else
                          f"`{var}` is stored as it was read (RUNNING after the claim, tasks NOT_STARTED) and CompleteStage is pushed: CompleteStage computes RUNNING from the tasks, treats the message as 'children still in flight' and drops it - "
                          "the stage stays RUNNING with an empty queue (a StageDefinitionBuilder that raises during planning)", f.file, stores[0].lineno, disc=f"error-branch-fails:{f.qualname}")
    rep.floor("except-branches of start_stage that push CompleteStage", n, 1)


# ---- R15: a StartStage that finds its stage halted hands the workflow to CompleteWorkflow ----------------------------------------------
def _r15_late_start_of_halted_stage(ctx, rep) -> None:
    """A stage can be halted before it starts (CancelRegion, an external CancelStage) - CancelStage pushes nothing. The upstream
    that finishes later pushes StartStage for it and, if it has no other downstream, nothing else. StartStage must therefore not
    simply ignore a halted stage: it is the last message of the chain and has to push CompleteWorkflow."""
    from ..dom import conditions_at
    prog = ctx.prog
    rep.rule("C05.R15", "_start_if_ready: on the branch taken for a stage that is neither NOT_STARTED nor RUNNING, CompleteWorkflow is pushed under `stage.status.is_halt` before the message is dropped")
    sir = prog.func("stabilize.handlers.start_stage.handler", "StartStageHandler._start_if_ready").node
    pushes = [c for c in ast.walk(sir) if isinstance(c, ast.Call) and isinstance(c.func, ast.Name) and c.func.id == "CompleteWorkflow"]
    from ..statuspred import status_set
    T = ctx.st
    HALT = T.sets["HALT_STATUSES"]
    ok = False
    for c in pushes:
        cs = conditions_at(sir, c)
        if not (("stage.status == WorkflowStatus.NOT_STARTED", False) in cs and ("stage.status == WorkflowStatus.RUNNING", False) in cs):
            continue
        # statuses under which this push happens: every status atom among the dominating conditions narrows the set; an atom that
        # is not a status predicate (a constant, another variable) makes the push conditional on something else -> not counted
        allowed, pure = frozenset(T.members), True
        for text, truth in cs:
            try:
                e = ast.parse(text, mode="eval").body
            except SyntaxError:
                pure = False
                continue
            ss = status_set(e, "stage.status", T)
            if ss is None:
                if "stage." not in text and "message" not in text and "readiness" not in text:
                    pure = False
                continue
            allowed = allowed & (ss if truth else frozenset(T.members) - ss)
        if pure and HALT <= allowed:
            ok = True
    ignores = [r for r in ast.walk(sir) if isinstance(r, ast.Return) and r.value is None and ("stage.status == WorkflowStatus.NOT_STARTED", False) in conditions_at(sir, r) and ("stage.status == WorkflowStatus.RUNNING", False) in conditions_at(sir, r)]
    if not ignores:
        raise AnalysisError("_start_if_ready: the 'already completed - ignore' return was not found")
    rep.check(ok, "C05.R15", "a late StartStage for a halted stage pushes CompleteWorkflow", "CompleteWorkflow under `stage.status.is_halt` on the already-completed branch" if ok else
              "the already-completed branch only returns: a stage canceled before it started (CancelRegion / CancelStage push nothing) swallows the StartStage of the upstream that finishes later - "
              "if that was the upstream's only downstream, nothing finalises the workflow", "src/stabilize/handlers/start_stage/handler.py", ignores[0].lineno, disc="late-start-halted")
