"""C02 - redelivery and reordering never change the result or repeat finished work.

Decided clauses:
  R1  durable duplicate check dominates dispatch (truth table over the extracted guard); handle() has one caller
  R2  entry guards by value-set: every effectful commit of a handler happens only when the addressed entity was
      read, in this activation, in the status the step starts from
  R3  a task is executed only from RunTask's RUNNING-guarded path; Task.execute has a closed set of callers
"""
from __future__ import annotations

import ast

from ..boolguard import dedup_guard_rule, post_mark_rule
from ..model import AnalysisError, norm
from ..paths import all_paths
from ..seqrules import atoms, commits_after_synthetic, path_infos, shape


def guards_table(T):
    ALL = frozenset(T.members)
    COMPLETED = T.sets["COMPLETED_STATUSES"]
    HALT = T.sets["HALT_STATUSES"]
    NOT_DONE = ALL - COMPLETED
    # handler -> list of (commit-shape predicate, entity kind, allowed pre-status set, label)
    any_ = lambda s: True  # noqa: E731
    return {
        "StartTaskHandler": [(any_, "task", frozenset({"NOT_STARTED"}), "only NOT_STARTED tasks are started")],
        "RunTaskHandler": [(any_, "task", frozenset({"RUNNING"}), "only RUNNING tasks are executed / completed")],
        "CompleteTaskHandler": [(any_, "task", frozenset({"RUNNING"}), "only RUNNING tasks are completed")],
        "CompleteStageHandler": [
            (lambda s: "store_stage" in s or "push:StartStage" in s or "push:ContinueParentStage" in s or "push:SkipStage" in s, "stage", frozenset({"RUNNING"}), "only a RUNNING stage is completed / triggers downstream"),
            (lambda s: "store_stage" not in s and ("push:CompleteWorkflow" in s or "push:CompleteStage" in s), "stage", frozenset(HALT), "an already halted stage only propagates completion"),
        ],
        "SkipStageHandler": [(any_, "stage", frozenset({"NOT_STARTED"}), "only NOT_STARTED stages are skipped")],
        "CancelStageHandler": [(any_, "stage", frozenset(NOT_DONE), "completed stages are not canceled again")],
        "CompleteWorkflowHandler": [(any_, "workflow", frozenset(NOT_DONE), "a completed workflow is not completed again")],
        "CancelWorkflowHandler": [(lambda s: "push:" in s or "store.cancel" in s, "workflow", frozenset(NOT_DONE), "a completed workflow is not canceled")],
        "StartWorkflowHandler": [(any_, "workflow", frozenset({"NOT_STARTED"}), "only NOT_STARTED workflows are started")],
        "ResumeStageHandler": [(any_, "stage", frozenset({"PAUSED"}), "only PAUSED stages are resumed")],
        "RestartStageHandler": [(any_, "stage", frozenset(COMPLETED), "only completed stages are restarted")],
        "PauseTaskHandler": [(any_, "task", frozenset(NOT_DONE), "completed tasks are not paused")],
        "SignalStageHandler": [(lambda s: "push:RunTask" in s or "push:StartStage" in s, "stage", frozenset({"SUSPENDED"}), "a signal resumes only a SUSPENDED stage")],
    }


def pre_statuses(pi, idx: int) -> dict:
    """(kind, oid) -> status set the own entity was read with, at commit idx."""
    c = pi.seq[idx]
    owns = ()
    if c.kind == "TXN":
        for e in pi.trace[: c.index + 1]:
            if e.kind == "txn_begin":
                owns = e.get("owns") or ()
    elif c.event is not None:
        owns = c.event.get("owns") or ()
    pre: dict = {}
    for k, m, oid in owns:
        pre[(k, oid)] = frozenset(m)
    written: set = set()
    for e in pi.trace[: c.index]:
        if e.kind == "status_write" and e.get("own"):
            key = (e.get("okind"), str(e.get("oid")))
            if key not in written:
                written.add(key)
                pre[key] = frozenset(e.get("frm"))
    return pre


def run(ctx, rep) -> None:
    prog, T = ctx.prog, ctx.st
    rep.rule("C02.R1", "the store's processed-record is consulted before dispatch unless the in-memory filter is trusted, authoritative and negative; handler.handle has exactly one caller")
    rep.rule("C02.R2", "every effectful commit of a handler is reached only with the addressed entity read in the step's start status (table per handler, statuses from models/status.py)")
    rep.rule("C02.R3", "execute_with_timeout only under task RUNNING, workflow not canceled / not complete; Task.execute called only from the execution wrappers")
    rep.rule("C02.R4", "task-level messages (StartTask / RunTask / CompleteTask) identify the loop iteration they belong to, and the receiver compares it with the stage's: a status guard alone cannot tell an old message from the current one once a jump re-armed the task")
    rep.undecided += ["outcome equality under every permutation / duplication of deliveries", "at most once per loop iteration beyond the claim CAS (C04)"]
    rep.assumptions += ["the status guard is evaluated on an entity re-read from the store in the same activation (checked: own-entity origin)"]
    dedup_guard_rule(ctx, rep, "C02.R1")
    post_mark_rule(ctx, rep, "C02.R1")
    # T-WHO: handler.handle( callers
    callers = []
    for f in prog.all_functions():
        for n in ast.walk(f.node):
            if isinstance(n, ast.Call) and isinstance(n.func, ast.Attribute) and n.func.attr == "handle" and len(n.args) == 1 and not n.keywords:
                callers.append((f, n))
    for f, n in callers:
        ok = f.qualname in ("QueueProcessorMixin._handle_message", "QueueProcessor.register_handler_func.FuncHandler.handle")
        rep.check(ok, "C02.R1", f"handle() called from {f.qualname}", "dispatch only through _handle_message (behind the duplicate check)", f.file, n.lineno, disc=f.qualname)
    rep.floor("handle() call sites", len(callers), 1)

    res = all_paths(ctx)
    infos = [p for p in path_infos(res) if p.message]
    table = guards_table(T)
    checked = 0
    seen: set = set()
    for pi in infos:
        rules = table.get(pi.handler)
        if not rules:
            continue
        after_syn = commits_after_synthetic(pi)
        for i, c in enumerate(pi.seq):
            if i in after_syn:
                continue
            a = atoms(c)
            if not a or a == ("mark",) or any("Invalid" in x for x in a):
                continue
            cs = shape([c])
            pre = pre_statuses(pi, i)
            for pred, kind, allowed, label in rules:
                if not pred(cs):
                    continue
                cands = [m for (k, _), m in pre.items() if k == kind]
                ok = any(m <= allowed for m in cands)
                key = (pi.handler, cs, kind, ok, tuple(sorted(tuple(sorted(m)) for m in cands)))
                if key in seen:
                    continue
                seen.add(key)
                checked += 1
                best = min(cands, key=len) if cands else frozenset()
                rep.check(ok, "C02.R2", f"{pi.handler}:{cs}", f"{label}: {kind} read as {sorted(best) if len(best) < 12 else 'any status'}; required subset of {sorted(allowed)}",
                          c.site[0], c.site[1], disc=f"{cs}:{','.join(sorted(best)) if len(best) < 12 else 'ANY'}")
    rep.count(guard_instances=checked, handler_paths=len(infos))
    rep.floor("entry-guard instances", checked, 30)
    rep.floor("handlers with a guard table entry that have effectful commits", len({k[0] for k in seen}), 12)

    # ---- R4 iteration identity -----------------------------------------------------------------------
    # reset_stage_for_retry puts a task back to NOT_STARTED and the next iteration makes it RUNNING again: the statuses
    # the guards look at repeat. A message of the previous iteration that is still pending (its commit pushed it together
    # with the JumpToStage, or a sibling branch was re-armed under it) then passes the guard of the NEW iteration.
    msgs_mod = prog.module("stabilize.queue.messages")
    tl = msgs_mod.classes.get("TaskLevel") or msgs_mod.classes.get("CompleteTask")
    fields = set()
    if tl is not None:
        for c_ in prog.mro(tl):
            fields |= {norm(s_.target) for s_ in c_.node.body if isinstance(s_, ast.AnnAssign)}
    ident = sorted(f_ for f_ in fields if any(w_ in f_.lower() for w_ in ("iteration", "epoch", "generation", "attempt_of", "jump_count")))
    base_cls = prog.cls("stabilize.handlers.base", "StabilizeHandler")
    wt = base_cls.methods.get("with_task")
    compared = bool(ident) and wt is not None and any(f"message.{f_}" in norm(wt.node) for f_ in ident)
    rep.check(compared, "C02.R4", "task-level messages carry a loop-iteration identity that the receiver checks", f"field(s) {ident} compared in StabilizeHandler.with_task" if compared else
              f"TaskLevel messages have the fields {sorted(fields)} - nothing identifies the iteration, and with_task compares nothing but ids: a CompleteTask / StartTask / RunTask left over from the previous loop iteration is accepted by the "
              "re-armed task of the next one (its body is skipped or runs an extra time; the stage can stay RUNNING for good)", msgs_mod.relpath, tl.node.lineno if tl is not None else 0, disc="no-iteration-identity")

    # ---- R3 --------------------------------------------------------------------------------------
    rt = res["RunTaskHandler"]
    n_exec = 0
    for p in rt.paths:
        canceled = None
        for e in p.trace:
            if e.kind == "guard" and "is_canceled" in str(e.get("text")):
                canceled = e.get("truth")
            if e.kind == "call" and e.get("name") in ("execute_with_timeout", "on_timeout"):
                n_exec += 1
                tasks = [m for (_, k, m) in e.get("statuses") if k == "task"]
                wfs = [m for (_, k, m) in e.get("statuses") if k == "workflow"]
                t_ok = any(m == frozenset({"RUNNING"}) for m in tasks)
                w_ok = any(not (m & T.sets["COMPLETED_STATUSES"]) for m in wfs)
                c_ok = canceled is False
                rep.check(t_ok and w_ok and c_ok, "C02.R3", f"{e.get('name')} call", f"task RUNNING={t_ok}, workflow not complete={w_ok}, is_canceled decided False={c_ok}",
                          e.site[0], e.site[1], disc=f"{e.get('name')}:{t_ok}:{w_ok}:{c_ok}")
    rep.floor("execute_with_timeout / on_timeout call events on RunTask paths", n_exec, 2)
    allowed_exec = {"execute_with_timeout.execute_task", "execute_with_timeout", "ProcessIsolatedTaskExecutor", "_run_task_in_process", "TaskRegistry"}
    n = 0
    for f in prog.all_functions():
        for node in ast.walk(f.node):
            if isinstance(node, ast.Call) and isinstance(node.func, ast.Attribute) and node.func.attr == "execute" and isinstance(node.func.value, ast.Name) and node.func.value.id in ("task", "task_impl", "impl"):
                n += 1
                ok = f.module.name in ("stabilize.handlers.run_task.execution", "stabilize.resilience.process_executor", "stabilize.tasks.registry")
                rep.check(ok, "C02.R3", f"Task.execute called from {f.module.name}:{f.qualname}", "closed set of execution wrappers", f.file, node.lineno, disc=f"{f.module.name}:{f.qualname}")
    rep.floor("Task.execute call sites", n, 2)

    # ---- R5: a REDIRECT result hands the flow to the jump ----------------------------------------------------------------------------
    # RunTask commits {JumpToStage, CompleteTask(REDIRECT)} together; their delivery order is free. When CompleteTask(REDIRECT) comes
    # first, nothing of the abandoned iteration may be continued (no StartTask for the stage's next task, no CompleteStage): the jump
    # re-arms or closes the stage. So every CompleteTask path that pushes StartTask / CompleteStage has decided "status is not REDIRECT".
    from ..handlers import registered_handlers
    from ..paths import BASE, Config, probe
    rep.rule("C02.R5", "CompleteTask pushes StartTask / CompleteStage only on paths that decided `message.status == REDIRECT` False (a redirecting task's remaining tasks are not started: the JumpToStage committed with it owns the flow, whichever of the two is delivered first)")
    h_ct = next(h for h in registered_handlers(prog) if h.cls.name == "CompleteTaskHandler")
    g_txt = "message.status == WorkflowStatus.REDIRECT"
    cfg = Config(watch=BASE.watch, guards=frozenset({g_txt}), path_cap=30000)
    pr = probe(ctx, "CompleteTaskHandler:redirect", h_ct.cls.module.name, "CompleteTaskHandler.handle", {"message": ("message", h_ct.message)}, cfg, (h_ct.cls.module.name, "CompleteTaskHandler"))
    n_r = n_true = 0
    seen5: set = set()
    for pi in path_infos({"CompleteTaskHandler": pr}):
        if pi.outcome != "return":
            continue
        decided = [e.get("truth") for e in pi.trace if e.kind == "guard" and g_txt in str(e.get("raw") or e.get("text"))]
        if decided and decided[-1]:
            n_true += 1
        cont = sorted({str(x.get("cls")) for c in pi.seq for x in c.effects if x.kind == "push" and str(x.get("cls")) in ("StartTask", "CompleteStage")})
        if not cont:
            continue
        n_r += 1
        ok = bool(decided) and decided[-1] is False
        key = (pi.shape, ok, tuple(decided))
        if key in seen5:
            continue
        seen5.add(key)
        rep.check(ok, "C02.R5", f"CompleteTask path {pi.shape}", "reached with `status == REDIRECT` decided False" if ok else
                  f"pushes {cont} " + ("with `status == REDIRECT` decided TRUE" if decided else "without ever testing `status == REDIRECT`") + ": when CompleteTask(REDIRECT) is delivered before the JumpToStage committed with it, "
                  "the rest of the abandoned iteration is started - and runs again after the jump", pi.where()[0], pi.where()[1], disc=f"redirect-continues:{pi.shape}")
    rep.floor("CompleteTask paths that continue the stage", n_r, 2)
    rep.floor("CompleteTask paths taken for a REDIRECT result", n_true, 1)

    # ---- R6: what a stage inherits does not depend on which branch finished first ---------------------------------------------------------
    # The ancestor merge may depend on the graph (ref ids, requisites) and on the outputs only. A run-time column that differs between
    # delivery schedules (end_time, start_time, status, version ...) in the query that feeds the merge makes the winner of a key written
    # by two parallel branches depend on the order in which their messages happened to be delivered.
    import re as _re
    from .. import sqlshape as _sq
    rep.rule("C02.R6", "get_merged_ancestor_outputs reads only schedule-independent columns (ref_id, requisite_stage_ref_ids, outputs): the order in which parallel ancestors are merged cannot depend on completion times / statuses")
    STATIC_COLS = {"ref_id", "requisite_stage_ref_ids", "outputs", "id", "parent_stage_id", "synthetic_stage_owner", "execution_id", "name", "type"}
    impls = [f for f in prog.all_functions() if f.qualname == "get_merged_ancestor_outputs" and f.module.name.startswith("stabilize.persistence") and (rep.tier == "thorough" or "postgres" not in f.module.name)]
    n6 = 0
    for f in impls:
        for s_ in [x for x in _sq.statements(prog) if x.func is f and x.kind == "SELECT"]:
            m_ = _re.search(r"select\s+(.*?)\s+from\s", " ".join(s_.text.split()), flags=_re.I | _re.S)
            cols = [c.strip().split(" as ")[0].split(".")[-1].lower() for c in m_.group(1).split(",")] if m_ else ["?"]
            n6 += 1
            extra = sorted(c for c in cols if c not in STATIC_COLS)
            rep.check(not extra, "C02.R6", f"{f.module.name.split('.')[-2]}: columns read for the ancestor merge", f"{cols}" + ("" if not extra else
                      f": {extra} differ between delivery schedules - if they order the merge, the value a join stage inherits for a key written by two parallel branches depends on which branch's messages were delivered first"),
                      s_.file, s_.line, disc=f"merge-columns:{f.module.name.split('.')[-2]}:{'+'.join(extra)}")
    rep.floor("SELECTs feeding the ancestor merge", n6, 1)

    # ---- R7: both delivery orders of {JumpToStage, CompleteTask(REDIRECT)} close the jumping task ------------------------------------------
    from ..statuspred import status_set as _ss7
    rep.rule("C02.R7", "reset_stage_to_succeeded converts every status the jumping task can have when the jump is handled: RUNNING (jump first) and the statuses CompleteTask stores without continuation (REDIRECT: CompleteTask first)")
    T7 = ctx.st
    ct_cls = prog.cls("stabilize.handlers.complete_task", "CompleteTaskHandler")
    nocont7: set = set()
    for mi in ct_cls.methods.values():
        for i in ast.walk(mi.node):
            if isinstance(i, ast.If) and i.body and isinstance(i.body[-1], ast.Return):
                ss = _ss7(i.test, "message.status", T7)
                if ss is None:
                    continue
                pushes = any(isinstance(c, ast.Call) and isinstance(c.func, ast.Attribute) and c.func.attr in ("push_message", "push") for s_ in i.body for c in ast.walk(s_))
                stores = any(isinstance(c, ast.Call) and isinstance(c.func, ast.Attribute) and c.func.attr == "store_stage" for s_ in i.body for c in ast.walk(s_))
                if stores and not pushes:
                    nocont7 |= set(ss)
    rs = prog.func("stabilize.handlers.jump_to_stage.reset", "reset_stage_to_succeeded")
    conv = None
    for lp in [x for x in ast.walk(rs.node) if isinstance(x, ast.For) and "tasks" in norm(x.iter)]:
        var = norm(lp.target)
        writes = [a for a in ast.walk(lp) if isinstance(a, ast.Assign) and norm(a.targets[0]) == f"{var}.status"]
        if not writes:
            continue
        from ..dom import raw_conditions_at as _rc7
        conv = frozenset(T7.members)
        for t_, tr_ in _rc7(rs.node, writes[0]):
            ss = _ss7(t_ if tr_ else ast.UnaryOp(op=ast.Not(), operand=t_), f"{var}.status", T7)
            if ss is not None:
                conv = conv & ss
    if conv is None:
        raise AnalysisError("reset_stage_to_succeeded: the loop that closes the stage's tasks was not found")
    need = {"RUNNING"} | nocont7
    missing = sorted(need - conv)
    rep.check(not missing, "C02.R7", "the forward jump closes its task in both delivery orders", f"converts tasks in {sorted(conv) if len(conv) < 12 else 'every status'}; needed {sorted(need)}" + ("" if not missing else
              f": a task left {missing} by the CompleteTask that overtook the jump stays {missing} in a SUCCEEDED stage - in-order delivery ends with the task SUCCEEDED"), rs.file, rs.node.lineno, disc="jump-closes-task")
