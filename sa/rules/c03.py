"""C03 - a stage never runs before its dependencies allow it.

The join evaluators of dag/readiness.py are pure functions whose only operations on the upstream stages are membership
tests of `upstream.status` in the status sets of models/status.py, collected into lists that are then tested for
emptiness / counted. That makes every `return READY` decidable by set algebra:

  collector  L = [u in DOMAIN | u.status in S_L]   (read off the loop that appends to L: the status predicates on the
             path to the append, intersected; elif/else branches subtract the earlier tests)
  `not L`    =>  every u in DOMAIN has status outside S_L
  len(L)>=n  =>  at least n stages of DOMAIN have status in S_L
  a return inside `for u in DOMAIN:` under `u.status in S` => some u in DOMAIN has status in S

  R1  AND join: READY only under `not L` with ALL - S_L <= CONTINUABLE over all upstreams; a halted upstream gives SKIP
      before any READY can be returned
  R2  OR join: same over the activated upstreams (DOMAIN = upstreams whose ref_id is in `_activated_branches`), AND-join
      when no activation was recorded
  R3  first-of (DISCRIMINATOR), MULTI_MERGE: READY only for an upstream whose status is in S <= CONTINUABLE;
      DISCRIMINATOR additionally only while `_join_fired` is unset
  R4  quorum (N_OF_M): READY only under len(L) >= stage.join_threshold with S_L <= CONTINUABLE and `_join_fired` unset;
      non-positive threshold degrades to the AND join
  R5  dispatch: every JoinType member reaches its evaluator, anything else the AND join; READY without looking at the
      upstreams only for jump_bypass or an empty upstream list
  R6  handler: tasks are planned only via _start_if_ready, called only under readiness.phase == READY on upstreams read
      from the store in the same activation; `_jump_bypass` is written only by JumpToStageHandler on the jump target
      and consumed by the activation that uses it
  R7  no handler commit that stores its own stage in a halt status pushes StartStage (a stage downstream of a halted
      stage is never started); downstream StartStage pushes of CompleteStage/SkipStage come with a continuable own status
"""
from __future__ import annotations

import ast

from ..model import AnalysisError, norm
from ..paths import all_paths
from ..seqrules import path_infos
from ..statuspred import status_set
from .c10 import _parents, _stmt_of, dominating_tests_raw

READY_MOD = "stabilize.dag.readiness"


class Collector:
    def __init__(self, name, domain, sset, line):
        self.name, self.domain, self.sset, self.line = name, domain, sset, line


def _domain_aliases(fn: ast.FunctionDef) -> dict:
    """name -> domain it is equal to up to None entries:  ups = [u for u in D if u is not None]"""
    al = {}
    for n in ast.walk(fn):
        if isinstance(n, ast.Assign) and len(n.targets) == 1 and isinstance(n.targets[0], ast.Name) and isinstance(n.value, ast.ListComp) and len(n.value.generators) == 1:
            g = n.value.generators[0]
            if isinstance(g.target, ast.Name) and norm(n.value.elt) == g.target.id and all(norm(c) == f"{g.target.id} is not None" for c in g.ifs):
                al[n.targets[0].id] = norm(g.iter)
    return al


def collectors(fn: ast.FunctionDef, T) -> dict:
    """list name -> Collector, from `for u in DOMAIN: ... if P(u.status): L.append(u.id)` loops"""
    out: dict = {}
    ALL = frozenset(T.members)
    aliases = _domain_aliases(fn)

    def walk(stmts, var, domain, cur: frozenset):
        prior = frozenset()       # union of the tests of earlier branches of an if/elif chain at this level
        for s in stmts:
            if isinstance(s, ast.If):
                t = norm(s.test)
                if t == f"{var} is None" and s.body and isinstance(s.body[-1], ast.Continue):
                    continue
                ss = status_set(s.test, f"{var}.status", T)
                if ss is None:
                    # unrelated test: both branches keep the current set (over-approximation of the collected set)
                    walk(s.body, var, domain, cur)
                    walk(s.orelse, var, domain, cur)
                    continue
                walk(s.body, var, domain, cur & ss)
                walk(s.orelse, var, domain, cur - ss)
            elif isinstance(s, ast.Expr) and isinstance(s.value, ast.Call) and isinstance(s.value.func, ast.Attribute) and s.value.func.attr == "append" and isinstance(s.value.func.value, ast.Name):
                name = s.value.func.value.id
                prev = out.get(name)
                sset = cur if prev is None else (prev.sset | cur)
                if prev is not None and prev.domain != domain:
                    domain_ = "?"
                else:
                    domain_ = domain
                out[name] = Collector(name, aliases.get(domain_, domain_), sset, s.lineno)

    for n in ast.walk(fn):
        if isinstance(n, ast.For) and isinstance(n.target, ast.Name):
            walk(n.body, n.target.id, norm(n.iter), ALL)
        # the same collector written as a comprehension: L = [u.id for u in DOMAIN if P(u.status)]
        if isinstance(n, (ast.Assign, ast.AnnAssign)) and isinstance(n.value, ast.ListComp) and len(n.value.generators) == 1:
            tgt = n.targets[0] if isinstance(n, ast.Assign) else n.target
            g = n.value.generators[0]
            if isinstance(tgt, ast.Name) and isinstance(g.target, ast.Name):
                var = g.target.id
                cur = ALL
                okc = True
                for c in g.ifs:
                    for leaf in (c.values if isinstance(c, ast.BoolOp) and isinstance(c.op, ast.And) else [c]):
                        if norm(leaf) == f"{var} is not None":
                            continue
                        ss = status_set(leaf, f"{var}.status", T)
                        if ss is None:
                            if f"{var}.status" in norm(leaf):
                                okc = False       # a status test this reader cannot evaluate: no collector
                            continue
                        cur = cur & ss
                if okc and tgt.id not in out:
                    out[tgt.id] = Collector(tgt.id, aliases.get(norm(g.iter), norm(g.iter)), cur, n.lineno)
    return out


def _phase_of(ret: ast.Return) -> str | None:
    v = ret.value
    if isinstance(v, ast.Call) and norm(v.func) == "ReadinessResult":
        for k in v.keywords:
            if k.arg == "phase":
                return norm(k.value).split(".")[-1]
    if isinstance(v, ast.Call) and isinstance(v.func, ast.Name) and v.func.id.startswith("_evaluate_"):
        return "->" + v.func.id + "(" + ", ".join(norm(a) for a in v.args) + ")"
    return None


def _returns(fn):
    return [(r, _phase_of(r)) for r in ast.walk(fn) if isinstance(r, ast.Return)]


def _enclosing_for(fn, node, par):
    cur = node
    while id(cur) in par:
        cur = par[id(cur)]
        if isinstance(cur, ast.For):
            return cur
        if cur is fn:
            break
    return None


def _doms(fn, node):
    """canonical (text, truth) facts that hold wherever node is reached (sa/dom.py)"""
    from ..dom import conditions_at
    return sorted(conditions_at(fn, node))


def _always_returns(stmts) -> bool:
    if not stmts:
        return False
    last = stmts[-1]
    if isinstance(last, (ast.Return, ast.Raise)):
        return True
    if isinstance(last, ast.If):
        return _always_returns(last.body) and _always_returns(last.orelse)
    return False


def _own_calls(g):
    """Call nodes of function g's own scope (nested defs are visited on their own)"""
    stack = list(ast.iter_child_nodes(g))
    while stack:
        n = stack.pop()
        if isinstance(n, (ast.FunctionDef, ast.AsyncFunctionDef, ast.Lambda, ast.ClassDef)):
            continue
        if isinstance(n, ast.Call):
            yield n
        stack.extend(ast.iter_child_nodes(n))


def run(ctx, rep) -> None:
    prog, T = ctx.prog, ctx.st
    ALL = frozenset(T.members)
    CONT = T.sets["CONTINUABLE_STATUSES"]
    HALT = T.sets["HALT_STATUSES"]
    rep.rule("C03.R1", "AND join: READY => every upstream continuable (collector algebra); a halted upstream returns SKIP first")
    rep.rule("C03.R2", "OR join: the AND rule over the upstreams named in _activated_branches; no activation recorded => AND join")
    rep.rule("C03.R3", "DISCRIMINATOR / MULTI_MERGE: READY only for an upstream in a continuable status; DISCRIMINATOR only while _join_fired is unset")
    rep.rule("C03.R4", "N_OF_M: READY only under len(continuable upstreams) >= join_threshold and _join_fired unset; threshold <= 0 => AND join")
    rep.rule("C03.R5", "evaluate_readiness: one evaluator per JoinType member, default AND; unconditional READY only for jump_bypass or no upstreams")
    rep.rule("C03.R6", "StartStage: _start_if_ready only under readiness.phase == READY computed from upstreams read in this activation; _plan_stage only from _start_if_ready; _jump_bypass written only by the jump, deleted when used")
    rep.rule("C03.R7", "no commit that stores the handler's own stage in a halt status pushes StartStage")
    rep.undecided += ["that the store read of the upstreams is not stale at the time of the claim (C04 decides the claim CAS; an upstream cannot leave a continuable status except by a jump re-arm)",
                      "ordering of task executions against upstream completion under every schedule (behavioural)"]
    mod = prog.module(READY_MOD)

    def fn_of(name):
        f = mod.functions.get(name)
        if f is None:
            raise AnalysisError(f"{name} not found in dag/readiness.py")
        return f

    def ready_returns(f):
        return [(r, ph) for r, ph in _returns(f.node) if ph == "READY"]

    def check_all_continuable(rid, label, f, domain_pred, allow_empty_domain_var=None):
        """every READY return is under `not L` with ALL - S_L <= CONT over a domain accepted by domain_pred (or under `not DOMAINVAR`)"""
        cs = collectors(f.node, T)
        rr = ready_returns(f)
        rep.floor(f"{label}: READY returns", len(rr), 1)
        for r, _ in rr:
            doms = _doms(f.node, r)
            ok = False
            why = f"dominating tests {doms}"
            for text, truth in doms:
                if truth is False and text in cs:
                    c = cs[text]
                    if domain_pred(c.domain) and (ALL - c.sset) <= CONT:
                        ok = True
                        why = f"under `not {text}`: {text} collects {c.domain} with status in {sorted(c.sset)[:4]}.. so every one of them is in {sorted(ALL - c.sset)}"
                if allow_empty_domain_var and truth is False and text == allow_empty_domain_var:
                    ok = True
                    why = f"under `not {text}`: nothing to wait for"
            rep.check(ok, rid, f"{label}: READY implies every relevant upstream continuable", why if ok else "READY is returned on a path that does not establish that all relevant upstream stages are in a continuable status: " + why, f.file, r.lineno, disc=f"{label}:ready:{'ok' if ok else norm(r)[:30]}")
        # SKIP for a halted upstream precedes READY
        skips = [(r, ph) for r, ph in _returns(f.node) if ph == "SKIP"]
        ok = False
        for r, _ in skips:
            for text, truth in _doms(f.node, r):
                if truth is True and text in cs and domain_pred(cs[text].domain) and cs[text].sset == HALT and all(r.lineno < rr_.lineno for rr_, _ in rr if not any(t_ == allow_empty_domain_var and tr_ is False for t_, tr_ in _doms(f.node, rr_))):
                    ok = True
        rep.check(ok, rid, f"{label}: a halted upstream gives SKIP before READY is considered", "if <stages in HALT_STATUSES>: return SKIP precedes the READY return", f.file, skips[0][0].lineno if skips else f.node.lineno, disc=f"{label}:skip-first")

    # ---- R1 AND -----------------------------------------------------------------------------------------------
    fa = fn_of("_evaluate_and_join")
    check_all_continuable("C03.R1", "AND", fa, lambda d: d == "upstream_stages")

    # ---- R2 OR ------------------------------------------------------------------------------------------------
    fo = fn_of("_evaluate_or_join")
    t = norm(fo.node).replace('"', "'")
    act = [s for s in ast.walk(fo.node) if isinstance(s, (ast.Assign, ast.AnnAssign)) and norm(s.targets[0] if isinstance(s, ast.Assign) else s.target) == "activated_branches"]
    ok = bool(act) and norm(act[0].value).replace('"', "'") == "stage.context.get('_activated_branches')"
    deleg = [(r, ph) for r, ph in _returns(fo.node) if ph == "->_evaluate_and_join(stage, upstream_stages)"]
    ok = ok and bool(deleg) and ("activated_branches is None", True) in _doms(fo.node, deleg[0][0])
    rep.check(ok, "C03.R2", "OR: no recorded activation falls back to the AND join on the same upstreams", "activated_branches = stage.context.get('_activated_branches'); if None: return _evaluate_and_join(stage, upstream_stages)", fo.file, fo.node.lineno, disc="or-fallback")
    rel = [s for s in ast.walk(fo.node) if isinstance(s, ast.Assign) and norm(s.targets[0]) == "relevant_upstreams" and isinstance(s.value, ast.ListComp)]
    ok = False
    if rel:
        g = rel[0].value.generators[0]
        conds = [norm(c) for c in g.ifs]
        flat = " and ".join(conds)
        ok = norm(g.iter) == "upstream_stages" and norm(rel[0].value.elt) == norm(g.target) and f"{norm(g.target)}.ref_id in activated_set" in flat and "activated_set = set(activated_branches)" in t \
            and all(c_ in (f"{norm(g.target)} is not None", f"{norm(g.target)}.ref_id in activated_set") for c in g.ifs for c_ in ([norm(v) for v in c.values] if isinstance(c, ast.BoolOp) else [norm(c)]))
    rep.check(ok, "C03.R2", "OR: the relevant upstreams are exactly those named in _activated_branches", "relevant_upstreams = [u for u in upstream_stages if u.ref_id in set(activated_branches)]", fo.file, rel[0].lineno if rel else fo.node.lineno, disc="or-domain")
    check_all_continuable("C03.R2", "OR", fo, lambda d: d == "relevant_upstreams", allow_empty_domain_var="relevant_upstreams")

    # ---- R3 first-of / multi-merge -----------------------------------------------------------------------------
    for name, label, need_unfired in (("_evaluate_discriminator", "DISCRIMINATOR", True), ("_evaluate_multi_merge", "MULTI_MERGE", False)):
        f = fn_of(name)
        par = _parents(f.node)
        rr = ready_returns(f)
        rep.floor(f"{label}: READY returns", len(rr), 1)
        for r, _ in rr:
            loop = _enclosing_for(f.node, r, par)
            ok = False
            why = "READY outside a loop over the upstreams"
            if loop is not None and norm(loop.iter) == "upstream_stages" and isinstance(loop.target, ast.Name):
                var = loop.target.id
                acc = ALL
                for test, truth in dominating_tests_raw(f.node, _stmt_of(f.node, r)):
                    ss = status_set(test, f"{var}.status", T)
                    if ss is not None:
                        acc = acc & (ss if truth else ALL - ss)
                ok = acc <= CONT and acc != ALL
                why = f"returned for an upstream whose status is in {sorted(acc)}"
            fired_ok = True
            if need_unfired:
                doms = _doms(f.node, r)
                jf = [s for s in ast.walk(f.node) if isinstance(s, ast.Assign) and norm(s.targets[0]) == "join_fired"]
                fired_ok = ("join_fired", False) in doms and bool(jf) and norm(jf[0].value).replace('"', "'") == "stage.context.get('_join_fired', False)"
                why += f"; _join_fired unset on this path={fired_ok}"
            rep.check(ok and fired_ok, "C03.R3", f"{label}: READY only for a continuable upstream" + (" while the join has not fired" if need_unfired else ""), why, f.file, r.lineno, disc=f"{label}:ready")

    # ---- R4 N_OF_M ----------------------------------------------------------------------------------------------
    fnm = fn_of("_evaluate_n_of_m")
    cs = collectors(fnm.node, T)
    rr = ready_returns(fnm)
    rep.floor("N_OF_M: READY returns", len(rr), 1)
    thr = [s for s in ast.walk(fnm.node) if isinstance(s, ast.Assign) and norm(s.targets[0]) == "threshold"]
    thr_ok = bool(thr) and norm(thr[0].value) == "stage.join_threshold"
    for r, _ in rr:
        doms = _doms(fnm.node, r)
        ok = False
        why = f"dominating tests {doms}"
        for text, truth in doms:
            for cname, c in cs.items():
                if truth is True and text in (f"len({cname}) >= threshold", f"threshold <= len({cname})") and c.domain == "upstream_stages" and c.sset <= CONT:
                    ok = True
                    why = f"under `{text}`: {cname} collects upstreams with status in {sorted(c.sset)}"
        unfired = ("join_fired", False) in doms
        rep.check(ok and unfired and thr_ok, "C03.R4", "N_OF_M: READY needs join_threshold continuable upstreams and an unfired join", why + f"; threshold = stage.join_threshold: {thr_ok}; _join_fired unset: {unfired}", fnm.file, r.lineno, disc="nofm:ready")
    deleg = [(r, ph) for r, ph in _returns(fnm.node) if ph == "->_evaluate_and_join(stage, upstream_stages)"]
    rep.check(bool(deleg) and ("threshold <= 0", True) in _doms(fnm.node, deleg[0][0]), "C03.R4", "N_OF_M: a non-positive threshold degrades to the AND join", "if threshold <= 0: return _evaluate_and_join(stage, upstream_stages)", fnm.file, deleg[0][0].lineno if deleg else fnm.node.lineno, disc="nofm:fallback")

    # ---- R5 dispatch --------------------------------------------------------------------------------------------
    fe = fn_of("evaluate_readiness")
    jt = None
    for m in prog.modules.values():
        if "JoinType" in m.classes and m.name.startswith("stabilize.models"):
            jt = m.classes["JoinType"]
    if jt is None:
        raise AnalysisError("JoinType enum not found")
    members = [norm(s.targets[0]) for s in jt.node.body if isinstance(s, ast.Assign)]
    want = {"OR": "_evaluate_or_join", "MULTI_MERGE": "_evaluate_multi_merge", "DISCRIMINATOR": "_evaluate_discriminator", "N_OF_M": "_evaluate_n_of_m", "AND": "_evaluate_and_join"}
    got = {}
    default = None
    for r, ph in _returns(fe.node):
        if ph and ph.startswith("->"):
            callee = ph[2:].split("(")[0]
            args = ph[ph.index("("):]
            doms = _doms(fe.node, r)
            sel = [t_.split("JoinType.")[-1] for t_, tr in doms if tr and t_.startswith("join_type == JoinType.")]
            if args != "(stage, upstream_stages)":
                rep.fail("C03.R5", f"dispatch to {callee}", f"called with {args} instead of (stage, upstream_stages)", fe.file, r.lineno, disc=f"dispatch-args:{callee}")
            if sel:
                got[sel[0]] = callee
            else:
                default = callee
    for m_ in members:
        target = got.get(m_, default)
        rep.check(target == want.get(m_), "C03.R5", f"JoinType.{m_} is evaluated by {want.get(m_)}", f"dispatches to {target}", fe.file, fe.node.lineno, disc=f"dispatch:{m_}")
    rep.floor("JoinType members", len(members), 5)
    jts = [s for s in ast.walk(fe.node) if isinstance(s, ast.Assign) and norm(s.targets[0]) == "join_type"]
    rep.check(bool(jts) and norm(jts[0].value) == "stage.join_type", "C03.R5", "dispatch is on the stage's own join type", "join_type = stage.join_type", fe.file, fe.node.lineno, disc="dispatch-source")
    for r, ph in ready_returns(fe):
        doms = _doms(fe.node, r)
        ok = ("jump_bypass", True) in doms or ("upstream_stages", False) in doms
        rep.check(ok, "C03.R5", "evaluate_readiness: unconditional READY only for a jump bypass or a stage without upstreams", f"dominating tests {doms}", fe.file, r.lineno, disc=f"uncond-ready:{doms[:1]}")

    # ---- R6 handler ---------------------------------------------------------------------------------------------
    SH = "stabilize.handlers.start_stage.handler"
    on = prog.func(SH, "StartStageHandler.handle.on_stage")
    calls = [c for c in ast.walk(on.node) if isinstance(c, ast.Call) and norm(c.func) == "self._start_if_ready"]
    rep.floor("_start_if_ready call sites in handle", len(calls), 1)
    for c in calls:
        doms = _doms(on.node, c)
        ok = ("readiness.phase == PredicatePhase.READY", True) in doms
        rep.check(ok, "C03.R6", "_start_if_ready is called only under readiness.phase == READY", f"dominating tests {[d for d in doms if 'readiness' in d[0]]}", on.file, c.lineno, disc="start-under-ready")
    rd = [s for s in ast.walk(on.node) if isinstance(s, ast.Assign) and norm(s.targets[0]) == "readiness"]
    ok = len(rd) == 1 and norm(rd[0].value) == "evaluate_readiness(stage, upstream_stages, jump_bypass=jump_bypass)"
    us = [s for s in ast.walk(on.node) if isinstance(s, ast.Assign) and norm(s.targets[0]) == "upstream_stages"]
    fresh = any(norm(s.value) == "self.repository.get_upstream_stages(stage.execution.id, stage.ref_id)" for s in us) and all(norm(s.value) in ("self.repository.get_upstream_stages(stage.execution.id, stage.ref_id)", "[]") for s in us)
    rep.check(ok and fresh, "C03.R6", "readiness is evaluated on upstreams read from the store in this activation", "upstream_stages = repository.get_upstream_stages(...); readiness = evaluate_readiness(stage, upstream_stages, jump_bypass=jump_bypass)", on.file, rd[0].lineno if rd else on.node.lineno, disc="fresh-upstreams")
    jb = [s for s in ast.walk(on.node) if isinstance(s, ast.Assign) and norm(s.targets[0]) == "jump_bypass"]
    ok = len(jb) == 1 and norm(jb[0].value).replace('"', "'") in ("bool(stage.context.get('_jump_bypass'))", "stage.context.get('_jump_bypass', False)")
    dels = [s for s in ast.walk(on.node) if isinstance(s, ast.Delete) and "_jump_bypass" in norm(s)] + [c for c in ast.walk(on.node) if isinstance(c, ast.Call) and norm(c.func) == "stage.context.pop" and "_jump_bypass" in norm(c)]
    rep.check(ok and bool(dels), "C03.R6", "the jump bypass comes from the stage's own context and is consumed by the activation that uses it", "jump_bypass = bool(stage.context.get('_jump_bypass')); del stage.context['_jump_bypass']", on.file, jb[0].lineno if jb else on.node.lineno, disc="bypass-consumed")
    # writers of _jump_bypass, callers of _start_if_ready / _plan_stage
    writers = []
    plan_callers = []
    sir_callers = []
    for f in prog.all_functions():
        if not f.module.name.startswith("stabilize."):
            continue
        for n in ast.walk(f.node):
            if isinstance(n, ast.Assign) and isinstance(n.targets[0], ast.Subscript) and isinstance(n.targets[0].slice, ast.Constant) and n.targets[0].slice.value == "_jump_bypass":
                writers.append((f, n))
            if isinstance(n, ast.Call) and isinstance(n.func, ast.Attribute) and n.func.attr == "_plan_stage":
                plan_callers.append((f, n))
            if isinstance(n, ast.Call) and isinstance(n.func, ast.Attribute) and n.func.attr == "_start_if_ready":
                sir_callers.append((f, n))
    seen_w = set()
    for f, n in writers:
        if (f.qualname, n.lineno) in seen_w:
            continue
        seen_w.add((f.qualname, n.lineno))
        # written onto the jump TARGET: directly on its context, or into the dict that the target mutation applies
        tgt_ = norm(n.targets[0].value)
        applied = False
        if tgt_ != "target_stage.context":
            for g_ in ast.walk(f.node):
                if isinstance(g_, ast.FunctionDef) and g_.name == "mutate_target":
                    for p_, d_ in zip(g_.args.args[len(g_.args.args) - len(g_.args.defaults):], g_.args.defaults):
                        if norm(d_) == tgt_ and any(isinstance(c_, ast.Call) and norm(c_.func).endswith(".context.update") and norm(c_.args[0]) == p_.arg for c_ in ast.walk(g_)):
                            applied = True
        ok = f.module.name == "stabilize.handlers.jump_to_stage.handler" and (tgt_ == "target_stage.context" or applied)
        rep.check(ok, "C03.R6", f"_jump_bypass written in {f.qualname}", "only the jump handler sets it, on the explicit jump target", f.file, n.lineno, disc=f"bypass-writer:{f.qualname}")
    rep.floor("_jump_bypass writers", len(seen_w), 1)
    # every dict that a jump applies to a stage OTHER than the target (source stage, skipped stages, synthetic children) has a
    # literal key set without `_jump_bypass`: a bypass marker on any other stage lets its next StartStage skip the join test
    jh = prog.func("stabilize.handlers.jump_to_stage.handler", "JumpToStageHandler._handle_with_retry.on_stage")
    n_upd = 0
    for g_ in ast.walk(jh.node):
        if not (isinstance(g_, ast.FunctionDef) and g_.name.startswith("mutate") and g_.name != "mutate_target"):
            continue
        params = g_.args.args
        for p_, d_ in zip(params[len(params) - len(g_.args.defaults):], g_.args.defaults):
            if not any(isinstance(c_, ast.Call) and norm(c_.func).endswith(".context.update") and c_.args and norm(c_.args[0]) == p_.arg for c_ in ast.walk(g_)):
                continue
            n_upd += 1
            src_defs = [a_.value for a_ in ast.walk(jh.node) if isinstance(a_, ast.Assign) and norm(a_.targets[0]) == norm(d_)] if isinstance(d_, ast.Name) else [d_]
            keys = None
            if len(src_defs) == 1 and isinstance(src_defs[0], ast.Dict) and all(isinstance(k_, ast.Constant) for k_ in src_defs[0].keys):
                keys = {k_.value for k_ in src_defs[0].keys}
            ok = keys is not None and "_jump_bypass" not in keys
            rep.check(ok, "C03.R6", f"{g_.name}: the keys a jump writes onto a stage other than its target never include _jump_bypass", f"literal keys {sorted(keys)}" if ok else
                      f"`{norm(d_)}` = `{norm(src_defs[0])[:110] if src_defs else '?'}` is not a literal key set (or contains _jump_bypass): the bypass marker can reach the jump's SOURCE stage, whose next StartStage "
                      "(a fan-in re-armed by a backward jump) then starts without waiting for its other upstreams", jh.file, g_.lineno, disc=f"bypass-leak:{g_.name}")
    rep.floor("jump mutations that update another stage's context", n_upd, 1)
    seen_c = set()
    for f, n in plan_callers:
        if (f.qualname, n.lineno) in seen_c:
            continue
        seen_c.add((f.qualname, n.lineno))
        rep.check(f.qualname.startswith("StartStageHandler._start_if_ready"), "C03.R6", f"_plan_stage called from {f.qualname}", "planning only inside _start_if_ready", f.file, n.lineno, disc=f"plan-caller:{f.qualname}")
    for f, n in sir_callers:
        if (f.qualname, n.lineno) in seen_c:
            continue
        seen_c.add((f.qualname, n.lineno))
        rep.check(f.qualname in ("StartStageHandler.handle.on_stage", "StartStageHandler.handle"), "C03.R6", f"_start_if_ready called from {f.qualname}", "only from the readiness-guarded activation", f.file, n.lineno, disc=f"sir-caller:{f.qualname}")

    # ---- R8: a stage blocked by a halted upstream never becomes continuable --------------------------------------------------
    # SKIPPED is a continuable status: a stage that is marked SKIPPED releases its own downstream. StartStage may therefore
    # push SkipStage only where readiness said READY (stage disabled by its own condition) - never in the SKIP phase, whose
    # meaning is "an upstream halted": the blocked stage must stay NOT_STARTED so that everything behind it stays blocked too.
    rep.rule("C03.R8", "StartStage constructs SkipStage / marks its stage SKIPPED only under readiness.phase == READY (inside _start_if_ready or under the READY test), never in the SKIP (upstream halted) phase")
    n8 = 0
    for f in prog.all_functions():
        if not f.module.name.startswith("stabilize.handlers.start_stage"):
            continue
        for g in [f.node] + [x for x in ast.walk(f.node) if isinstance(x, (ast.FunctionDef, ast.AsyncFunctionDef)) and x is not f.node]:
            for c in _own_calls(g):
                is_skip_msg = isinstance(c.func, ast.Name) and c.func.id == "SkipStage"
                is_skip_write = isinstance(c.func, ast.Attribute) and c.func.attr == "set_stage_status" and len(c.args) >= 2 and norm(c.args[1]) == "WorkflowStatus.SKIPPED"
                if not (is_skip_msg or is_skip_write):
                    continue
                n8 += 1
                inside_sir = f.qualname.startswith("StartStageHandler._start_if_ready") or g.name == "_start_if_ready"
                doms = _doms(g, c)
                under_ready = ("readiness.phase == PredicatePhase.READY", True) in doms
                under_skip = ("readiness.phase == PredicatePhase.SKIP", True) in doms
                ok = (inside_sir or under_ready) and not under_skip
                what = "SkipStage pushed" if is_skip_msg else "stage marked SKIPPED"
                rep.check(ok, "C03.R8", f"{f.qualname}: {what} only for a READY stage", "inside _start_if_ready (called under READY only, R6)" if inside_sir else f"dominating tests {[d for d in doms if 'readiness' in d[0]]}" + ("" if ok else
                          ": in the SKIP phase an upstream has halted - turning the blocked stage SKIPPED (continuable) releases its downstream, which then runs although it is transitively behind a halted stage"),
                          f.file, c.lineno, disc=f"skip-only-ready:{f.qualname}:{g.name}")
    rep.floor("SkipStage / SKIPPED sites in start_stage", n8, 2)

    # ---- R7 paths ---------------------------------------------------------------------------------------------
    res = all_paths(ctx)
    n7 = 0
    seen = set()
    for pi in path_infos(res):
        if not pi.message:
            continue
        for c in pi.seq:
            if c.kind != "TXN":
                continue
            pushes = [e for e in c.effects if e.kind == "push" and e.get("cls") == "StartStage"]
            stores = [x for x in c.effects if x.kind == "store_stage" and x.get("own")]
            if not pushes or not stores:
                continue
            commit_ev = pi.trace[c.index]
            st_at = [m for (k, m, oid) in (commit_ev.get("owns") or ()) if k == "stage" and str(oid) == str(stores[-1].get("oid"))]
            if not st_at:
                continue
            final = st_at[0]
            n7 += 1
            key = (pi.handler, tuple(sorted(final)))
            if key in seen:
                continue
            seen.add(key)
            bad = final & HALT
            ok = not bad or len(final) > 6      # an unconstrained status (operator re-arm handlers) is not a halt store
            rep.check(ok, "C03.R7", f"{pi.handler}: StartStage pushed in a commit storing the own stage as {sorted(final) if len(final) <= 6 else 'any status'}", "own stage not halted" if ok else
                      f"the commit stores the handler's own stage in {sorted(bad)} and starts another stage: a stage downstream of a halted stage is started", c.site[0], c.site[1], disc=f"halt-push:{pi.handler}:{','.join(sorted(bad))}")
    rep.floor("commits pushing StartStage while storing the own stage", n7, 5)
