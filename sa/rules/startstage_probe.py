"""Shared probe of StartStageHandler._start_if_ready for C04 / C11 (ordering of claim, planning side effects, join flag)."""
from __future__ import annotations

from ..paths import Config, probe

CFG = Config(watch=frozenset({"_plan_stage", "_collect_start_messages", "_cancel_deferred_choice_siblings"}), ctx_keys=frozenset({"_join_fired"}), guards=frozenset({"stage.mutex_key", "stage.deferred_choice_group"}), muted=frozenset({"except"}))
MOD = "stabilize.handlers.start_stage.handler"


def start_if_ready_paths(ctx):
    cached = getattr(ctx, "_sir", None)
    if cached is None:
        cached = probe(ctx, "StartStageHandler._start_if_ready", MOD, "StartStageHandler._start_if_ready", {"message": ("message", "StartStage")}, CFG, self_cls=(MOD, "StartStageHandler"))
        ctx._sir = cached
    return cached


def timeline(p) -> list:
    """Condensed ordered events of one path."""
    out = []
    for e in p.trace:
        if e.kind in ("txn_begin", "txn_commit", "txn_rollback", "store_stage", "call", "ctx", "push", "auto", "claim", "mark", "status_write"):
            out.append(e)
    return out
