"""Shared probe of StartStageHandler._start_if_ready for C04 / C11 (ordering of claim, planning side effects, join flag)."""
from __future__ import annotations

from ..paths import Config, probe

CFG = Config(watch=frozenset({"_plan_stage", "_collect_start_messages", "_cancel_deferred_choice_siblings"}), ctx_keys=frozenset({"_join_fired"}), guards=frozenset({"stage.mutex_key", "stage.deferred_choice_group"}), muted=frozenset({"except"}))
MOD = "stabilize.handlers.start_stage.handler"


def start_if_ready_paths(ctx):
    cached = getattr(ctx, "_sir", None)
    if cached is None:
        cached = probe(ctx, "StartStageHandler._start_if_ready", MOD, "StartStageHandler._start_if_ready", {"message": ("message", "StartStage")}, CFG, self_cls=(MOD, "StartStageHandler"))
        ctx._sir = cached
    return cached


def timeline(p) -> list:
    """Condensed ordered events of one path."""
    out = []
    for e in p.trace:
        if e.kind in ("txn_begin", "txn_commit", "txn_rollback", "store_stage", "call", "ctx", "push", "auto", "claim", "mark", "status_write"):
            out.append(e)
    return out


def join_fired_order(ctx):
    """-> (n_writes, bad_site): `_join_fired = True` must be written after the committed claim and before the plan store."""
    r = start_if_ready_paths(ctx)
    n_fired = 0
    bad_site = None
    for p in r.paths:
        tl = timeline(p)
        commits = [i for i, e in enumerate(tl) if e.kind == "txn_commit"]
        for i, e in enumerate(tl):
            if e.kind == "ctx" and e.get("key") == "_join_fired" and e.get("op") == "write":
                n_fired += 1
                claim_before = any(c < i for c in commits) and any(x.kind == "store_stage" and x.get("expected") is not None for x in tl[:i])
                early_plan = [x for x in tl[:i] if x.kind == "store_stage" and x.get("expected") is None]
                if not claim_before or early_plan:
                    bad_site = e.site
    return n_fired, bad_site
