"""C08 - queue: at-least-once delivery, one holder at a time, no message ever lost.

  R1  claim = conditional UPDATE on (id, version); the loser returns before touching the message
  R2  DLQ move / replay: DELETE..RETURNING + INSERT of the returned row, one commit; closed set of deleters
  R3  processor: ack only after the handler returned; reschedule frees the lock and keeps attempts; corrupt payloads go to the DLQ
  R4  the attempts-exhausted sweep is reachable and moves every selected row
  R5  the attempt limit is one quantity: poll's eligibility bound, the sweep's bound and the stored column agree
  R6  an unhandled message type raises (retried into the DLQ); every registered message type has a handler
"""
from __future__ import annotations

import ast
import re

from .. import sqlshape
from ..handlers import registered_handlers
from ..model import AnalysisError, norm
from ..sqlshape import DLQ_T, QUEUE_T

Q = "stabilize.queue.sqlite.queue"
D = "stabilize.queue.sqlite.dlq"


def _calls(node, name=None):
    for n in ast.walk(node):
        if isinstance(n, ast.Call):
            f = n.func
            nm = f.attr if isinstance(f, ast.Attribute) else (f.id if isinstance(f, ast.Name) else "")
            if name is None or nm == name:
                yield n


def _stmt_of(fn, call):
    """top-level statement index of `call` in fn.body"""
    for i, s in enumerate(fn.body):
        if any(c is call for c in ast.walk(s)):
            return i
    return -1


def run(ctx, rep) -> None:
    prog = ctx.prog
    thorough = rep.tier == "thorough"
    rep.rule("C08.R1", "poll_one: eligibility = due AND lock lapsed/NULL AND attempts < limit; claim UPDATE WHERE id AND version; commit; rowcount 0 -> return None before deserialising")
    rep.rule("C08.R2", "move_to_dlq / replay_dlq: DELETE..RETURNING then INSERT of the returned payload/type into the other table, no commit in between, one commit after; closed deleter set")
    rep.rule("C08.R3", "ack right after _handle_message returned; exception path reschedules (lock freed, attempts untouched); undecodable payload is moved to the DLQ")
    rep.rule("C08.R4", "_check_dlq is called from the poll loop and process_all; check_and_move_expired selects attempts >= limit and moves every row")
    rep.rule("C08.R5", "the limit used by poll, by the sweep and written to the max_attempts column by every INSERT into the queue is the same quantity")
    rep.rule("C08.R6", "_handle_message raises for an unregistered type; every class in MESSAGE_TYPES has a registered handler or diagnostic marker")
    rep.undecided += ["exclusivity under real interleavings (argument: CAS + SQLite writer serialisation)", "timing of lock expiry (datetime() has one-second granularity)"]
    stmts = [s for s in sqlshape.statements(prog) if sqlshape.is_sqlite(s)]
    qs = [s for s in stmts if s.table in (QUEUE_T, DLQ_T, "queue_messages")]
    rep.count(queue_statements=len(qs))
    rep.floor("statements on the queue / DLQ tables", len(qs), 14)

    # ---- R1 --------------------------------------------------------------------------------------------
    sqlshape.rule_lock_visibility(ctx, rep, "C08.R1")
    sqlshape.rule_timestamp_normalised(ctx, rep, "C08.R1")
    poll = prog.func(Q, "SqliteQueue.poll_one")
    ups = [s for s in qs if s.func is poll or s.func.qualname == "SqliteQueue.poll_one" and s.kind == "UPDATE"]
    ups = [s for s in ups if s.kind == "UPDATE"]
    if len(ups) != 1:
        raise AnalysisError("poll_one claim UPDATE not found")
    u = ups[0]
    rep.check(any(c == "id = :id" for c in u.where) and any(c == "version = :version" for c in u.where), "C08.R1", "claim UPDATE conditional on id and version", f"where: {u.where}", u.file, u.line, disc="where")
    rep.check(u.sets.get("version") in ("version+1", "version + 1") and u.sets.get("attempts") in ("attempts+1", "attempts + 1") and "locked_until" in u.sets, "C08.R1", "claim sets lock, attempts+1, version+1",
              f"sets: {u.sets}", u.file, u.line, disc="sets")
    # version parameter comes from the selected row
    ver_src = None
    for n in ast.walk(poll.node):
        if isinstance(n, ast.Assign) and isinstance(n.targets[0], ast.Name) and n.targets[0].id == u.params.get("version"):
            ver_src = norm(n.value)
    rep.check(ver_src in ('row["version"]', "row['version']"), "C08.R1", "claim version is the version that was read", f"version := {ver_src}", u.file, u.line, disc="version-src")
    sel = [s for s in qs if s.func.qualname == "SqliteQueue.poll_one" and s.kind == "SELECT"][0]
    rep.check("version" in sel.text.split("FROM")[0].lower(), "C08.R1", "eligibility SELECT reads the version", sel.text.strip().split("\n")[0][:80], sel.file, sel.line, disc="select-version")
    # path rule: the message is deserialised / recorded as pending / returned only on paths where the claim's rowcount was non-zero,
    # and the claim is committed before the outcome is used
    from ..paths import Config, probe

    pr_ = probe(ctx, "SqliteQueue.poll_one", Q, "SqliteQueue.poll_one", {}, Config(watch=frozenset({"deserialize_message", "commit", "execute"}), guards=frozenset({"*.rowcount == 0", "*.rowcount == 1", "*.rowcount != 0", "*.rowcount > 0"}), muted=frozenset({"except"})),
                self_cls=(Q, "SqliteQueue"))
    n_des = 0
    bad_path = None
    for p_ in pr_.paths:
        lost = None
        claimed = False
        committed = False
        for e in p_.trace:
            if e.kind == "call" and e.get("name") == "execute" and e.site[1] == u.line:
                claimed, committed, lost = True, False, None
            elif e.kind == "call" and e.get("name") == "commit" and claimed:
                committed = True
            elif e.kind == "guard" and ".rowcount " in str(e.get("text")):
                t_ = str(e.get("text"))
                lost = e.get("truth") if t_.endswith("== 0") else (not e.get("truth"))
            elif e.kind == "call" and e.get("name") == "deserialize_message":
                n_des += 1
                if not (claimed and committed and lost is False):
                    bad_path = (e.site, claimed, committed, lost)
    rep.check(bad_path is None and n_des > 0, "C08.R1", "loser returns before touching the message",
              f"{n_des} path(s) reach deserialize_message, all after a committed claim with rowcount != 0" if bad_path is None else
              f"deserialize_message reached with claim issued={bad_path[1]}, committed={bad_path[2]}, rowcount==0 decided {bad_path[3]}: a poller that lost the race still takes the message",
              poll.file, (bad_path[0][1] if bad_path else poll.node.lineno), disc="order")
    body = poll.node.body

    # ---- R2 --------------------------------------------------------------------------------------------
    for fname, src_t, dst_t in (("move_to_dlq", QUEUE_T, DLQ_T), ("replay_dlq", DLQ_T, QUEUE_T)):
        fn = prog.func(D, f"SqliteDLQMixin.{fname}")
        mine = [s for s in qs if s.func.qualname == f"SqliteDLQMixin.{fname}"]
        dele = [s for s in mine if s.kind == "DELETE" and s.table == src_t]
        ins = [s for s in mine if s.kind == "INSERT" and s.table == dst_t]
        if len(dele) != 1 or len(ins) != 1:
            rep.fail("C08.R2", f"{fname} statements", f"expected one DELETE on {src_t} and one INSERT into {dst_t}; found {[(s.kind, s.table) for s in mine]}", fn.file, fn.node.lineno, disc="stmts")
            continue
        d, i = dele[0], ins[0]
        rep.check(bool(d.returning) and any(c == "id = :id" for c in d.where), "C08.R2", f"{fname} DELETE ... RETURNING by id", f"where {d.where} returning {d.returning}", d.file, d.line, disc=f"{fname}:delete")
        pay = i.params.get("payload", "")
        typ = i.params.get("message_type", "")
        rep.check(pay in ('row["payload"]', "row['payload']") and typ in ('row["message_type"]', "row['message_type']"), "C08.R2", f"{fname} re-inserts the returned payload and type unchanged", f"payload := {pay}; message_type := {typ}",
                  i.file, i.line, disc=f"{fname}:payload")
        sd, si = _stmt_of(fn.node, d.node), _stmt_of(fn.node, i.node)
        commits = [k for k, s in enumerate(fn.node.body) if isinstance(s, ast.Expr) and norm(s).endswith(".commit()")]
        between = [k for k in commits if sd < k < si]
        after = [k for k in commits if k > si]
        n_commit = sum(1 for _ in _calls(fn.node, "commit"))
        rep.check(sd < si and not between and len(after) == 1 and n_commit == 1, "C08.R2", f"{fname}: delete and insert in one commit", f"delete@{sd} insert@{si} commits@{commits}", fn.file, fn.node.lineno, disc=f"{fname}:commit")
        # not-found early return happens before the insert and without a commit
        early = [s for s in fn.node.body[sd + 1:si] if isinstance(s, ast.If) and any(isinstance(x, ast.Return) for x in s.body)]
        rep.check(bool(early) and norm(early[0].test) == "not row", "C08.R2", f"{fname}: missing row returns without side effects", "if not row: return", fn.file, early[0].lineno if early else fn.node.lineno, disc=f"{fname}:early")
    sqlshape.rule_queue_deleters(ctx, rep, "C08.R2")

    # ---- R3 --------------------------------------------------------------------------------------------
    sqlshape.rule_ack_after_handle(ctx, rep, "C08.R3")
    rs = [s for s in qs if s.func.qualname == "SqliteQueue.reschedule" and s.kind == "UPDATE"]
    ok = len(rs) == 1 and rs[0].sets.get("locked_until") == "null" and "deliver_at" in rs[0].sets and "attempts" not in rs[0].sets and any(c == "id = :id" for c in rs[0].where)
    rep.check(ok, "C08.R3", "reschedule frees the lock, sets deliver_at, keeps attempts", f"sets: {rs[0].sets if rs else None}", rs[0].file if rs else "", rs[0].line if rs else 0, disc="reschedule")
    ack = [s for s in qs if s.func.qualname == "SqliteQueue.ack" and s.kind == "DELETE"]
    rep.check(len(ack) == 1 and ack[0].where == ["id = :id"], "C08.R3", "ack deletes exactly the acknowledged row", f"where: {ack[0].where if ack else None}", ack[0].file if ack else "", ack[0].line if ack else 0, disc="ack")
    # corrupt payload -> DLQ
    corrupt = [n for n in ast.walk(poll.node) if isinstance(n, ast.If) and norm(n.test) == "message is None"]
    ok = bool(corrupt) and any(True for _ in _calls(corrupt[0], "move_to_dlq")) and not any(True for _ in _calls(corrupt[0], "ack"))
    rep.check(ok, "C08.R3", "undecodable payload is moved to the DLQ", "if message is None: self.move_to_dlq(...)", poll.file, corrupt[0].lineno if corrupt else poll.node.lineno, disc="corrupt")
    # extend_lock only touches locked_until
    el = [s for s in qs if s.func.qualname == "SqliteQueue.extend_lock" and s.kind == "UPDATE"]
    rep.check(len(el) == 1 and list(el[0].sets) == ["locked_until"], "C08.R3", "extend_lock only renews the lock", f"sets: {el[0].sets if el else None}", el[0].file if el else "", el[0].line if el else 0, disc="extend")

    # ---- R4 --------------------------------------------------------------------------------------------
    pr = "stabilize.queue.processor.processor"
    for caller in ("QueueProcessor._poll_loop", "QueueProcessor.process_all"):
        fn = prog.func(pr, caller)
        rep.check(any(True for _ in _calls(fn.node, "_check_dlq")), "C08.R4", f"{caller} runs the DLQ sweep", "calls self._check_dlq()", fn.file, fn.node.lineno, disc=caller)
    cd = prog.func("stabilize.queue.processor.mixins", "QueueProcessorMixin._check_dlq")
    rep.check("check_and_move_expired" in norm(cd.node), "C08.R4", "_check_dlq delegates to check_and_move_expired", "", cd.file, cd.node.lineno, disc="delegate")
    cm = prog.func(D, "SqliteDLQMixin.check_and_move_expired")
    sw = [s for s in qs if s.func.qualname == "SqliteDLQMixin.check_and_move_expired" and s.kind == "SELECT"]
    if len(sw) != 1:
        raise AnalysisError("sweep SELECT not found")
    sweep = sw[0]
    loops = [n for n in ast.walk(cm.node) if isinstance(n, ast.For)]
    moves = bool(loops) and any(True for _ in _calls(loops[0], "move_to_dlq")) and not any(isinstance(x, (ast.Break, ast.Continue, ast.If)) for x in ast.walk(loops[0]))
    rep.check(moves, "C08.R4", "every selected row is moved", "for row in rows: self.move_to_dlq(row['id'], ...) unconditionally", cm.file, loops[0].lineno if loops else cm.node.lineno, disc="moves")
    wt = " and ".join(sweep.where)
    # poll refuses a row once attempts reached the limit - whatever its lock or delivery time - so the sweep must take EVERY such
    # row: any further conjunct (lock state, age, ...) leaves rows that are neither deliverable nor dead-lettered
    extra = [c for c in sweep.where if not re.fullmatch(r"\(?\s*attempts\s*>=\s*[:\w%()]+(\s+or\s+attempts\s*>=\s*[:\w%()]+)*\s*\)?", c.strip(), re.I)]
    rep.check(not extra, "C08.R4", "the sweep takes every attempts-exhausted row", "sole predicate: attempts >= limit" if not extra else
              f"additional conjunct(s) {extra}: a row that exhausted its attempts but does not satisfy them (e.g. it still carries the lapsed lock of a worker that died on the last attempt) is refused by poll and skipped by the sweep - stuck in the queue for good",
              sweep.file, sweep.line, disc="sweep-complete")
    rep.check(bool(re.search(r"attempts >= ", wt)) and "id" in sweep.text.lower().split("from")[0], "C08.R4", "sweep selects attempts-exhausted rows", f"where: {sweep.where}", sweep.file, sweep.line, disc="sweep-pred")

    # ---- R5 limit agreement ------------------------------------------------------------------------------
    att = [c for c in sel.where if c.startswith("attempts <")]
    poll_limit = None
    if att:
        m = re.match(r"attempts < :(\w+)", att[0])
        if m:
            poll_limit = sel.params.get(m.group(1))
    rep.check(poll_limit is not None, "C08.R5", "poll's attempt bound is a bound parameter", f"{att} -> {poll_limit}", sel.file, sel.line, disc="poll-limit")
    # sweep bound: parameter bound to the same quantity, or the row column
    sweep_params = [sweep.params.get(m) for m in re.findall(r"attempts >= :(\w+)", wt)]
    uses_column = bool(re.search(r"attempts >= max_attempts\b", wt))
    same_param = poll_limit is not None and poll_limit in sweep_params
    if same_param:
        rep.ok("C08.R5", "sweep bound = poll bound", f"sweep compares attempts with {poll_limit}", sweep.file, sweep.line)
    elif uses_column:
        # then every INSERT into the queue table must write the column from the poll quantity
        ins = [s for s in stmts if s.kind == "INSERT" and s.table in (QUEUE_T, "queue_messages")]
        for s in ins:
            if "max_attempts" in s.cols:
                v = s.vals[s.cols.index("max_attempts")]
                m = re.match(r":(\w+)", v)
                src = s.params.get(m.group(1)) if m else v
            else:
                src = "<column default>"
            ok = src == poll_limit
            rep.check(ok, "C08.R5", f"max_attempts column written by {s.func.qualname}",
                      f"poll gives up at {poll_limit}, the sweep compares attempts with the row's max_attempts column, and this INSERT writes {src} there: with a different queue limit the row is neither deliverable nor swept to the DLQ",
                      s.file, s.line, disc=f"{s.func.qualname}:{src}")
    else:
        rep.fail("C08.R5", "sweep bound", f"sweep predicate not recognised: {sweep.where}", sweep.file, sweep.line, disc="unrecognised")
    if thorough:
        # sibling: the Postgres sweep (queue/dlq.py) must use the same kind of bound as its poll
        pg = [s for s in sqlshape.statements(prog) if s.func.module.name == "stabilize.queue.dlq" and s.kind in ("SELECT", "DELETE", "UPDATE", "WITH") and "attempts" in s.text]
        rep.count(postgres_sweep_statements=len(pg))

    # ---- R6 --------------------------------------------------------------------------------------------
    hm = prog.func("stabilize.queue.processor.mixins", "QueueProcessorMixin._handle_message")
    raises = [n for n in ast.walk(hm.node) if isinstance(n, ast.If) and "is None" in norm(n.test) and "handler" in norm(n.test) and n.body and isinstance(n.body[-1], ast.Raise)]
    handle_line = min((c.lineno for c in _calls(hm.node, "handle")), default=10 ** 9)
    rep.check(bool(raises) and raises[0].lineno < handle_line, "C08.R6", "unregistered type raises before dispatch", "if handler is None: raise RuntimeError", hm.file, raises[0].lineno if raises else hm.node.lineno, disc="raise")
    mm = prog.module("stabilize.queue.messages")
    reg = mm.assigns.get("MESSAGE_TYPES")
    if not isinstance(reg, ast.Dict):
        raise AnalysisError("MESSAGE_TYPES not found")
    types = [norm(v) for v in reg.values]
    handled = {h.message for h in registered_handlers(prog)}
    for t in types:
        rep.check(t in handled, "C08.R6", f"message type {t} has a registered handler", "registered in _register_default_handlers", mm.relpath, reg.lineno, disc=t)
    rep.floor("message types", len(types), 23)
