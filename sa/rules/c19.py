"""C19 - what is stored or queued is read back unchanged.

  R1  writer table = reader table = schema for stages, tasks and workflows (fields, INSERT columns, parameter dict, DDL, row reads, constructor keywords)
  R2  per column the write codec and the read codec pair up
  R3  saving a stage alters nothing else: each UPDATE stage_executions sets only the mutable columns, each bound to the same-named attribute
  R4  tasks are read back in creation order (ORDER BY id)
  R5  messages: registry complete, the two serialisers agree, enum fields are restored, only base metadata is discarded
"""
from __future__ import annotations

import ast
import re

from .. import sqlshape
from ..handlers import registered_handlers
from ..model import AnalysisError, norm
from ..tables import all_fields, codec_of_read, codec_of_write, columns_feeding, ctor_call, dict_literal_return, resolve_local, row_reads

# model fields that are deliberately not columns of the entity's own table, with the reason
STAGE_EXEMPT = {
    "tasks": "stored in task_executions", "_execution": "back-reference", "output_reducers": "mirrored into context['_output_reducers'] by __post_init__",
    "cleanup_on_failure": "process-local finalizer registration", "finalizer_names": "process-local finalizer registration",
}
TASK_EXEMPT = {"_stage": "back-reference"}
WF_EXEMPT = {"stages": "stored in stage_executions", "config_version": "fingerprint attached at start, not persisted by the SQLite store"}
MUTABLE_STAGE_COLS = {"status", "context", "outputs", "start_time", "end_time", "version"}


def _param_map(stmt) -> dict:
    return dict(stmt.params)


def _payload_key(e):
    """'k' for data["k"] / data.get("k")"""
    if isinstance(e, ast.Subscript) and norm(e.value) == "data" and isinstance(e.slice, ast.Constant):
        return e.slice.value
    if isinstance(e, ast.Call) and norm(e.func) == "data.get" and e.args and isinstance(e.args[0], ast.Constant):
        return e.args[0].value
    return None


def run(ctx, rep) -> None:
    prog = ctx.prog
    rep.rule("C19.R1", "dataclass fields (minus listed exemptions) = INSERT columns = parameter keys = constructor keywords of the row converter ⊆ DDL columns, per entity")
    rep.rule("C19.R2", "json.dumps<->json.loads, Enum.name<->Enum[...], Enum.value<->Enum(...), list(set)<->set(list), 1 if b else 0<->bool()")
    rep.rule("C19.R3", "UPDATE stage_executions SET exactly {status, context, outputs, start_time, end_time, version}; every parameter is the same-named attribute of the one stage argument")
    rep.rule("C19.R4", "every SELECT from task_executions that builds stage.tasks has ORDER BY id ASC")
    rep.rule("C19.R5", "every Message subclass is registered under its own name; serialize_message and AtomicTransaction.push_message have the same encoding table; enum-typed fields are restored; discards are base metadata only")
    rep.undecided += ["value-level fidelity of JSON for arbitrary payloads (non-string dict keys, NaN, default=str stringification)"]
    stmts = [s for s in sqlshape.statements(prog) if sqlshape.is_sqlite(s)]
    ddl = {t.name: t for t in sqlshape.ddl(prog) if t.module == "stabilize.persistence.sqlite.schema"}
    conv = prog.module("stabilize.persistence.sqlite.converters")

    def entity(label, model_mod, model_cls, ins_pred, reader_name, table, exempt, extra_cols=()):
        ci = prog.cls(model_mod, model_cls)
        fields = set(all_fields(prog, ci))
        ins = [s for s in stmts if s.kind == "INSERT" and s.table == table and ins_pred(s)]
        if len(ins) != 1:
            raise AnalysisError(f"{label}: INSERT into {table} not found uniquely ({len(ins)})")
        ins = ins[0]
        cols = set(ins.cols)
        params = _param_map(ins)
        if "*" in params:
            # parameters come from a dict-returning helper, e.g. execution_to_dict(execution)
            helper = params["*"].split("(")[0]
            hf = conv.functions.get(helper)
            d = dict_literal_return(hf.node) if hf else None
            if d is None:
                raise AnalysisError(f"{label}: parameter helper {helper} not recognised")
            params = {k.value: norm(v) for k, v in zip(d.keys, d.values) if isinstance(k, ast.Constant)}
        reader = conv.functions.get(reader_name)
        if reader is None:
            raise AnalysisError(f"{reader_name} not found")
        reads = row_reads(reader.node)
        call = ctor_call(reader.node, model_cls)
        if call is None:
            raise AnalysisError(f"{reader_name}: constructor call not found")
        kws = {k.arg: k.value for k in call.keywords if k.arg}
        tab = ddl.get(table)
        if tab is None:
            raise AnalysisError(f"DDL of {table} not found")
        extra = set(extra_cols)
        persistent = fields - set(exempt)
        # every INSERT column has a value placeholder named like the column and a parameter
        for c in sorted(cols):
            v = ins.vals[ins.cols.index(c)] if c in ins.cols and len(ins.vals) == len(ins.cols) else None
            ok = v in (f":{c}",) or (v is not None and not v.startswith(":"))
            rep.check(ok and (c in params or not str(v).startswith(":")), "C19.R1", f"{label}.{c}: INSERT column bound to its own parameter", f"value {v}, parameter present={c in params}", ins.file, ins.line, disc=f"{label}:{c}:bind")
        rep.check(set(params) == {c for c in cols if ins.vals[ins.cols.index(c)].startswith(":")}, "C19.R1", f"{label}: parameter keys = INSERT columns", f"only in params: {sorted(set(params) - cols)}; only in columns: {sorted(c for c in cols - set(params) if ins.vals[ins.cols.index(c)].startswith(':'))}",
                  ins.file, ins.line, disc=f"{label}:params")
        for f in sorted(persistent):
            rep.check(f in cols, "C19.R1", f"{label}.{f}: model field is written", "every persistent field of the model is a column of the INSERT" if f in cols else f"field `{f}` is never written: it is lost on a store/retrieve round trip",
                      ins.file, ins.line, disc=f"{label}:{f}:written")
            rep.check(f in kws, "C19.R1", f"{label}.{f}: model field is restored", "passed to the constructor by the row converter" if f in kws else f"field `{f}` is not restored by {reader_name}", reader.file, call.lineno, disc=f"{label}:{f}:restored")
        for c in sorted(cols - extra):
            rep.check(c in persistent, "C19.R1", f"{label}.{c}: column is a model field", "", ins.file, ins.line, disc=f"{label}:{c}:field")
            rep.check(c in tab.cols, "C19.R1", f"{label}.{c}: column exists in the schema", "", tab.file, tab.line, disc=f"{label}:{c}:ddl")
        # each constructor keyword reads its own column
        for k, v in sorted(kws.items()):
            src = columns_feeding(reader.node, v, reads)
            rep.check(k in src, "C19.R1", f"{label}.{k}: restored from its own column", f"reads {sorted(src)}", reader.file, getattr(v, "lineno", call.lineno), disc=f"{label}:{k}:source")
            # R2 codecs
            if k in params:
                w = codec_of_write(params[k])
                r = codec_of_read(reader.node, v)
                ok = w == r or (w == "plain" and r == "plain")
                rep.check(ok, "C19.R2", f"{label}.{k}: codec pair", f"written as {w} ({params[k][:50]}), read as {r}", reader.file, getattr(v, "lineno", call.lineno), disc=f"{label}:{k}:codec:{w}:{r}")
            # parameter takes the same-named attribute
        objname = {"stage": "stage", "task": "task", "workflow": "execution"}[label]
        for c, pv in sorted(params.items()):
            if c in extra:
                continue
            ok = re.search(rf"\b{objname}\.{c}\b", pv) is not None
            rep.check(ok, "C19.R1", f"{label}.{c}: parameter is the same-named attribute", f"{c} := {pv[:70]}", ins.file, ins.line, disc=f"{label}:{c}:attr")
        rep.count(**{f"{label}_columns": len(cols)})
        return ins

    entity("stage", "stabilize.models.stage.stage", "StageExecution", lambda s: s.func.qualname == "insert_stage", "row_to_stage", "stage_executions", STAGE_EXEMPT, extra_cols=("execution_id",))
    entity("workflow", "stabilize.models.workflow", "Workflow", lambda s: s.func.qualname == "SqliteWorkflowCrudMixin.store", "row_to_execution", "pipeline_executions", WF_EXEMPT)
    # tasks: UPDATE and INSERT of upsert_task
    t_ins = entity("task", "stabilize.models.task", "TaskExecution", lambda s: s.func.qualname == "upsert_task", "row_to_task", "task_executions", TASK_EXEMPT, extra_cols=("stage_id", "version"))
    t_upd = [s for s in stmts if s.kind == "UPDATE" and s.table == "task_executions" and s.func.qualname == "upsert_task"]
    if t_upd:
        u = t_upd[0]
        icols = set(t_ins.cols) - {"id", "stage_id"}
        rep.check(set(u.sets) == icols, "C19.R1", "task UPDATE and INSERT write the same columns", f"update-only {sorted(set(u.sets) - icols)}, insert-only {sorted(icols - set(u.sets))}", u.file, u.line, disc="task:update-vs-insert")
        for c in sorted(set(u.sets) - {"version"}):
            rep.check(u.sets[c] == f":{c}" and c in u.params and t_ins.params.get(c) == u.params.get(c), "C19.R1", f"task.{c}: UPDATE and INSERT encode the column alike", f"update {u.params.get(c)} vs insert {t_ins.params.get(c)}", u.file, u.line, disc=f"task:{c}:same")

    # ---- R3 ----------------------------------------------------------------------------------------
    ups = [s for s in stmts if s.kind == "UPDATE" and s.table == "stage_executions"]
    for u in ups:
        name = f"{u.func.qualname}:" + ("phase" if any("expected_phase" in w for w in u.where) else "plain")
        rep.check(set(u.sets) == MUTABLE_STAGE_COLS, "C19.R3", f"{name}: columns set", f"{sorted(u.sets)}", u.file, u.line, disc=f"{name}:cols")
        for c in sorted(set(u.sets) - {"version"}):
            pv = u.params.get(c, "")
            ok = u.sets[c] == f":{c}" and re.search(rf"\bstage\.{c}\b", pv) is not None
            rep.check(ok, "C19.R3", f"{name}: {c} is the stage's own {c}", f"{c} = {u.sets[c]} := {pv[:60]}", u.file, u.line, disc=f"{name}:{c}")
        ins_params = [s for s in stmts if s.func.qualname == "insert_stage" and s.kind == "INSERT"][0].params
        for c in ("context", "outputs", "status"):
            rep.check(u.params.get(c) == ins_params.get(c), "C19.R3", f"{name}: {c} encoded as on insert", f"{u.params.get(c)} vs {ins_params.get(c)}", u.file, u.line, disc=f"{name}:{c}:enc")
    rep.floor("UPDATE stage_executions statements", len(ups), 4)

    # ---- R4 ----------------------------------------------------------------------------------------
    sel = [s for s in stmts if s.kind == "SELECT" and s.table == "task_executions" and s.func.module.name.startswith("stabilize.persistence.")]
    for s in sel:
        builds = "row_to_task" in norm(s.func.node)
        if not builds:
            continue
        ok = s.order_by in ("id asc", "id") or s.order_by.startswith("stage_id,id") or s.order_by in ("stage_id, id asc", "stage_id asc, id asc", "stage_id,id asc")
        rep.check(ok, "C19.R4", f"{s.func.qualname}: tasks read in creation order", f"ORDER BY {s.order_by or '(none)'}", s.file, s.line, disc=f"{s.func.qualname}:order")
    rep.floor("SELECTs that load tasks", len([s for s in sel if "row_to_task" in norm(s.func.node)]), 2)

    # ---- R2b: a conditional encoder drops the value only when the value is absent -----------------------------------------
    # `ENC(x) if <test> else None` in the parameters of a write must test the presence of x and nothing else: any further
    # condition stores NULL for a value that exists, and the read side returns None for it (a silent change between write and read)
    n_cond = 0
    for st_ in sqlshape.statements(prog):
        if st_.kind not in ("INSERT", "UPDATE") or not st_.func.module.name.startswith("stabilize.persistence") or not sqlshape.is_sqlite(st_) and rep.tier != "thorough":
            continue
        dicts = [a_ for a_ in st_.node.args[1:] if isinstance(a_, ast.Dict)]
        if not dicts and len(st_.node.args) > 1 and isinstance(st_.node.args[1], ast.Name):
            dicts = [a_.value for a_ in ast.walk(st_.func.node) if isinstance(a_, ast.Assign) and norm(a_.targets[0]) == st_.node.args[1].id and isinstance(a_.value, ast.Dict)]
        for d_ in dicts:
            for k_, v_ in zip(d_.keys, d_.values):
                # unwrap one level of parentheses / calls around the conditional
                conds = [x_ for x_ in ast.walk(v_) if isinstance(x_, ast.IfExp) and isinstance(x_.orelse, ast.Constant) and x_.orelse.value is None]
                for c_ in conds[:1]:
                    n_cond += 1
                    names = {norm(x_) for x_ in ast.walk(c_.body) if isinstance(x_, ast.Attribute)}
                    t_ = c_.test
                    subject = norm(t_.left) if isinstance(t_, ast.Compare) and len(t_.ops) == 1 and isinstance(t_.ops[0], ast.IsNot) and norm(t_.comparators[0]) == "None" else norm(t_)
                    ok_ = not isinstance(t_, ast.BoolOp) and any(subject == n_ or n_.startswith(subject + ".") or subject.startswith(n_) for n_ in names | {norm(c_.body)})
                    rep.check(ok_, "C19.R2", f"{st_.func.qualname}: `{norm(k_) if k_ is not None else '?'}` is written whenever the value exists", f"NULL only under `not ({norm(t_)})`" if ok_ else
                              f"`{norm(c_)[:120]}`: the value is replaced by NULL under a condition that is more than its absence - an existing `{norm(k_) if k_ is not None else '?'}` is stored as NULL and read back as None",
                              st_.file, c_.lineno, disc=f"cond-null:{st_.func.qualname}:{norm(k_) if k_ is not None else '?'}")
    rep.count(conditional_encoders=n_cond)

    # ---- R2c: objects stored as JSON through their own to_dict()/from_dict() pair -------------------------------------------
    # (MultiInstanceConfig -> mi_config column, Trigger -> trigger column, ...). to_dict must emit EVERY field unconditionally:
    # a value-dependent omission (e.g. dropping falsy values) is read back as the field's default, which differs from what was saved
    # whenever that default is truthy.
    used = set()
    for f_ in prog.all_functions():
        if f_.module.name.startswith("stabilize.persistence"):
            for c_ in ast.walk(f_.node):
                if isinstance(c_, ast.Call) and isinstance(c_.func, ast.Attribute) and c_.func.attr == "from_dict" and isinstance(c_.func.value, ast.Name):
                    used.add(c_.func.value.id)
    n_pairs = 0
    for m_ in prog.modules.values():
        if not m_.name.startswith("stabilize.models"):
            continue
        for cname_, ci_ in m_.classes.items():
            if cname_ not in used or "to_dict" not in ci_.methods or "from_dict" not in ci_.methods:
                continue
            n_pairs += 1
            td_ = ci_.methods["to_dict"].node
            flds_ = [norm(s_.target) for s_ in ci_.node.body if isinstance(s_, ast.AnnAssign)]
            rets_ = [r_ for r_ in ast.walk(td_) if isinstance(r_, ast.Return) and r_.value is not None]
            okd = False
            why_ = "to_dict does not return a literal dict / asdict(self)"
            if len(rets_) == 1:
                v_ = rets_[0].value
                if isinstance(v_, ast.Dict) and all(isinstance(k_, ast.Constant) for k_ in v_.keys):
                    keys_ = {k_.value for k_ in v_.keys}
                    missing_ = [f for f in flds_ if f not in keys_]
                    okd = not missing_
                    why_ = f"literal dict with every field ({len(keys_)} keys)" if okd else f"fields {missing_} are not emitted"
                elif isinstance(v_, ast.Call) and norm(v_.func) in ("asdict", "dataclasses.asdict") and norm(v_.args[0]) == "self":
                    okd, why_ = True, "asdict(self)"
                elif isinstance(v_, (ast.DictComp,)) and v_.generators and v_.generators[0].ifs:
                    why_ = f"`{norm(v_)[:90]}` omits entries depending on their VALUE: a field saved as False / 0 / '' / [] is read back as its default (from_dict), e.g. a False flag whose default is True comes back True"
            rep.check(okd, "C19.R2", f"{cname_}.to_dict emits every field unconditionally", why_, m_.relpath, td_.lineno, disc=f"todict:{cname_}")
    rep.floor("to_dict/from_dict pairs behind JSON columns", n_pairs, 2)

    # ---- R5 messages ------------------------------------------------------------------------------
    mm = prog.module("stabilize.queue.messages")
    reg = mm.assigns.get("MESSAGE_TYPES")
    if reg is None:
        raise AnalysisError("MESSAGE_TYPES not found")
    if isinstance(reg, ast.Dict):
        registry = {k.value: norm(v) for k, v in zip(reg.keys, reg.values) if isinstance(k, ast.Constant)}
    else:
        # a registry computed from the class hierarchy: enumerate it statically - the transitive subclasses (in this module)
        # of the class(es) named in the expression, minus names excluded through literal string sets
        roots = [n.id for n in ast.walk(reg) if isinstance(n, ast.Name) and n.id in mm.classes]
        uses_subclasses = any("__subclasses__" in norm(f_.node) for f_ in mm.functions.values() if any(isinstance(n, ast.Name) and n.id == f_.name for n in ast.walk(reg)))
        excluded: set = set()
        for n in ast.walk(reg):
            if isinstance(n, ast.Name) and isinstance(mm.assigns.get(n.id), (ast.Set, ast.List, ast.Tuple)):
                excluded |= {e.value for e in mm.assigns[n.id].elts if isinstance(e, ast.Constant)}
        if not roots or not uses_subclasses:
            rep.fail("C19.R5", "message registry is statically enumerable", f"MESSAGE_TYPES = {norm(reg)[:120]} is neither a literal table nor built from __subclasses__() of a class of this module: which types can be delivered cannot be decided",
                     mm.relpath, getattr(reg, "lineno", 0), disc="registry-opaque")
            registry = {}
        else:
            registry = {}
            for name_, ci_ in mm.classes.items():
                anc = [c_.name for c_ in prog.mro(ci_)[1:]]
                if any(r_ in anc for r_ in roots) and name_ not in excluded:
                    registry[name_] = name_
    base = mm.classes["Message"]
    abstract = {"Message", "WorkflowLevel", "StageLevel", "TaskLevel"}
    for name, ci in mm.classes.items():
        if name in abstract or not any(c.name == "Message" for c in prog.mro(ci)):
            continue
        rep.check(registry.get(name) == name, "C19.R5", f"message {name} is registered under its own name", f"MESSAGE_TYPES[{name!r}] = {registry.get(name)}", mm.relpath, ci.node.lineno, disc=f"reg:{name}")
    for k, v in registry.items():
        rep.check(k == v and v in mm.classes, "C19.R5", f"registry entry {k}", f"-> {v}", mm.relpath, getattr(reg, "lineno", 0), disc=f"entry:{k}")
    rep.floor("message classes", len(registry), 23)
    gm = mm.functions["get_message_type_name"].node
    rep.check("message.__class__.__name__" in norm(gm), "C19.R5", "type name written = class name", "", mm.relpath, gm.lineno, disc="typename")
    cf = mm.functions["create_message_from_dict"].node
    rep.check("MESSAGE_TYPES[type_name]" in norm(cf) and "message_class(**data)" in norm(cf), "C19.R5", "type name read -> class -> constructor(**data)", "", mm.relpath, cf.lineno, disc="create")

    def encoding_table(fn):
        loops = [n for n in ast.walk(fn) if isinstance(n, ast.For) and norm(n.iter) == "message.__dict__.items()"]
        if len(loops) != 1:
            return None
        rows = []
        for s_ in loops[0].body:
            if isinstance(s_, ast.If):
                n = s_
                while True:
                    rows.append((norm(n.test), " ".join(norm(b).replace("payload_data", "data") for b in n.body)))
                    if len(n.orelse) == 1 and isinstance(n.orelse[0], ast.If):
                        n = n.orelse[0]
                    else:
                        if n.orelse:
                            rows.append(("else", " ".join(norm(b) for b in n.orelse)))
                        break
        return rows
    a = encoding_table(prog.func("stabilize.queue.sqlite.serialization", "serialize_message").node)
    b = encoding_table(prog.func("stabilize.persistence.sqlite.transaction", "AtomicTransaction.push_message").node)
    rep.check(a is not None and a == b, "C19.R5", "the two message serialisers have the same encoding table", f"serialize_message: {a} | push_message: {b}"[:300], "src/stabilize/persistence/sqlite/transaction.py", 0, disc="serialisers")
    expected = [('key.startswith("_")', "continue"), ("isinstance(value, datetime)", "data[key] = value.isoformat()"), ("isinstance(value, Enum)", "data[key] = value.name"), ("else", "data[key] = value")]
    rep.check(a is not None and [(t.replace("'", '"'), c) for t, c in a] == expected, "C19.R5", "encoding table: skip private, datetime->isoformat, Enum->name, else verbatim", f"{a}", "src/stabilize/queue/sqlite/serialization.py", 0, disc="table")
    # enum-typed fields of every message are restored by name
    des = prog.func("stabilize.queue.sqlite.serialization", "deserialize_message").node
    restored = {}
    # locals that alias one payload field: v = data.get("k") / data["k"]
    local_src: dict = {}
    for n in ast.walk(des):
        if isinstance(n, ast.Assign) and len(n.targets) == 1 and isinstance(n.targets[0], ast.Name):
            k = _payload_key(n.value)
            if k is not None:
                local_src[n.targets[0].id] = k if n.targets[0].id not in local_src else "?"      # re-assigned: ambiguous
    for n in ast.walk(des):
        if isinstance(n, ast.Assign) and isinstance(n.targets[0], ast.Subscript) and norm(n.targets[0].value) == "data" and isinstance(n.targets[0].slice, ast.Constant):
            v = n.value
            if isinstance(v, ast.Subscript) and isinstance(v.value, ast.Name):
                src = _payload_key(v.slice) or (local_src.get(v.slice.id) if isinstance(v.slice, ast.Name) else None)
                tgt = n.targets[0].slice.value
                if src == tgt:
                    restored[tgt] = v.value.id
                elif src is not None:
                    rep.fail("C19.R5", f"deserialize_message: data[{tgt!r}] restored from payload field {src!r}", "an enum field is rebuilt from a different field of the payload: the delivered message differs from the one pushed", "src/stabilize/queue/sqlite/serialization.py", n.lineno, disc=f"enum-source:{tgt}:{src}")
    enum_fields = {}
    for name, ci in mm.classes.items():
        for f, node in all_fields(prog, ci).items():
            ann = norm(node.annotation)
            for en in ("WorkflowStatus", "SyntheticStageOwner", "JoinType", "SplitType", "PredicatePhase"):
                if en in ann:
                    enum_fields[(name, f)] = en
    for (cname, f), en in sorted(enum_fields.items()):
        rep.check(restored.get(f) == en, "C19.R5", f"{cname}.{f}: enum restored on delivery", f"written as {en}.name; deserialize_message restores {restored.get(f)}", "src/stabilize/queue/sqlite/serialization.py", des.lineno, disc=f"enum:{cname}:{f}")
    rep.floor("enum-typed message fields", len(enum_fields), 3)
    discards = {c.args[0].value for c in ast.walk(des) if isinstance(c, ast.Call) and norm(c.func) == "data.pop" and c.args and isinstance(c.args[0], ast.Constant)}
    base_fields = set(all_fields(prog, base))
    rep.check(discards <= base_fields, "C19.R5", "only base-Message metadata is discarded on delivery", f"discards {sorted(discards)}; base fields {sorted(base_fields)}", "src/stabilize/queue/sqlite/serialization.py", des.lineno, disc="discards")
    sub_fields = set()
    for name, ci in mm.classes.items():
        if name != "Message":
            sub_fields |= set(dataclass_fields_own(ci))
    rep.check(not (discards & sub_fields), "C19.R5", "no payload field of a concrete message is discarded", f"{sorted(discards & sub_fields)}", "src/stabilize/queue/sqlite/serialization.py", des.lineno, disc="discard-payload")
    handled = {h.message for h in registered_handlers(prog)}
    for k in registry:
        rep.check(k in handled, "C19.R5", f"{k} has a registered handler", "", mm.relpath, reg.lineno, disc=f"handled:{k}")
    # both push paths write the payload they built and the type name
    for s in stmts:
        if s.kind == "INSERT" and s.table in (sqlshape.QUEUE_T, "queue_messages") and s.func.qualname in ("SqliteQueue.push", "AtomicTransaction.push_message"):
            rep.check(s.params.get("payload") == "payload" and "message_type" in s.cols, "C19.R5", f"{s.func.qualname}: stores the serialised payload and the type name", f"payload := {s.params.get('payload')}", s.file, s.line, disc=f"{s.func.qualname}:payload")


def dataclass_fields_own(ci):
    from ..tables import dataclass_fields

    return dataclass_fields(ci.node)
