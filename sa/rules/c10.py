"""C10 - recovery sweeps are harmless on healthy workflows and idempotent after a crash.

Decided here (structural necessary conditions; the behaviour under every schedule is not decided):

  R1  the sweep never writes entity state: on every path of _recover_workflow the only effects are queue pushes;
      recovery.py calls only read APIs of the store
  R2  every task-level message (RunTask / StartTask) built by the sweep is control-dependent on
      `not queue.has_pending_message_for_task(<the same task>.id)`; its task_id is that task's id
  R3  has_pending_message_for_task sees EVERY queued message of the task: SELECT on the queue table whose only
      predicate is the payload's task_id (no lock / delay / attempts filter), in every queue implementation;
      every message class that carries a task forward has a task_id field
  R4  all messages of one workflow are pushed in ONE transaction, nothing is pushed outside it except the
      StartWorkflow of a workflow without any stage to re-queue; the sweep writes no processed-mark
  R5  the stage-level / workflow-level messages the sweep pushes unguarded (StartStage, StartWorkflow) are absorbed by
      their receivers: every effectful commit of StartStage / StartWorkflow requires the entity in NOT_STARTED
      (value-set analysis of C02.R2), task-level receivers act only on NOT_STARTED / RUNNING tasks
  R6  a task message is re-queued only in durable states in which the healthy run itself has that message in flight:
      StartTask(first task) only when the stage's before-stages are complete (sibling agreement with
      ContinueParentStage, the only healthy pusher of that message for a stage with before-stages)
"""
from __future__ import annotations

import ast

from .. import sqlshape
from ..model import AnalysisError, norm
from ..paths import all_paths
from ..seqrules import atoms, commits_after_synthetic, path_infos, shape
from .c02 import guards_table, pre_statuses

REC = "stabilize.recovery"
ENTRY = "WorkflowRecovery._recover_workflow"
READ_APIS = {"retrieve", "retrieve_by_application", "retrieve_stage", "transaction", "get_downstream_stages", "get_upstream_stages", "retrieve_execution_summary", "is_healthy"}
QUEUE_APIS = {"push", "has_pending_message_for_task", "size"}
TASK_MSGS = ("RunTask", "StartTask")


def _parents(fn: ast.AST) -> dict:
    par = {}
    for n in ast.walk(fn):
        for c in ast.iter_child_nodes(n):
            par[id(c)] = n
    return par


def _pol(test: ast.expr, truth: bool) -> tuple[str, bool]:
    while isinstance(test, ast.UnaryOp) and isinstance(test.op, ast.Not):
        test, truth = test.operand, not truth
    return norm(test), truth


def dominating_tests(fn: ast.FunctionDef, target: ast.AST) -> list[tuple[str, bool]]:
    """(test text, truth) pairs that hold whenever `target` is reached: enclosing If branches plus earlier
    `if t: continue/return/raise` statements of the enclosing blocks."""
    par = _parents(fn)
    out: list[tuple[str, bool]] = []
    node = target
    while id(node) in par:
        p = par[id(node)]
        if isinstance(p, ast.If):
            if any(node is x for x in p.body):
                out.append(_pol(p.test, True))
            elif any(node is x for x in p.orelse):
                out.append(_pol(p.test, False))
        for fld in ("body", "orelse", "finalbody"):
            blk = getattr(p, fld, None)
            if isinstance(blk, list) and any(node is x for x in blk):
                for s in blk:
                    if s is node:
                        break
                    if isinstance(s, ast.If) and not s.orelse and s.body and isinstance(s.body[-1], (ast.Continue, ast.Return, ast.Raise)):
                        out.append(_pol(s.test, False))
        node = p
        if node is fn:
            break
    return out


def rcls_file(prog) -> str:
    return prog.func(REC, "WorkflowRecovery._recover_workflow").file


def run(ctx, rep) -> None:
    prog, T = ctx.prog, ctx.st
    rep.rule("C10.R1", "the sweep only pushes: no store_stage / update_workflow_status / status write / processed-mark on any path of _recover_workflow; recovery.py calls only read APIs of the store")
    rep.rule("C10.R2", "every RunTask / StartTask constructed by the sweep is control-dependent on `not queue.has_pending_message_for_task(X.id)` and carries task_id = X.id")
    rep.rule("C10.R3", "has_pending_message_for_task: SELECT on the queue table, sole predicate = payload task_id (locked, delayed and retried messages all count); message classes that carry a task have a task_id field")
    rep.rule("C10.R4", "path shapes of _recover_workflow: nothing | one TXN{push+} | AUTO push StartWorkflow; no path has two commits")
    rep.rule("C10.R5", "receivers of the sweep's messages act only in the entity's start status (C02.R2 value sets): StartStage/StartWorkflow NOT_STARTED, StartTask NOT_STARTED, RunTask RUNNING")
    rep.rule("C10.R6", "StartTask for a stage's first task is re-queued only under the condition the healthy run pushes it: before-stages complete")
    rep.undecided += ["equality of final outcomes with and without sweeps over all schedules", "a sweep racing a handler between its read and its commit (covered by the CAS / dedup properties C04, C07, C09)"]

    mod = prog.module(REC)
    fi = prog.func(REC, ENTRY)
    fn = fi.node
    # ---- R1 -------------------------------------------------------------------------------------
    res = all_paths(ctx)
    if ENTRY not in res:
        raise AnalysisError("recovery entry not enumerated")
    pis = path_infos({ENTRY: res[ENTRY]})
    rep.floor("recovery paths", len(pis), 6)
    bad_kinds = ("store_stage", "update_workflow_status", "status_write", "mark", "claim", "ctx")
    seen = set()
    for pi in pis:
        for e in pi.trace:
            if e.kind in bad_kinds or (e.kind == "auto" and str(e.get("api", "")).startswith("store.")):
                k = (e.kind, e.site)
                if k in seen:
                    continue
                seen.add(k)
                rep.fail("C10.R1", f"sweep effect {e.kind} {e.get('api') or ''}".strip(), "the recovery sweep writes entity state / dedup state: running it on a healthy workflow is no longer harmless", e.site[0], e.site[1], disc=f"{e.kind}:{e.get('api') or e.get('name') or ''}")
    rep.check(not seen, "C10.R1", "no path of the sweep writes entity or dedup state", f"{len(pis)} paths, effects are pushes only", fi.file, fn.lineno, disc="paths")
    # who-may-call: methods invoked on self.store / self.queue anywhere in recovery.py
    n_calls = 0
    for n in ast.walk(mod.tree):
        if isinstance(n, ast.Call) and isinstance(n.func, ast.Attribute) and isinstance(n.func.value, ast.Attribute) and isinstance(n.func.value.value, ast.Name) and n.func.value.value.id == "self":
            svc, meth = n.func.value.attr, n.func.attr
            if svc == "store":
                n_calls += 1
                rep.check(meth in READ_APIS, "C10.R1", f"recovery calls store.{meth}", "read API" if meth in READ_APIS else "not a read API of the store: the sweep must not write workflows, stages or tasks", mod.relpath, n.lineno, disc=f"store.{meth}")
            elif svc == "queue":
                n_calls += 1
                rep.check(meth in QUEUE_APIS, "C10.R1", f"recovery calls queue.{meth}", "push / pending-check" if meth in QUEUE_APIS else "the sweep must not poll, ack or reschedule", mod.relpath, n.lineno, disc=f"queue.{meth}")
    rep.floor("store/queue call sites in recovery.py", n_calls, 5)
    # attribute writes on stage/task/workflow objects
    for n in ast.walk(mod.tree):
        if isinstance(n, (ast.Assign, ast.AugAssign)):
            for t in (n.targets if isinstance(n, ast.Assign) else [n.target]):
                if isinstance(t, ast.Attribute) and isinstance(t.value, ast.Name) and t.value.id in ("stage", "task", "workflow", "full_workflow", "first_task", "upstream"):
                    rep.fail("C10.R1", f"recovery assigns {norm(t)}", "the sweep mutates an entity it read", mod.relpath, n.lineno, disc=f"assign:{norm(t)}")

    # ---- R2 -------------------------------------------------------------------------------------
    n_task_msgs = 0
    for c in ast.walk(fn):
        if isinstance(c, ast.Call) and isinstance(c.func, ast.Name) and c.func.id in TASK_MSGS:
            n_task_msgs += 1
            kw = {k.arg: k.value for k in c.keywords if k.arg}
            tid = kw.get("task_id")
            tid_txt = norm(tid) if tid is not None else ""
            doms = dominating_tests(fn, _stmt_of(fn, c))
            want = f"self.queue.has_pending_message_for_task({tid_txt})"
            ok = (want, False) in doms
            rep.check(ok and tid_txt.endswith(".id"), "C10.R2", f"{c.func.id} is guarded by the pending-message check", f"task_id={tid_txt}; reached only under `not {want}`" if ok else
                      f"{c.func.id}(task_id={tid_txt}) is built although a message for that task may already be queued (dominating tests: {[d for d in doms][:4]}): a sweep overlapping normal progress enqueues a duplicate and the task can run an extra time",
                      fi.file, c.lineno, disc=f"guard:{c.func.id}")
            # the task comes from the stage the message names
            sid = norm(kw.get("stage_id")) if kw.get("stage_id") is not None else ""
            rep.check(sid == "stage.id", "C10.R2", f"{c.func.id} names the stage whose task it re-queues", f"stage_id={sid}", fi.file, c.lineno, disc=f"stage:{c.func.id}")
    rep.floor("task-level messages built by the sweep", n_task_msgs, 2)

    # ---- R3 -------------------------------------------------------------------------------------
    hp = [s for s in sqlshape.statements(prog) if s.func.qualname.endswith(".has_pending_message_for_task")]
    rep.floor("has_pending_message_for_task statements", len(hp), 1)
    for s in hp:
        where = [w for w in s.where]
        one = len(where) == 1 and "task_id" in where[0] and "payload" in where[0]
        tbl = s.table in sqlshape.QUEUE_T or "table_name" in s.table or "queue" in s.table
        rep.check(s.kind == "SELECT" and tbl and one, "C10.R3", f"{s.func.qualname}: every queued message of the task counts", f"{s.kind} {s.table} WHERE {where}" + ("" if one else
                  " - a filter on lock / delivery time / attempts hides in-flight or delayed messages from the duplicate guard"), s.file, s.line, disc=f"pending:{s.func.qualname}")
    # in-memory / other queue implementations: the method exists wherever push exists
    for m in prog.modules.values():
        for cl in m.classes.values():
            if "push" in cl.methods and "poll_one" in cl.methods and cl.name != "Queue":
                rep.check("has_pending_message_for_task" in cl.methods or any("has_pending_message_for_task" in b.methods for b in prog.mro(cl)[1:]), "C10.R3", f"{cl.name} implements the pending-message check",
                          "", m.relpath, cl.node.lineno, disc=f"impl:{cl.name}")
    msgs = prog.module("stabilize.queue.messages")
    for name in ("StartTask", "RunTask", "CompleteTask", "PauseTask"):
        cl = msgs.classes.get(name)
        flds = {norm(s_.target) for s_ in cl.node.body if isinstance(s_, ast.AnnAssign)} if cl else set()
        for b in (prog.mro(cl)[1:] if cl else []):
            flds |= {norm(s_.target) for s_ in b.node.body if isinstance(s_, ast.AnnAssign)}
        rep.check("task_id" in flds, "C10.R3", f"{name} carries task_id", "the pending-message check finds it by payload task_id", msgs.relpath, cl.node.lineno if cl else 0, disc=f"field:{name}")

    # ---- R4 -------------------------------------------------------------------------------------
    shapes = {}
    for pi in pis:
        shapes.setdefault(pi.shape, 0)
        shapes[pi.shape] += 1
        if pi.outcome != "return":
            continue
        txns = [c for c in pi.seq if c.kind == "TXN"]
        autos = [c for c in pi.seq if c.kind == "AUTO"]
        ok = len(pi.seq) <= 1 and all(all(e.kind == "push" for e in c.effects) for c in txns)
        if autos:
            cls = {str(e.get("cls")) for c in autos for e in c.effects} | {str(c.event.get("cls")) for c in autos if c.event is not None}
            ok = ok and cls <= {"StartWorkflow", "None"}
        if not ok:
            rep.fail("C10.R4", f"recovery path {pi.shape}", "messages of one workflow are pushed in more than one commit (or outside the transaction): a crash in between leaves a partial recovery that the next sweep repeats differently", pi.where()[0], pi.where()[1], disc=f"shape:{pi.shape}")
    rep.check(True, "C10.R4", "recovery path shapes", "; ".join(f"{k} x{v}" for k, v in sorted(shapes.items())), fi.file, fn.lineno, disc="shapes")
    # the pushes inside the transaction are the collected list, pushed by one loop
    withs = [n for n in ast.walk(fn) if isinstance(n, ast.With) and any("transaction(" in norm(i.context_expr) for i in n.items)]
    rep.check(len(withs) == 1, "C10.R4", "one transaction block in the sweep", f"{len(withs)} transaction block(s)", fi.file, withs[0].lineno if withs else fn.lineno, disc="one-with")
    direct = [c for c in ast.walk(fn) if isinstance(c, ast.Call) and norm(c.func) == "self.queue.push"]
    for c in direct:
        arg = c.args[0] if c.args else None
        cls = arg.func.id if isinstance(arg, ast.Call) and isinstance(arg.func, ast.Name) else norm(arg) if arg is not None else "?"
        rep.check(cls == "StartWorkflow", "C10.R4", f"direct queue.push({cls})", "only the StartWorkflow of a workflow with nothing else to re-queue is pushed outside the transaction", fi.file, c.lineno, disc=f"direct:{cls}")

    # ---- R5 -------------------------------------------------------------------------------------
    GT = guards_table(T)
    infos = [p for p in path_infos(res) if p.message]
    for msg, handler, want in (("StartStage", "StartStageHandler", {"NOT_STARTED"}), ("StartWorkflow", "StartWorkflowHandler", {"NOT_STARTED"}), ("StartTask", "StartTaskHandler", {"NOT_STARTED"}), ("RunTask", "RunTaskHandler", {"RUNNING"})):
        kind = {"StartStage": "stage", "StartWorkflow": "workflow", "StartTask": "task", "RunTask": "task"}[msg]
        n = 0
        bad = []
        for pi in infos:
            if pi.handler != handler:
                continue
            after_syn = commits_after_synthetic(pi)
            for i, c in enumerate(pi.seq):
                if i in after_syn:
                    continue
                a = atoms(c)
                if not a or a == ("mark",) or any("Invalid" in x for x in a):
                    continue
                cands = [m for (k, _), m in pre_statuses(pi, i).items() if k == kind]
                n += 1
                if not any(m <= frozenset(want) for m in cands):
                    best = min(cands, key=len) if cands else frozenset()
                    bad.append((shape([c]), sorted(best)[:4], c.site))
        rep.floor(f"effectful commits of {handler} examined", n, 1)
        if handler in ("StartTaskHandler", "RunTaskHandler", "StartWorkflowHandler"):
            rep.check(not bad, "C10.R5", f"a duplicate {msg} is absorbed", f"every effectful commit of {handler} requires the {kind} in {sorted(want)}" if not bad else f"{handler} stores its {kind} from {bad[0][1]} (shape {bad[0][0]}): a re-queued duplicate repeats the step",
                      bad[0][2][0] if bad else fi.file, bad[0][2][1] if bad else fn.lineno, disc=f"absorb:{msg}")
        else:
            rep.ok("C10.R5", f"a duplicate {msg} is absorbed", f"decided by C04 (claim CAS on NOT_STARTED) and C02.R2; {n} effectful commits seen here", fi.file, fn.lineno)

    # a duplicate StartStage for a RUNNING stage (the sweep pushes one for every RUNNING stage without live tasks) re-plans
    # only when the plan commit cannot have happened: no task and no synthetic child of ANY status exists
    sir = prog.func("stabilize.handlers.start_stage.handler", "StartStageHandler._start_if_ready")
    spar = _parents(sir.node)
    from ..dom import conditions_at, leaves_block
    # the fall-through point: a statement that does not leave, is the last of its block and is reached with the stage NOT in
    # NOT_STARTED - whatever the spelling of the surrounding ifs
    zomb = None
    for n in ast.walk(sir.node):
        for fld in ("body", "orelse"):
            blk = getattr(n, fld, None)
            if isinstance(n, ast.If) and isinstance(blk, list) and blk and not leaves_block(blk):
                facts = conditions_at(sir.node, blk[-1])
                if ("stage.status == WorkflowStatus.NOT_STARTED", False) in facts and ("stage.status == WorkflowStatus.RUNNING", True) in facts:
                    if zomb is None or blk[-1].lineno > zomb[0].lineno:
                        zomb = (blk[-1], facts)
    if zomb is None:
        rep.fail("C10.R5", "zombie re-plan guard", "the branch that lets a RUNNING stage fall through to planning was not found in _start_if_ready", sir.file, sir.node.lineno, disc="zombie-shape")
    else:
        fall, facts = zomb
        # the facts that distinguish this fall-through from the `return` next to it: locals known False here
        leaves = [(ast.parse(t, mode="eval").body, True) for t, tr in sorted(facts) if tr is False and "stage.status" not in t]
        defs = {}
        for a_ in ast.walk(sir.node):
            if isinstance(a_, ast.Assign) and len(a_.targets) == 1 and isinstance(a_.targets[0], ast.Name):
                defs.setdefault(a_.targets[0].id, []).append(a_.value)

        def existence_only(e, depth=0) -> bool:
            if depth > 4:
                return False
            if isinstance(e, ast.BoolOp) and isinstance(e.op, ast.And):
                return all(existence_only(v, depth + 1) for v in e.values)
            if isinstance(e, ast.Compare) and len(e.ops) == 1:
                l, r = e.left, e.comparators[0]
                if isinstance(l, ast.Call) and norm(l.func) == "len" and isinstance(r, ast.Constant) and r.value == 0 and isinstance(e.ops[0], (ast.Gt, ast.NotEq)):
                    return source_ok(l.args[0], depth)
                if isinstance(e.ops[0], ast.IsNot) and norm(r) == "None":
                    return source_ok(l, depth)
                return False
            if isinstance(e, ast.Call) and norm(e.func) == "bool" and len(e.args) == 1:
                return source_ok(e.args[0], depth)
            return source_ok(e, depth)

        def source_ok(e, depth) -> bool:
            t = norm(e)
            if t == "stage.tasks" or t == "self.repository.get_synthetic_stages(stage.execution.id, stage.id)":
                return True
            if isinstance(e, ast.Name) and len(defs.get(e.id, [])) == 1:
                d_ = defs[e.id][0]
                return source_ok(d_, depth + 1) if not isinstance(d_, (ast.BoolOp, ast.Compare)) else existence_only(d_, depth + 1)
            return False

        bad = []
        srcs = set()
        for e, neg in leaves:
            if not neg:
                bad.append(f"`{norm(e)}` is not negated")
                continue
            d_ = defs.get(e.id, []) if isinstance(e, ast.Name) else [e]
            if len(d_) != 1 or not existence_only(d_[0]):
                bad.append(f"`{norm(e)}` = `{norm(d_[0])[:90] if d_ else '?'}` is not a pure existence test of the stage's tasks / synthetic children")
            else:
                srcs.add("tasks" if "tasks" in norm(d_[0]) else "synthetic")
        if srcs != {"tasks", "synthetic"} and not bad:
            bad.append(f"the guard looks at {sorted(srcs)} only")
        rep.check(not bad, "C10.R5", "a duplicate StartStage re-plans a RUNNING stage only if no task and no synthetic child exists at all", "re-plan only with " + ", ".join(f"not {norm(e)}" for e, _ in leaves) + " (existence-only operands)" if not bad else
                  "; ".join(bad) + ": a RUNNING stage whose planned children already completed is taken for a crashed planning, so the StartStage the sweep re-queues for it plans (and runs) its children a second time",
                  sir.file, fall.lineno, disc="zombie-evidence")

    _r7_synthetic_children(ctx, rep, T)
    # which workflows are swept: only those in progress. A workflow that is explicitly waiting (BUFFERED for a concurrency slot,
    # PAUSED, SUSPENDED) is not crashed - re-queuing its NOT_STARTED stages would start it out of turn.
    from ..status_tables import _member_set
    rep.rule("C10.R8", "the sweep selects workflows in {RUNNING, NOT_STARTED} only")
    gw = prog.func(REC, "WorkflowRecovery._get_workflows_for_recovery")
    crit = [c for c in ast.walk(gw.node) if isinstance(c, ast.Call) and norm(c.func).endswith("WorkflowCriteria")]
    sel = None
    for c in crit:
        for k in c.keywords:
            if k.arg == "statuses":
                sel = _member_set(k.value)
    ok = sel is not None and sel <= frozenset({"RUNNING", "NOT_STARTED"}) and "RUNNING" in sel
    rep.check(ok, "C10.R8", "swept workflow statuses", f"statuses = {sorted(sel) if sel is not None else 'not a literal set'}" + ("" if ok else
              ": a workflow in an explicit waiting status (BUFFERED / PAUSED / SUSPENDED) or a finished one is handed to _recover_workflow, which re-queues StartStage for its NOT_STARTED initial stages - it starts although it is waiting for a slot / a resume"),
              gw.file, crit[0].lineno if crit else gw.node.lineno, disc="swept-statuses")

    # ---- R9: a workflow that has not started is restarted through StartWorkflow only ---------------------------------------
    rep.rule("C10.R9", "in _recover_workflow every StartStage / StartTask / RunTask is constructed only where the workflow's status cannot be NOT_STARTED (a NOT_STARTED workflow gets StartWorkflow, whose gates - concurrency limit, cancel-before-start, expiry - must not be bypassed); StartWorkflow only where it is NOT_STARTED")
    from ..dom import raw_conditions_at as _rca
    from ..statuspred import status_set as _ss9
    rw = prog.func(REC, "WorkflowRecovery._recover_workflow").node
    ALL9 = frozenset(T.members)
    n9 = 0
    for c in ast.walk(rw):
        if not (isinstance(c, ast.Call) and isinstance(c.func, ast.Name) and c.func.id in ("StartStage", "StartTask", "RunTask", "StartWorkflow")):
            continue
        implied = ALL9
        from ..dom import canon_fact as _cf9
        for t_, tr_ in _rca(rw, c):
            for atom, atr in _cf9(t_, tr_):
                try:
                    ae = ast.parse(atom, mode="eval").body
                except SyntaxError:
                    continue
                for subj in ("full_workflow.status", "workflow.status"):
                    ss_ = _ss9(ae if atr else ast.UnaryOp(op=ast.Not(), operand=ae), subj, T)
                    if ss_ is not None:
                        implied = implied & ss_
        n9 += 1
        if c.func.id == "StartWorkflow":
            ok = implied <= frozenset({"NOT_STARTED"})
            rep.check(ok, "C10.R9", "StartWorkflow is re-queued only for a NOT_STARTED workflow", f"workflow status at the push: {sorted(implied) if len(implied) < 12 else 'unconstrained'}", rcls_file(prog), c.lineno, disc="startworkflow-only-not-started")
        else:
            ok = "NOT_STARTED" not in implied
            rep.check(ok, "C10.R9", f"{c.func.id} is never built for a workflow that has not started", f"workflow status at the push: {'NOT_STARTED excluded' if ok else 'NOT_STARTED possible'}" + ("" if ok else
                      ": initial stages have no upstreams, so they always look startable - the sweep starts them directly, bypassing StartWorkflow (a workflow the concurrency limit would keep BUFFERED runs; a NOT_STARTED workflow whose stages all ran can never store its outcome)"),
                      rcls_file(prog), c.lineno, disc=f"no-stage-start-before-workflow:{c.func.id}")
    rep.floor("message constructions in _recover_workflow", n9, 4)

    # ---- R10: the sweep starts a stage's next task only when none of its tasks is running ------------------------------------
    rep.rule("C10.R10", "in _recover_workflow StartTask is built only where the stage has no RUNNING task (a running task - with or without a queued message - means the stage is between two tasks of its own: its CompleteTask starts the next one)")
    from ..dom import conditions_at as _ca10
    rw10 = prog.func(REC, "WorkflowRecovery._recover_workflow").node
    st_sites = [c for c in ast.walk(rw10) if isinstance(c, ast.Call) and isinstance(c.func, ast.Name) and c.func.id == "StartTask"]
    rep.floor("StartTask constructions in _recover_workflow", len(st_sites), 1)
    for c in st_sites:
        cs = _ca10(rw10, c)
        ok = ("running_tasks", False) in cs
        rep.check(ok, "C10.R10", "StartTask is re-queued only for a stage without a RUNNING task", "dominated by `not running_tasks`" if ok else
                  f"conditions {sorted(t for t, tr in cs if 'task' in t)[:4]} do not exclude a RUNNING task: while a polling / retried task waits for its delayed RunTask the sweep starts its successor - it runs out of order, "
                  "its CompleteStage is dropped as stale and the stage stays RUNNING when the predecessor finally completes", rcls_file(prog), c.lineno, disc="starttask-no-running-task")

    # ---- R6 -------------------------------------------------------------------------------------
    from ..statuspred import status_set
    # reference: the condition under which the healthy run pushes StartTask(first task) for a stage with before-stages
    cps = prog.func("stabilize.handlers.continue_parent_stage", "ContinueParentStageHandler._handle_before_phase").node
    ref = None
    for a in ast.walk(cps):
        if isinstance(a, ast.Assign) and norm(a.targets[0]) == "all_complete" and isinstance(a.value, ast.Call) and norm(a.value.func) == "all" and a.value.args and isinstance(a.value.args[0], ast.GeneratorExp):
            g = a.value.args[0]
            ref = status_set(g.elt, norm(g.generators[0].target) + ".status", T)
    if ref is None:
        raise AnalysisError("ContinueParentStage._handle_before_phase: `all_complete = all(<status predicate> for s in before_stages)` not found")
    rcls = prog.cls(REC, "WorkflowRecovery")
    for c in ast.walk(fn):
        if isinstance(c, ast.Call) and isinstance(c.func, ast.Name) and c.func.id == "StartTask":
            doms = dominating_tests_raw(fn, _stmt_of(fn, c))
            # candidate atoms: calls of a recovery helper whose result is all(<pred> for child in ... STAGE_BEFORE ...)
            found = None
            for test, _truth in doms:
                for call in [x for x in ast.walk(test) if isinstance(x, ast.Call) and isinstance(x.func, ast.Attribute) and isinstance(x.func.value, ast.Name) and x.func.value.id == "self"]:
                    helper = prog.find_method(rcls, call.func.attr)
                    if helper is None:
                        continue
                    rets = [r for r in ast.walk(helper.node) if isinstance(r, ast.Return) and r.value is not None]
                    for r in rets:
                        v = r.value
                        if isinstance(v, ast.Call) and norm(v.func) == "all" and v.args and isinstance(v.args[0], ast.GeneratorExp):
                            g = v.args[0]
                            filt = " and ".join(norm(i) for i in g.generators[0].ifs)
                            if "STAGE_BEFORE" in filt and "parent_stage_id" in filt:
                                found = (norm(call), status_set(g.elt, norm(g.generators[0].target) + ".status", T), helper)
            if found is None:
                rep.fail("C10.R6", "StartTask(first task) is re-queued only once the stage's before-stages are complete",
                         "the branch `stage RUNNING, no RUNNING task, start_time set` also describes a parent whose before-stages are still executing: a sweep at that moment of a healthy run starts the parent's first task ahead of its before-stages "
                         "(ContinueParentStage pushes that StartTask only when all before-stages are continuable)", fi.file, c.lineno, disc="starttask-before-stages")
                continue
            atom, pset, helper = found
            implied = _implied_true(doms, atom)
            rep.check(implied, "C10.R6", "StartTask(first task) is re-queued only once the stage's before-stages are complete", f"every way of reaching the StartTask has `{atom}` true" if implied else
                      f"`{atom}` is tested but does not have to be true where StartTask is built", fi.file, c.lineno, disc="starttask-before-stages")
            rep.check(pset == ref, "C10.R6", "recovery and ContinueParentStage agree on when before-stages are complete", f"recovery: {sorted(pset) if pset else pset}; ContinueParentStage all_complete: {sorted(ref)}",
                      helper.file, helper.node.lineno, disc="before-complete-agreement")


def _r7_synthetic_children(ctx, rep, T) -> None:
    """A pre-declared synthetic child has no requisites of its own; what orders it is its PARENT's progress. The sweep may
    re-queue its StartStage only where the healthy run pushes it: parent RUNNING (before-children: StartStage plans them
    with the parent; after-children: additionally the parent's own work is done or its on-failure phase was planned)."""
    from ..dom import conditions_at
    from ..statuspred import status_set
    prog = ctx.prog
    rep.rule("C10.R7", "_can_start grants a stage with parent_stage_id only under a parent-state test (parent RUNNING; after-children: parent's tasks and before-stages finished or on-failure planned)")
    cs = prog.func(REC, "WorkflowRecovery._can_start")
    rcls = prog.cls(REC, "WorkflowRecovery")
    trues = [r for r in ast.walk(cs.node) if isinstance(r, ast.Return) and r.value is not None and norm(r.value) != "False"]
    rep.floor("_can_start positive returns", len(trues), 2)
    helper = None
    for r in trues:
        facts = conditions_at(cs.node, r)
        guarded = False
        for text, truth in facts:
            if text == "stage.parent_stage_id is None" and truth:
                guarded = True
            if "parent_stage_id" in text or "_parent_allows_start" in text or "parent" in text.lower():
                # `stage.parent_stage_id is not None and not self._helper(stage, workflow)` False  =>  no parent, or helper True
                guarded = True
                for c in ast.walk(ast.parse(text, mode="eval")):
                    if isinstance(c, ast.Call) and isinstance(c.func, ast.Attribute) and isinstance(c.func.value, ast.Name) and c.func.value.id == "self":
                        helper = prog.find_method(rcls, c.func.attr) or helper
        rep.check(guarded, "C10.R7", "_can_start: a synthetic child is granted only after a parent-state test", f"return at line {r.lineno} reached only with a decided parent test" if guarded else
                  f"`{norm(r)}` at line {r.lineno} is reached for a stage with parent_stage_id without any test of the parent: a pre-declared STAGE_AFTER / STAGE_BEFORE child (no requisites) counts as an initial stage, "
                  "so a sweep during a healthy run re-queues its StartStage while the parent has not reached that point - the child runs ahead of the parent's own tasks / before the parent's upstreams finished",
                  cs.file, r.lineno, disc="synthetic-child-ungated")
    if helper is None:
        return
    # the helper: parent must be RUNNING; after-children additionally need the parent's core work finished
    hn = helper.node
    neg_returns = [r for r in ast.walk(hn) if isinstance(r, ast.Return) and norm(r.value) == "False"]
    running_gate = False
    for r in neg_returns:
        for text, truth in conditions_at(hn, r):
            try:
                ss = status_set(ast.parse(text, mode="eval").body, "parent.status", T)
            except SyntaxError:
                ss = None
            if ss is not None:
                refused = ss if truth else frozenset(T.members) - ss
                if frozenset(T.members) - refused == frozenset({"RUNNING"}):
                    running_gate = True
    rep.check(running_gate, "C10.R7", f"{helper.qualname}: the parent must be RUNNING", "every parent status except RUNNING refuses the child", helper.file, hn.lineno, disc="parent-running")
    fin = [r for r in ast.walk(hn) if isinstance(r, ast.Return) and isinstance(r.value, ast.Call) and norm(r.value.func) == "all"]
    ok = False
    detail = "no all(...) over the parent's tasks / before-stages found"
    for r in fin:
        g = r.value.args[0] if r.value.args else None
        if isinstance(g, ast.GeneratorExp):
            var = norm(g.generators[0].target)
            named = {}
            for a_ in ast.walk(hn):
                if isinstance(a_, ast.Assign) and isinstance(a_.targets[0], ast.Name):
                    from ..status_tables import _member_set
                    ms = _member_set(a_.value)
                    if ms is not None:
                        named[a_.targets[0].id] = ms
            ss = status_set(g.elt, var, T, named) or status_set(g.elt, var + ".status", T, named)
            src = norm(g.generators[0].iter)
            srcdef = [a_ for a_ in ast.walk(hn) if isinstance(a_, ast.Assign) and norm(a_.targets[0]) == src]
            src_txt = norm(srcdef[0].value) if srcdef else src
            want = frozenset({"SUCCEEDED", "SKIPPED", "FAILED_CONTINUE"})
            ok = ss is not None and ss <= T.sets["CONTINUABLE_STATUSES"] and ss >= want - {"REDIRECT"} and "parent.tasks" in src_txt and "STAGE_BEFORE" in src_txt
            detail = f"all(x in {sorted(ss) if ss else ss}) over `{src_txt[:100]}`"
    rep.check(ok, "C10.R7", f"{helper.qualname}: an after-child needs the parent's tasks and before-stages finished", detail, helper.file, hn.lineno, disc="after-child-core-done")


def dominating_tests_raw(fn: ast.FunctionDef, target: ast.AST) -> list:
    """like dominating_tests but keeps the test expressions"""
    par = _parents(fn)
    out = []
    node = target
    while id(node) in par:
        p = par[id(node)]
        if isinstance(p, ast.If):
            if any(node is x for x in p.body):
                out.append((p.test, True))
            elif any(node is x for x in p.orelse):
                out.append((p.test, False))
        for fld in ("body", "orelse", "finalbody"):
            blk = getattr(p, fld, None)
            if isinstance(blk, list) and any(node is x for x in blk):
                for s in blk:
                    if s is node:
                        break
                    if isinstance(s, ast.If) and not s.orelse and s.body and isinstance(s.body[-1], (ast.Continue, ast.Return, ast.Raise)):
                        out.append((s.test, False))
        node = p
        if node is fn:
            break
    return out


def _implied_true(doms: list, atom: str) -> bool:
    """do the dominating (test, truth) constraints force `atom` (text of a leaf) to be true? decided by truth table over the leaves"""
    import itertools
    leaves: list[str] = []

    def collect(e):
        if isinstance(e, ast.BoolOp):
            for v in e.values:
                collect(v)
        elif isinstance(e, ast.UnaryOp) and isinstance(e.op, ast.Not):
            collect(e.operand)
        else:
            t = norm(e)
            if t not in leaves:
                leaves.append(t)

    for t, _ in doms:
        collect(t)
    if atom not in leaves or len(leaves) > 14:
        return False

    def ev(e, env):
        if isinstance(e, ast.BoolOp):
            vals = [ev(v, env) for v in e.values]
            return all(vals) if isinstance(e.op, ast.And) else any(vals)
        if isinstance(e, ast.UnaryOp) and isinstance(e.op, ast.Not):
            return not ev(e.operand, env)
        return env[norm(e)]

    any_model = False
    for bits in itertools.product([False, True], repeat=len(leaves)):
        env = dict(zip(leaves, bits))
        if all(ev(t, env) == truth for t, truth in doms):
            any_model = True
            if not env[atom]:
                return False
    return any_model


def _stmt_of(fn: ast.FunctionDef, node: ast.AST) -> ast.AST:
    """the statement (direct child of some block) that contains node"""
    par = _parents(fn)
    cur = node
    while id(cur) in par and not isinstance(cur, ast.stmt):
        cur = par[id(cur)]
    return cur
