"""C17 - after a cancel is accepted no further task starts and the workflow ends.

  R1  a task body is executed only when the freshly read workflow is not canceled / not complete and the task is RUNNING;
      the cancellation branch calls on_cancel, never execute
  R2  CancelWorkflow: durable cancel flag first, then ONE transaction with the mark, CancelStage for every unfinished top-level stage and CompleteWorkflow
  R3  CancelStage: only unfinished stages; unfinished tasks and the stage become CANCELED in one transaction with the mark
  R4  the cancel flag is only ever set: cancel_execution sets it; no engine path writes it back from an in-memory object
  R5  a canceled stage makes the workflow CANCELED (unless a TERMINAL stage takes precedence); StartWorkflow/StartTask do not start work of a canceled workflow
"""
from __future__ import annotations

import ast

from .. import sqlshape
from ..model import norm
from ..paths import all_paths
from ..seqrules import atoms, path_infos, shape


def _calls(node, name=None):
    for n in ast.walk(node):
        if isinstance(n, ast.Call):
            f = n.func
            nm = f.attr if isinstance(f, ast.Attribute) else (f.id if isinstance(f, ast.Name) else "")
            if name is None or nm == name:
                yield n


def run(ctx, rep) -> None:
    prog, T = ctx.prog, ctx.st
    COMPLETED = T.sets["COMPLETED_STATUSES"]
    rep.rule("C17.R1", "execute_with_timeout / on_timeout only on paths where execution.is_canceled was decided False, the workflow status is not complete and the task is RUNNING; handle_cancellation never executes the task")
    rep.rule("C17.R2", "CancelWorkflow paths: AUTO store.cancel ; TXN{mark, push CancelStage*, push CompleteWorkflow}; completed workflow: TXN{mark} only")
    rep.rule("C17.R3", "CancelStage paths: pre-status not completed; writes only to CANCELED; single TXN{store_stage, mark}")
    rep.rule("C17.R4", "is_canceled = 1 only in cancel_execution; the transactional workflow UPDATE does not touch is_canceled; no handler path calls store.update_status / store.store")
    rep.rule("C17.R5", "_determine_final_status returns CANCELED when a top-level stage is CANCELED (after the TERMINAL test, before STOPPED / retry); RunTask with a canceled workflow pushes CompleteTask(CANCELED)")
    rep.undecided += ["that the workflow reaches its final status at every arrival moment of the cancel (liveness)"]
    res = all_paths(ctx)
    infos = [p for p in path_infos(res) if p.message]
    # ---- R1 --------------------------------------------------------------------------------------
    rt = res["RunTaskHandler"]
    n_exec = 0
    seen: set = set()
    for p in rt.paths:
        canceled = None
        for e in p.trace:
            if e.kind == "guard" and "is_canceled" in str(e.get("text")):
                canceled = e.get("truth")
            if e.kind == "call" and e.get("name") in ("execute_with_timeout", "on_timeout"):
                n_exec += 1
                tasks = [m for (_, k, m) in e.get("statuses") if k == "task"]
                wfs = [m for (_, k, m) in e.get("statuses") if k == "workflow"]
                t_ok = any(m == frozenset({"RUNNING"}) for m in tasks)
                w_ok = any(not (m & COMPLETED) for m in wfs)
                c_ok = canceled is False
                key = (e.get("name"), e.site, t_ok, w_ok, c_ok)
                if key in seen:
                    continue
                seen.add(key)
                rep.check(t_ok and w_ok and c_ok, "C17.R1", f"{e.get('name')} call", f"is_canceled decided False={c_ok}; workflow status excludes completed={w_ok}; task RUNNING={t_ok}", e.site[0], e.site[1], disc=f"{e.get('name')}:{c_ok}:{w_ok}:{t_ok}")
            if e.kind == "call" and e.get("name") == "on_cancel":
                key = ("on_cancel", e.site, canceled)
                if key not in seen:
                    seen.add(key)
                    rep.check(canceled is True, "C17.R1", "on_cancel only for a canceled workflow", f"is_canceled decided {canceled}", e.site[0], e.site[1], disc="on_cancel")
    rep.floor("task-execution call events on RunTask paths", n_exec, 2)
    hc = prog.func("stabilize.handlers.run_task.error", "handle_cancellation")
    bad = [c for c in _calls(hc.node) if isinstance(c.func, ast.Attribute) and c.func.attr in ("execute", "execute_with_timeout") or (isinstance(c.func, ast.Name) and c.func.id == "execute_with_timeout")]
    rep.check(not bad, "C17.R1", "handle_cancellation never runs the task body", "calls on_cancel only", hc.file, bad[0].lineno if bad else hc.node.lineno, disc="no-execute")
    # canceled workflow on a RunTask path ends in CompleteTask(CANCELED)
    ok_c = False
    for p in rt.paths:
        canceled = any(e.kind == "guard" and "is_canceled" in str(e.get("text")) and e.get("truth") is True for e in p.trace)
        if canceled and p.outcome == "return":
            pushes = [e for e in p.trace if e.kind == "push"]
            if pushes and all(e.get("cls") == "CompleteTask" and e.get("status") == frozenset({"CANCELED"}) for e in pushes):
                ok_c = True
            elif pushes:
                rep.fail("C17.R5", "RunTask for a canceled workflow", f"pushes {[(e.get('cls'), e.get('status')) for e in pushes]}", pushes[0].site[0], pushes[0].site[1], disc="canceled-push")
    rep.check(ok_c, "C17.R5", "RunTask for a canceled workflow completes the task as CANCELED", "TXN{mark, push CompleteTask(CANCELED)}", "src/stabilize/handlers/run_task/error.py", 0, disc="canceled-complete")

    # ---- R2 --------------------------------------------------------------------------------------
    cw = [p for p in infos if p.handler == "CancelWorkflowHandler" and p.outcome == "return"]
    shapes = {p.shape for p in cw}
    allowed = {"AUTO store.cancel ; TXN{mark,push:CancelStage,push:CompleteWorkflow}", "AUTO store.cancel ; TXN{mark,push:CompleteWorkflow}", "TXN{mark}", "TXN{mark,push:InvalidWorkflowId}"}
    for s_ in sorted(shapes):
        site = next(p.where() for p in cw if p.shape == s_)
        rep.check(s_ in allowed, "C17.R2", f"CancelWorkflow path {s_}", "flag first, then one fan-out transaction with the mark", site[0], site[1], disc=s_)
    rep.check(any("push:CancelStage" in s_ for s_ in shapes) and any(s_.startswith("AUTO store.cancel") for s_ in shapes), "C17.R2", "CancelWorkflow fans out", "a path with the cancel flag and CancelStage + CompleteWorkflow exists", "src/stabilize/handlers/workflow_control.py", 0, disc="fanout")
    # every fan-out transaction contains CompleteWorkflow exactly once and not in a loop
    for p in cw:
        for c in p.seq:
            if c.kind == "TXN" and any(e.kind == "push" for e in c.effects):
                cwp = [e for e in c.effects if e.kind == "push" and e.get("cls") == "CompleteWorkflow"]
                if not any(e.get("cls") == "InvalidWorkflowId" for e in c.effects if e.kind == "push"):
                    rep.check(len(cwp) == 1 and not cwp[0].get("loop"), "C17.R2", "CompleteWorkflow pushed with the fan-out", "exactly one CompleteWorkflow in the fan-out transaction", c.site[0], c.site[1], disc="cw-once")
                break
    # (the selection of the stages that get CancelStage is decided by R2b below: domain = all stages, filter = status only)

    # ---- R3 --------------------------------------------------------------------------------------
    cs = [p for p in infos if p.handler == "CancelStageHandler"]
    n_w = 0
    for p in cs:
        for e in p.trace:
            if e.kind == "status_write":
                n_w += 1
                key = ("csw", e.site, tuple(sorted(e.get("to"))), tuple(sorted(e.get("frm"))))
                if key in seen:
                    continue
                seen.add(key)
                rep.check(e.get("to") == frozenset({"CANCELED"}) and not (e.get("frm") & COMPLETED), "C17.R3", f"CancelStage writes {e.get('okind')} status", f"{sorted(e.get('frm'))} -> {sorted(e.get('to'))}: only unfinished entities become CANCELED",
                          e.site[0], e.site[1], disc=f"{e.get('okind')}:{','.join(sorted(e.get('to')))}")
        if p.outcome == "return" and p.seq:
            key = ("css", p.shape)
            if key not in seen:
                seen.add(key)
                rep.check(p.shape in ("TXN{mark,store_stage}", "TXN{mark,push:InvalidStageId}"), "C17.R3", f"CancelStage path {p.shape}", "one transaction: store + mark", p.where()[0], p.where()[1], disc=p.shape)
    rep.floor("status writes on CancelStage paths", n_w, 2)
    csn = prog.func("stabilize.handlers.cancel_stage", "CancelStageHandler._handle_with_retry.on_stage").node
    loop = [n for n in ast.walk(csn) if isinstance(n, ast.For) and norm(n.iter) == "stage.tasks"]
    ok = bool(loop) and any(isinstance(i, ast.If) and "WorkflowStatus.NOT_STARTED" in norm(i.test) and "WorkflowStatus.RUNNING" in norm(i.test) for i in ast.walk(loop[0]))
    rep.check(ok, "C17.R3", "not-started and running tasks are canceled", "for task in stage.tasks: if task.status in {NOT_STARTED, RUNNING}: CANCELED", "src/stabilize/handlers/cancel_stage.py", loop[0].lineno if loop else csn.lineno, disc="task-filter")

    # ---- R4 --------------------------------------------------------------------------------------
    st = [s for s in sqlshape.statements(prog) if sqlshape.is_sqlite(s) and s.table == "pipeline_executions" and s.kind == "UPDATE" and "is_canceled" in s.sets]
    for s in st:
        if s.func.qualname == "cancel_execution":
            rep.check(s.sets.get("is_canceled") == "1", "C17.R4", "cancel_execution sets the flag", f"is_canceled = {s.sets.get('is_canceled')}", s.file, s.line, disc="set")
        else:
            rep.check(s.func.qualname == "SqliteWorkflowCrudMixin.update_status", "C17.R4", f"is_canceled written by {s.func.qualname}", "only cancel_execution and the non-transactional full update write the flag", s.file, s.line, disc=f"writer:{s.func.qualname}")
    tx = [s for s in sqlshape.statements(prog) if s.func.qualname == "AtomicTransaction.update_workflow_status"]
    rep.check(bool(tx) and "is_canceled" not in tx[0].sets, "C17.R4", "the transactional workflow update cannot clear the flag", f"sets: {list(tx[0].sets) if tx else None}", tx[0].file if tx else "", tx[0].line if tx else 0, disc="txn-update")
    bad_auto = None
    for p in infos:
        for e in p.trace:
            if e.kind == "auto" and e.get("api") in ("store.update_status", "store.store", "store.resume", "store.pause"):
                bad_auto = (p.handler, e)
    rep.check(bad_auto is None, "C17.R4", "no handler writes the workflow row from an in-memory copy", f"{bad_auto[0]} calls {bad_auto[1].get('api')}" if bad_auto else "none of store.update_status/store/resume/pause is reached on handler paths",
              bad_auto[1].site[0] if bad_auto else "", bad_auto[1].site[1] if bad_auto else 0, disc="no-full-update")

    # ---- R5 --------------------------------------------------------------------------------------
    dfs = prog.func("stabilize.handlers.complete_workflow", "CompleteWorkflowHandler._determine_final_status").node
    tests = [(norm(n.test), n) for n in dfs.body if isinstance(n, ast.If)]
    idx = {t: i for i, (t, _) in enumerate(tests)}
    c_i = idx.get("WorkflowStatus.CANCELED in statuses")
    t_i = idx.get("WorkflowStatus.TERMINAL in statuses")
    s_i = idx.get("WorkflowStatus.STOPPED in statuses")
    ok = c_i is not None and t_i is not None and t_i < c_i and (s_i is None or c_i < s_i)
    if ok:
        n = tests[c_i][1]
        ok = len(n.body) == 1 and isinstance(n.body[0], ast.Return) and norm(n.body[0].value) == "WorkflowStatus.CANCELED"
    rep.check(ok, "C17.R5", "a CANCELED stage makes the workflow CANCELED", "TERMINAL test, then `if CANCELED in statuses: return CANCELED`, before STOPPED / retry", "src/stabilize/handlers/complete_workflow.py", tests[c_i][1].lineno if c_i is not None else dfs.lineno, disc="final-canceled")
    sw = prog.func("stabilize.handlers.start_workflow", "StartWorkflowHandler._handle_with_retry.on_execution").node
    g = [n for n in sw.body if isinstance(n, ast.If) and norm(n.test) == "execution.is_canceled"]
    st_call = [n for n in sw.body if isinstance(n, ast.Expr) and norm(n).startswith("self._start(")]
    ok = bool(g) and any(isinstance(s, ast.Return) for s in g[0].body) and bool(st_call) and g[0].lineno < st_call[0].lineno
    rep.check(ok, "C17.R5", "a canceled workflow is not started", "if execution.is_canceled: ... return before _start", "src/stabilize/handlers/start_workflow.py", g[0].lineno if g else sw.lineno, disc="start-guard")

    # ---- R6: the wind-down chain is never cut ---------------------------------------------------------------------------------
    # After the cancel the workflow is finished by messages only: the cancel's own CompleteWorkflow (re-queued until every stage
    # has ended) and, for stages that get no CancelStage (synthetic children), the chain StartStage > StartTask > RunTask (guard) >
    # CompleteTask(CANCELED) > CompleteStage. A handler of that chain that consumes its message without a continuation under a
    # condition that is not a reviewed "moot" condition leaves a stage RUNNING / the workflow non-final for good.
    from .c05 import consume_rule
    rep.rule("C17.R6", "the handlers that finish a canceled workflow (CompleteWorkflow, CancelWorkflow, CancelStage, StartTask, CompleteTask, CompleteStage; StartStage in the thorough tier) consume a message without continuation only under "
             "the reviewed conditions of the consume table (shared with C05.R6) - in particular never because `is_canceled` is set, and CompleteWorkflow never stops re-queuing while a stage is unfinished")
    chain = frozenset({"CompleteWorkflowHandler", "CancelWorkflowHandler", "CancelStageHandler", "StartTaskHandler", "CompleteTaskHandler", "CompleteStageHandler", "StartStageHandler"})
    n_paths, n_cons = consume_rule(ctx, rep, "C17.R6", chain)
    rep.count(winddown_consume_paths=n_cons)
    rep.floor("consume-only paths of the wind-down chain", n_cons, 8)

    # ---- R2b: the fan-out reaches every unfinished stage -------------------------------------------------------------------
    # CancelStage does not cascade to synthetic children, so the set CancelWorkflow iterates over must be ALL stages of the
    # workflow filtered by status only, and the filter must let every non-completed status through.
    from ..statuspred import comprehension_filter, status_set
    cw = prog.cls("stabilize.handlers.workflow_control", "CancelWorkflowHandler")
    found = 0
    for mi in cw.methods.values():
        for fn in [x for x in ast.walk(mi.node) if isinstance(x, (ast.FunctionDef, ast.AsyncFunctionDef))]:
            from ..dom import parents as _parents
            par = _parents(fn)
            own_ctor = [c for c in ast.walk(fn) if isinstance(c, ast.Call) and norm(c.func).split(".")[-1] == "CancelStage"]
            for ctor in own_ctor:
                # nearest enclosing iteration: a for loop or a comprehension
                cur, it = ctor, None
                while id(cur) in par:
                    cur = par[id(cur)]
                    if isinstance(cur, ast.For):
                        it = cur.iter
                        break
                    if isinstance(cur, (ast.ListComp, ast.GeneratorExp, ast.SetComp)) and len(cur.generators) == 1:
                        it = cur.generators[0].iter
                        break
                    if isinstance(cur, (ast.FunctionDef, ast.AsyncFunctionDef)):
                        break
                if it is None:
                    continue
                loop = ctor
                for _ in range(3):
                    if not isinstance(it, ast.Name):
                        break
                    defs = [a for a in ast.walk(fn) if isinstance(a, ast.Assign) and len(a.targets) == 1 and norm(a.targets[0]) == it.id]
                    if len(defs) != 1:
                        raise AnalysisError(f"CancelWorkflow: `{it.id}` (the stages that get CancelStage) has {len(defs)} definitions")
                    it = defs[0].value
                found += 1
                cf = comprehension_filter(it)
                if cf is None:
                    dom, flt, var = norm(it), None, None
                else:
                    g, flt = cf
                    dom, var = norm(g.iter), norm(g.target)
                dom_ok = dom in ("execution.stages", "list(execution.stages)", "execution.all_stages()")
                W = frozenset(T.members) if flt is None else status_set(flt, f"{var}.status", T)
                if W is None:
                    rep.fail("C17.R2", "CancelWorkflow fan-out filter", f"`{norm(flt)}` is not a pure status predicate: stages can be left out of the fan-out for reasons other than being finished", mi.file, loop.lineno, disc="fanout-filter")
                    continue
                missing = sorted((frozenset(T.members) - COMPLETED) - W)
                ok = dom_ok and not missing
                rep.check(ok, "C17.R2", "CancelWorkflow pushes CancelStage for every unfinished stage of the workflow", f"iterates {dom} filtered to {sorted(W) if len(W) < 12 else 'all statuses'}" + ("" if ok else
                          (f": only `{dom}` is covered - CancelStage does not cascade, so unfinished stages outside it (pre-declared before/after children) stay NOT_STARTED / RUNNING in a CANCELED workflow" if not dom_ok else "") +
                          (f": stages in {missing} get no CancelStage" if missing else "")), mi.file, loop.lineno, disc="fanout-all-stages")
    if not found:
        raise AnalysisError("CancelWorkflowHandler: the loop that pushes CancelStage was not found")
