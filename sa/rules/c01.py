"""C01 - crash anywhere, restart with recovery.

Decided (structural, necessary) clauses - see DESIGN.md section 5/C01:
  R1  commit-sequence discipline of every handler path (SEQ-1 mark-last, reviewed multi-commit shapes, SEQ-5 mark-or-flip)
  R2  nothing commits inside a transaction body; the atomic transaction object never commits; the context manager commits once
  R3  recovery case split covers every durable in-flight state
  R4  zombie re-plan reachable and the claim CAS expects the status the stage was read with
  R5  an unacked message becomes visible again (poll predicate) and rows leave the queue only through ack / DLQ move / clear
"""
from __future__ import annotations

import ast
import re

from ..model import AnalysisError, norm
from ..paths import all_paths
from ..seqrules import atoms, commits_after_synthetic, path_infos, shape

# Reviewed multi-commit shapes, per handler. A path's shape must be a prefix of one of them
# (a crash or exception may end the path after any commit). (regex, quantifier)
ADD = r"AUTO store\.add_stage\*?"
MULTI = {
    "StartStageHandler": [
        # claim -> (cancel deferred-choice siblings) -> (persist synthetic before-stages) -> plan transaction (marks).
        # crash in between leaves a RUNNING stage without tasks: recovery re-queues StartStage and the zombie path re-plans (R4).
        [(r"TXN\{(claim,)?store_stage\}", "1"), (r"AUTO queue\.push:CancelStage\*?", "?"), (ADD, "?"),
         (r"TXN\{mark,push:(CompleteStage|StartStage|StartTask),store_stage\}", "1")],
        # planning failed after the claim: the error branch stores the stage with CompleteStage in one commit
        [(r"TXN\{(claim,)?store_stage\}", "1"), (r"AUTO queue\.push:CancelStage\*?", "?"), (ADD, "?"),
         (r"TXN\{push:CompleteStage,store_stage\}", "1")],
    ],
    "CompleteStageHandler": [
        # (persist planned after/on-failure stages) -> (join bookkeeping on OTHER stages: idempotent set inserts) -> one transaction
        [(ADD, "?"), (r"AUTO store\.store_stage\*?", "?"), (r"TXN\{.*\}", "1")],
    ],
    "CancelWorkflowHandler": [
        # durable cancel flag (idempotent) -> fan-out transaction with the mark
        [(r"AUTO store\.cancel", "1"), (r"TXN\{mark,.*\}", "1")],
    ],
    "StartWaitingWorkflowsHandler": [
        # each promotion is its own commit (status + StartWorkflow together); purge is an idempotent flag; the mark comes last
        [(r"TXN\{push:StartWorkflow,update_workflow_status\}", "*"), (r"AUTO store\.cancel\*?", "?"), (r"TXN\{mark\}", "1")],
    ],
}

# SEQ-5: commits that neither mark the incoming message nor provably flip the guarded status, with the reviewed reason.
NO_MARK = [
    ("StartStageHandler", r"TXN\{(claim,)?store_stage\}", "claim: the plan transaction of the same activation marks; a redelivery finds RUNNING (ignored) or the zombie path re-plans"),
    ("StartStageHandler", r"TXN\{push:CompleteStage,store_stage\}", "wait-budget / planning-error TERMINAL mark: a re-run stores the same status; the duplicate CompleteStage is absorbed by its RUNNING guard"),
    ("StartStageHandler", r"AUTO queue\.push:(StartStage|CompleteWorkflow|CancelStage)\*?", "re-queue / idempotent notification; duplicates are absorbed by the receivers' guards"),
    ("StartStageHandler", ADD, "synthetic before-stages are inserted by id (idempotent) before the plan transaction"),
    ("RunTaskHandler", r"TXN\{push:RunTask\(same\)(,store_stage)?\}", "re-poll / transient retry: executing the task again IS the step"),
    ("StartWaitingWorkflowsHandler", r"TXN\{push:StartWorkflow,update_workflow_status\}", "promotion: the row is no longer BUFFERED, so a re-run does not select it again"),
    ("StartWaitingWorkflowsHandler", r"AUTO store\.cancel\*?", "purge flag is idempotent"),
    ("StartWorkflowHandler", r"AUTO queue\.push:CancelWorkflow", "start-time expiry: CancelWorkflow is idempotent"),
    ("CompleteWorkflowHandler", r"AUTO queue\.push:CompleteWorkflow", "re-queue of the same question with retry_count+1"),
    ("ContinueParentStageHandler", r"AUTO queue\.push:ContinueParentStage", "re-queue of the same question with retry_count+1"),
    ("CompleteStageHandler", ADD, "after / on-failure stages inserted by id; _on_failure_planned guards re-planning"),
    ("CompleteStageHandler", r"AUTO store\.store_stage\*?", "join bookkeeping on downstream stages: set-insert of this ref id, idempotent"),
    ("CancelWorkflowHandler", r"AUTO store\.cancel", "cancel flag is idempotent"),
]


def _match_prefix(parts: list[str], pattern: list[tuple[str, str]]) -> bool:
    """parts (commit shapes) is a prefix of some word of the pattern."""

    def rec(i: int, j: int) -> bool:
        if i == len(parts):
            return True
        if j == len(pattern):
            return False
        rx, q = pattern[j]
        ok = re.fullmatch(rx, parts[i]) is not None
        if q == "1":
            return ok and rec(i + 1, j + 1)
        if q == "?":
            return (ok and rec(i + 1, j + 1)) or rec(i, j + 1)
        # "*"
        return (ok and rec(i + 1, j)) or rec(i, j + 1)

    return rec(0, 0)


def commit_shape(c) -> str:
    return shape([c])


def flips(pi, idx: int) -> bool:
    """The commit durably moves the message's own entity out of the status it was found in."""
    c = pi.seq[idx]
    writes = [e for e in pi.trace[: c.index] if e.kind == "status_write" and e.get("own")]
    if not writes:
        return False
    stored = [e for e in c.effects if e.kind in ("store_stage", "update_workflow_status") and e.get("own")]
    if not stored:
        return False
    for w in writes:
        # only writes on an object (or its tasks) that this commit stores
        if not (w.get("frm") & w.get("to")):
            continue
        return False
    return True


def mark_or_flip_rule(rep, rid: str, handler_infos) -> None:
    """every effectful commit of a handler path marks the incoming message in the same commit, or provably leaves the status
    the handler's entry guard requires (a redelivery is then absorbed), or is a reviewed exception (NO_MARK)"""
    seq5_seen: set = set()
    for pi in handler_infos:
        after_syn = commits_after_synthetic(pi)
        for i, c in enumerate(pi.seq):
            if i in after_syn:
                continue
            a = atoms(c)
            if not a or a == ("mark",):
                continue
            cs = commit_shape(c)
            key = (pi.handler, cs, tuple(sorted(str(sorted(e.get("status"))) for e in c.effects if e.kind == "store_stage" and e.get("own"))))
            if key in seq5_seen:
                continue
            seq5_seen.add(key)
            if "mark" in a:
                rep.ok(rid, f"{pi.handler}:{cs}", "marks the incoming message in the same commit", c.site[0], c.site[1])
                continue
            if flips(pi, i):
                rep.ok(rid, f"{pi.handler}:{cs}", "flips the guarded status (redelivery is absorbed by the entry guard)", c.site[0], c.site[1])
                continue
            listed = [r for h, rx, r in NO_MARK if h == pi.handler and re.fullmatch(rx, cs)]
            if listed:
                rep.ok(rid, f"{pi.handler}:{cs}", "listed: " + listed[0], c.site[0], c.site[1])
                continue
            rep.fail(rid, pi.handler, f"commit {cs} writes state / pushes a continuation without marking the incoming message and without provably leaving the guarded status: "
                     "a crash before the processor's own mark re-runs it", c.site[0], c.site[1], disc=cs)



def run(ctx, rep) -> None:
    prog = ctx.prog
    rep.rule("C01.R1", "every handler path: mark of the incoming message only in the last commit; multi-commit paths match a reviewed shape; every unmarked commit flips the guard status or is a reviewed idempotent step")
    rep.rule("C01.R2", "no committing call inside a transaction body; AtomicTransaction never commits; the context manager commits exactly once after the body and rolls back + re-raises on error")
    rep.rule("C01.R3", "recovery case split over (stage status, task statuses, start_time) is exhaustive and re-queues the matching message")
    rep.rule("C01.R4", "a RUNNING stage without tasks/synthetic stages reaches planning, and the claim's expected_phase equals the status the stage was read with")
    rep.rule("C01.R5", "poll predicate re-admits rows whose lock lapsed; queue rows are deleted only by ack / clear / DLQ move; ack only after the handler returned")
    rep.undecided += [
        "final statuses and per-stage data equal to an uninterrupted run for every workflow (runtime values)",
        "double crashes / crash during recovery beyond the per-commit prefix argument",
        "that only the single in-flight step is re-executed",
    ]
    rep.assumptions += [
        "SQLite commit is atomic and durable; one thread-local connection per database (DML since the last commit becomes durable together)",
        "queued messages carry a message_id (the `if message.message_id` guards are taken)",
        "loops are explored for 0 and 1 iterations; effects inside loops are treated as a set",
        "exceptions are modelled at calls only (explicit edges for store CAS failures / not-found, unknown edges for unmodelled calls)",
    ]
    res = all_paths(ctx)
    infos = path_infos(res)
    rep.count(entries=len(res), paths=len(infos), files_parsed=len(prog.modules))
    handler_infos = [p for p in infos if p.message]
    rep.floor("registered handlers with enumerated paths", len({p.handler for p in handler_infos}), 19)

    # ---- R1: SEQ-1 ---------------------------------------------------------------------------------
    commit_steps = 0
    seen_keys: set = set()
    for pi in handler_infos:
        after_syn = commits_after_synthetic(pi)
        commit_steps += len(pi.seq)
        marks = pi.marks()
        for m in marks:
            later = [i for i in range(m + 1, len(pi.seq)) if i not in after_syn]
            key = ("SEQ1", pi.handler, pi.shape)
            if later:
                c = pi.seq[m]
                rep.fail("C01.R1.SEQ1", pi.handler, f"processed-mark committed before later commit(s): {pi.shape} - a crash after commit {m + 1} loses the later effects for good (redelivery is suppressed)",
                         c.site[0], c.site[1], disc=pi.shape)
            elif key not in seen_keys:
                seen_keys.add(key)
                rep.ok("C01.R1.SEQ1", f"{pi.handler}:{pi.shape}", "mark in last commit", pi.seq[m].site[0], pi.seq[m].site[1])
    rep.count(commit_steps=commit_steps)
    rep.floor("commit steps on handler paths", commit_steps, 60)

    # ---- R1: reviewed multi-commit shapes --------------------------------------------------------------
    multi_seen: set = set()
    for pi in handler_infos:
        seq = pi.seq
        # exceptions after the fact (unknown-exception edges) are fault scenarios, not crash points: judge the crash-relevant prefix
        after_syn = commits_after_synthetic(pi)
        seq = [c for i, c in enumerate(seq) if i not in after_syn]
        if len(seq) < 2:
            continue
        parts = [commit_shape(c) for c in seq]
        # collapse repeated starred commits
        col: list[str] = []
        for s_ in parts:
            if col and col[-1] == s_:
                continue
            col.append(s_)
        key = (pi.handler, " ; ".join(col))
        if key in multi_seen:
            continue
        multi_seen.add(key)
        pats = MULTI.get(pi.handler, [])
        ok = any(_match_prefix(col, p) for p in pats)
        site = seq[1].site
        if ok:
            rep.ok("C01.R1.MULTI", f"{pi.handler}:{key[1]}", "reviewed multi-commit shape", site[0], site[1])
        else:
            rep.fail("C01.R1.MULTI", pi.handler, f"multi-commit path not in the reviewed table: {key[1]} - a crash between the commits leaves state without its continuation (or a continuation without its state)",
                     site[0], site[1], disc=key[1])
    rep.floor("distinct multi-commit shapes", len(multi_seen), 10)

    # ---- R1: SEQ-5 mark / flip / listed ----------------------------------------------------------------
    mark_or_flip_rule(rep, "C01.R1.SEQ5", handler_infos)

    # ---- R2: SEQ-3 on paths ---------------------------------------------------------------------------
    in_txn_autos = 0
    for pi in infos:
        for e in pi.trace:
            if e.kind == "auto" and e.get("in_txn"):
                in_txn_autos += 1
                rep.fail("C01.R2.SEQ3", pi.handler, f"{e.get('api')} commits by itself but is called inside a transaction body ({e.get('ctx')}): the enclosing transaction is committed half-way",
                         e.site[0], e.site[1], disc=str(e.get("api")))
            if e.kind == "txn_misuse":
                rep.fail("C01.R2.SEQ3", pi.handler, f"transaction method {e.get('name')} used outside its with-block", e.site[0], e.site[1], disc=str(e.get("name")))
    if not in_txn_autos:
        rep.ok("C01.R2.SEQ3", "all handler + recovery paths", f"no auto-committing call inside any transaction body ({sum(1 for p in infos for e in p.trace if e.kind == 'txn_begin')} transaction executions)",
               "src/stabilize/handlers", 0)
    _r2_static(ctx, rep)
    _r3_recovery(ctx, rep, res)
    _r3_planned_evidence(ctx, rep)
    _r4_zombie(ctx, rep, res)
    _r5_queue(ctx, rep)


# --------------------------------------------------------------------------------------------------
def _calls(node: ast.AST):
    for n in ast.walk(node):
        if isinstance(n, ast.Call):
            yield n


def _r2_static(ctx, rep) -> None:
    prog = ctx.prog
    # SEQ-4: no method of a StoreTransaction implementation for SQLite commits or rolls back
    cls = prog.cls("stabilize.persistence.sqlite.transaction", "AtomicTransaction")
    n_methods = 0
    for m in cls.methods.values():
        n_methods += 1
        bad = [c for c in _calls(m.node) if isinstance(c.func, ast.Attribute) and c.func.attr in ("commit", "rollback")]
        # helpers it calls with the connection must not commit either
        for c in _calls(m.node):
            if isinstance(c.func, ast.Name):
                r = prog.resolve(cls.module, c.func.id)
                if r is not None and hasattr(r, "node") and isinstance(r.node, ast.FunctionDef):
                    bad += [x for x in _calls(r.node) if isinstance(x.func, ast.Attribute) and x.func.attr in ("commit", "rollback")]
        rep.check(not bad, "C01.R2.SEQ4", f"AtomicTransaction.{m.name}", "commits/rolls back inside the atomic object: partial effects become durable" if bad else "no commit/rollback",
                  m.file, (bad[0].lineno if bad else m.node.lineno))
    rep.floor("AtomicTransaction methods", n_methods, 6)
    # context manager shape
    tx = prog.func("stabilize.persistence.sqlite.store.store", "SqliteWorkflowStore.transaction")
    tries = [n for n in ast.walk(tx.node) if isinstance(n, ast.Try)]
    ok = False
    detail = "try/yield/commit/except rollback+raise not recognised"
    line = tx.node.lineno
    for t in tries:
        body_src = [norm(s) for s in t.body]
        has_yield = any(isinstance(s, ast.Expr) and isinstance(s.value, ast.Yield) for s in t.body)
        if not has_yield:
            continue
        line = t.lineno
        yi = next(i for i, s in enumerate(t.body) if isinstance(s, ast.Expr) and isinstance(s.value, ast.Yield))
        commits_after = [s for s in t.body[yi + 1:] if "commit()" in norm(s)]
        commits_before = [s for s in t.body[:yi] if ".commit()" in norm(s)]
        n_commit_calls = sum(1 for c in _calls(tx.node) if isinstance(c.func, ast.Attribute) and c.func.attr == "commit")
        handler_ok = False
        for h in t.handlers:
            hs = [norm(s) for s in h.body]
            has_rb = any(".rollback()" in s for s in hs)
            reraises = any(isinstance(s, ast.Raise) and s.exc is None for s in h.body)
            no_commit = not any(".commit()" in s for s in hs)
            handler_ok = handler_ok or (has_rb and reraises and no_commit)
        ok = bool(commits_after) and not commits_before and n_commit_calls == 1 and handler_ok
        detail = f"yield at stmt {yi}, commits after yield={len(commits_after)}, commit calls={n_commit_calls}, handler rollback+reraise={handler_ok}"
    rep.check(ok, "C01.R2.SEQ4", "SqliteWorkflowStore.transaction", detail, tx.file, line)


def _r3_recovery(ctx, rep, res) -> None:
    """Recovery coverage: which message is re-queued under which durable state."""
    prog = ctx.prog
    fi = prog.func("stabilize.recovery", "WorkflowRecovery._recover_workflow")
    r = res.get("WorkflowRecovery._recover_workflow")
    if r is None:
        raise AnalysisError("recovery entry not enumerated")
    pushed: dict[str, int] = {}
    for p in r.paths:
        for e in p.trace:
            if e.kind == "push" or (e.kind == "auto" and e.get("api") == "queue.push"):
                pushed[str(e.get("cls"))] = pushed.get(str(e.get("cls")), 0) + 1
    for need in ("StartStage", "StartTask", "RunTask", "StartWorkflow"):
        rep.check(need in pushed, "C01.R3", f"recovery re-queues {need}", f"paths pushing it: {pushed.get(need, 0)}", fi.file, fi.node.lineno, disc=need)
    # structural case split: the chain on stage.status / task lists must end in else (no class falls through)
    # for stage in stages_to_requeue: if stage.status == RUNNING: if running_tasks ... elif not_started_tasks and start_time ... else StartStage; else StartStage
    loops = [n for n in ast.walk(fi.node) if isinstance(n, ast.For) and isinstance(n.iter, ast.Name) and n.iter.id == "stages_to_requeue"]
    if not loops:
        raise AnalysisError("recovery: loop over stages_to_requeue not found")
    outer = [s for s in loops[0].body if isinstance(s, ast.If)]
    ok = False
    detail = "case split not recognised"
    line = loops[0].lineno
    if outer:
        top = outer[0]
        line = top.lineno
        is_running_test = "stage.status == WorkflowStatus.RUNNING" in norm(top.test)
        has_else = bool(top.orelse) and any(isinstance(c, ast.Call) and getattr(c.func, "id", "") == "StartStage" for s in top.orelse for c in _calls(s))
        inner = [s for s in top.body if isinstance(s, ast.If)]
        inner_ok = False
        if inner:
            chain = inner[-1]
            branches = 1
            n = chain
            while len(n.orelse) == 1 and isinstance(n.orelse[0], ast.If):
                n = n.orelse[0]
                branches += 1
            final_else = n.orelse
            inner_ok = branches >= 2 and bool(final_else) and any(isinstance(c, ast.Call) and getattr(c.func, "id", "") == "StartStage" for s in final_else for c in _calls(s))
            run_ok = any(getattr(c.func, "id", "") == "RunTask" for c in _calls(chain))
            st_ok = any(getattr(c.func, "id", "") == "StartTask" for c in _calls(chain))
            inner_ok = inner_ok and run_ok and st_ok
        ok = is_running_test and has_else and inner_ok
        detail = f"RUNNING-test={is_running_test} else->StartStage={has_else} inner chain (RunTask / StartTask / else StartStage)={inner_ok}"
    rep.check(ok, "C01.R3", "recovery case split exhaustive", detail, fi.file, line)
    # selection of stages: RUNNING always; NOT_STARTED when it has evidence of start or its requisites are satisfied
    sel = [n for n in ast.walk(fi.node) if isinstance(n, ast.For) and "full_workflow.stages" in norm(n.iter)]
    sel_ok = False
    if sel:
        txt = norm(sel[0])
        sel_ok = "stage.status == WorkflowStatus.RUNNING" in txt and "self._has_started(stage)" in txt and "self._can_start(stage, full_workflow)" in txt and txt.count("stages_to_requeue.append(stage)") >= 3
    rep.check(sel_ok, "C01.R3", "recovery stage selection", "RUNNING | NOT_STARTED with evidence of start | NOT_STARTED with satisfied requisites are all selected", fi.file, sel[0].lineno if sel else fi.node.lineno)
    # NOT_STARTED workflow -> StartWorkflow (and only there; that no stage of such a workflow is started directly is C10.R9)
    from ..dom import conditions_at
    sw = [c for c in _calls(fi.node) if getattr(c.func, "id", "") == "StartWorkflow"]
    wf_ok = bool(sw) and all(("full_workflow.status == WorkflowStatus.NOT_STARTED", True) in conditions_at(fi.node, c) for c in sw)
    rep.check(wf_ok, "C01.R3", "recovery of a not yet started workflow", "a NOT_STARTED workflow gets StartWorkflow", fi.file, fi.node.lineno)


def _r3_planned_evidence(ctx, rep) -> None:
    """Recovery may resume TASKS of a RUNNING stage only on evidence that the stage was durably PLANNED. Evidence that the
    claim commit already makes durable (status RUNNING, start_time) proves nothing about planning."""
    prog = ctx.prog
    rec = prog.func("stabilize.recovery", "WorkflowRecovery._recover_workflow")
    branch = [n for n in ast.walk(rec.node) if isinstance(n, ast.If) and any(isinstance(c, ast.Call) and getattr(c.func, "id", "") == "StartTask" for s_ in n.body for c in ast.walk(s_))
              and "not_started_tasks" in norm(n.test)]
    if not branch:
        return
    cond = norm(branch[0].test)
    evidence = [a for a in ("stage.start_time",) if a in cond]
    sir = prog.func("stabilize.handlers.start_stage.handler", "StartStageHandler._start_if_ready")
    claim_with = [n for n in ast.walk(sir.node) if isinstance(n, ast.With) and any("expected_phase" in norm(s_) for s_ in n.body)]
    plan_call = [c for c in ast.walk(sir.node) if isinstance(c, ast.Call) and norm(c.func) == "self._plan_stage"]
    if not claim_with or not plan_call:
        raise AnalysisError("claim transaction / _plan_stage call not found in _start_if_ready")
    for ev_attr in evidence:
        writes = [n for n in ast.walk(sir.node) if isinstance(n, ast.Assign) and norm(n.targets[0]) == ev_attr and norm(n.value) != "None"]
        before_claim = [w for w in writes if w.lineno < claim_with[0].lineno]
        ok = not before_claim
        rep.check(ok, "C01.R3", f"recovery's evidence `{ev_attr}` is written by the plan commit only",
                  f"recovery pushes StartTask when `{cond}`; `{ev_attr}` is assigned at line {before_claim[0].lineno if before_claim else '-'} BEFORE the claim transaction, so the claim-only state of a stage with predefined tasks "
                  "(RUNNING, start_time set, tasks NOT_STARTED) already satisfies it: after a kill between claim and plan the first task is started on an unplanned stage (no merged upstream context)" if not ok else "ok",
                  sir.file, before_claim[0].lineno if before_claim else sir.node.lineno, disc=f"evidence:{ev_attr}")
        # The other half of the same window: SOMETHING must carry a stage on that was claimed but not planned. Recovery tests the
        # evidence; without it, it pushes StartStage, and StartStage re-plans a RUNNING stage only when it has no task and no synthetic
        # child. For a stage with predefined tasks the window is therefore survivable only if (a) the claim commit writes the
        # evidence (recovery then starts the first task - unplanned, the open finding above), or (b) StartStage's duplicate test
        # for a RUNNING stage looks at the evidence too (re-plan when it is missing).
        from ..dom import raw_conditions_at
        from ..dom import conditions_at as _ca3
        ignores = [r for r in ast.walk(sir.node) if isinstance(r, ast.Return) and r.value is None and ("stage.status == WorkflowStatus.RUNNING", True) in _ca3(sir.node, r)]
        if not ignores:
            raise AnalysisError("_start_if_ready: no 'already RUNNING - ignore' return found")
        handler_looks = any(ev_attr in norm(t) for r in ignores for t, tr in raw_conditions_at(sir.node, r)) or any(
            isinstance(a, ast.Assign) and norm(a.targets[0]) in ("has_tasks", "planned") and ev_attr in norm(a.value) for a in ast.walk(sir.node))
        survivable = bool(before_claim) or handler_looks
        rep.check(survivable, "C01.R3", "a stage with predefined tasks survives a kill between its claim and plan commits",
                  ("the claim commit writes the evidence: recovery starts the first task" if before_claim else "StartStage's RUNNING-duplicate test consults the evidence and re-plans") if survivable else
                  f"`{ev_attr}` is not durable after the claim commit, so recovery (`{cond}` false) pushes StartStage; StartStage drops it for a RUNNING stage that has tasks (zombie re-plan only for task-less stages): "
                  "stage RUNNING, tasks NOT_STARTED, queue empty for good", sir.file, (writes[0].lineno if writes else sir.node.lineno), disc=f"claim-window:{ev_attr}")


def _r4_zombie(ctx, rep, res) -> None:
    """Every claim CAS expects the status the stage was read with; the zombie (RUNNING) claim exists."""
    r = res["StartStageHandler"]
    claims: dict[tuple, dict] = {}
    for p in r.paths:
        # status of the own stage as read = `frm` of the first own status write, or the stored status if none was written
        first_write = None
        for e in p.trace:
            if e.kind == "status_write" and e.get("own") and e.get("okind") == "stage" and first_write is None:
                first_write = e
            if e.kind == "store_stage" and e.get("expected") is not None:
                read_as = first_write.get("frm") if first_write is not None else e.get("status")
                claims.setdefault((e.site, str(e.get("expected"))), {"read": set(), "e": e})["read"].add(frozenset(read_as))
    if not claims:
        rep.fail("C01.R4", "StartStageHandler claim", "no store_stage(expected_phase=...) found on any StartStage path", "src/stabilize/handlers/start_stage/handler.py", 0)
        return
    expected_vals = set()
    for (site, exp), d in claims.items():
        expected_vals.add(exp)
        for read in d["read"]:
            ok = read == frozenset([exp])
            rep.check(ok, "C01.R4", f"claim expected_phase={exp}", f"stage was read with status {sorted(read)}; a CAS expecting {exp} " + ("matches" if ok else "can never succeed / claims the wrong phase"),
                      site[0], site[1], disc=f"{exp}:{','.join(sorted(read))}")
    rep.check("RUNNING" in expected_vals, "C01.R4", "zombie re-plan path", "a RUNNING stage without tasks and synthetic stages is re-claimed (expected_phase=RUNNING) and planned" if "RUNNING" in expected_vals
              else "no path claims a RUNNING stage: a stage whose claimer crashed before planning is wedged forever", "src/stabilize/handlers/start_stage/handler.py", 0, disc="zombie")
    from .startstage_probe import join_fired_order

    n_f, bad = join_fired_order(ctx)
    rep.check(bad is None and n_f > 0, "C01.R4", "the claim commit does not make the join look fired",
              f"{n_f} _join_fired writes, all after the committed claim" if bad is None else "_join_fired becomes durable with the claim commit: after a kill between claim and plan every StartStage (redelivered or pushed by recovery) is answered NOT_READY "
              "('already fired'), so the zombie re-plan is unreachable and the stage ends TERMINAL", (bad or ("src/stabilize/handlers/start_stage/handler.py", 0))[0], (bad or ("", 0))[1], disc="join-fired-before-claim")
    rep.check("NOT_STARTED" in expected_vals, "C01.R4", "regular claim path", "NOT_STARTED claim present", "src/stabilize/handlers/start_stage/handler.py", 0, disc="regular")


def _r5_queue(ctx, rep) -> None:
    from .. import sqlshape

    sqlshape.rule_lock_visibility(ctx, rep, "C01.R5")
    sqlshape.rule_queue_deleters(ctx, rep, "C01.R5")
    sqlshape.rule_ack_after_handle(ctx, rep, "C01.R5")
    sqlshape.rule_timestamp_normalised(ctx, rep, "C01.R5")
    # every new queue row gets an identity of its own. queue_messages.message_id is UNIQUE; a handler may push the very message
    # object it is handling again (a polling task re-queues its RunTask). If the row id were taken from that object, a redelivery
    # after a crash (old re-push still queued) collides: IntegrityError, the healthy task is failed TERMINAL.
    import re as _re
    prog = ctx.prog
    msg_cls = prog.cls("stabilize.queue.messages", "Message")
    msg_fields = {st.target.id for st in msg_cls.node.body if isinstance(st, ast.AnnAssign) and isinstance(st.target, ast.Name)}
    qins = [s_ for s_ in sqlshape.statements(prog) if s_.kind == "INSERT" and "message_id" in s_.cols and "payload" in s_.cols and "dlq" not in s_.table.lower() and (rep.tier == "thorough" or sqlshape.is_sqlite(s_))]
    rep.floor("INSERTs into the queue table (row identity)", len(qins), 2)
    for s_ in qins:
        v = s_.vals[s_.cols.index("message_id")].strip()
        m_ = _re.match(r"[:%]\(?(\w+)\)?s?$", v)
        bound = s_.params.get(m_.group(1)) if m_ else None
        if bound is None and m_ and "*" in s_.params:
            # parameters passed as a local dict variable: look the key up in its literal definition
            for a in ast.walk(s_.func.node):
                if isinstance(a, ast.Assign) and len(a.targets) == 1 and norm(a.targets[0]) == str(s_.params["*"]) and isinstance(a.value, ast.Dict):
                    for k_, v_ in zip(a.value.keys, a.value.values):
                        if isinstance(k_, ast.Constant) and k_.value == m_.group(1):
                            bound = norm(v_)
        expr = None
        if bound is not None:
            try:
                expr = ast.parse(str(bound), mode="eval").body
            except SyntaxError:
                expr = None
        # resolve a local name to its single definition in the function
        for _ in range(3):
            if isinstance(expr, ast.Name):
                defs = [a for a in ast.walk(s_.func.node) if isinstance(a, ast.Assign) and len(a.targets) == 1 and norm(a.targets[0]) == expr.id]
                expr = defs[-1].value if defs else None
        inherited = []
        fresh = False
        if expr is not None:
            from ..dom import expand_locals
            try:
                expr = expand_locals(expr, s_.func.node, 3)
            except Exception:      # noqa: BLE001 - expansion is best effort; the unexpanded expression is still checked
                pass
            for n in ast.walk(expr):
                if isinstance(n, ast.Call) and norm(n.func).split(".")[-1] in ("uuid4", "uuid1", "ULID", "new_ulid", "uuid7"):
                    fresh = True
                if isinstance(n, ast.Attribute) and isinstance(n.value, ast.Name) and n.value.id in ("message", "msg") and n.attr in msg_fields:
                    inherited.append(n.attr)
                if isinstance(n, ast.Call) and norm(n.func) == "getattr" and len(n.args) >= 2 and isinstance(n.args[1], ast.Constant) and n.args[1].value in msg_fields and norm(n.args[0]) in ("message", "msg"):
                    inherited.append(n.args[1].value)
        ok = fresh and not inherited
        rep.check(ok, "C01.R5", f"{s_.func.qualname}: a pushed message gets a fresh row identity", f"message_id <- `{norm(expr) if expr is not None else v}`" + ("" if ok else
                  (f": taken from the pushed object's field {inherited} - a handler that re-queues the message it is handling inserts a second row with the same UNIQUE message_id; after a crash before the ack the redelivered "
                   "copy collides with the first re-push (IntegrityError) and the healthy task is failed" if inherited else ": no fresh id is generated")), s_.file, s_.line, disc=f"fresh-row-id:{s_.func.qualname}")
