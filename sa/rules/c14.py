"""C14 - transient failures: bounded number of retries, saved progress is kept.

  R1  handle_exception: retry only when is_transient(e) and B + 1 < max_attempts, otherwise _mark_terminal; the limit defaults to 10
  R2  the retry message carries B := B + 1
  R3  the budget field B survives the queue round trip (dataflow through both push paths, the deserialiser and poll_one)
  R4  a context_update / a RUNNING result is stored in the same commit as the retry message, on a stage read inside the retried closure
"""
from __future__ import annotations

import ast
import re

from .. import sqlshape
from ..model import AnalysisError, norm
from ..paths import all_paths
from ..seqrules import path_infos, shape

ERR = "stabilize.handlers.run_task.error"


def _calls(node, name=None):
    for n in ast.walk(node):
        if isinstance(n, ast.Call):
            f = n.func
            nm = f.attr if isinstance(f, ast.Attribute) else (f.id if isinstance(f, ast.Name) else "")
            if name is None or nm == name:
                yield n


def run(ctx, rep) -> None:
    prog = ctx.prog
    rep.rule("C14.R1", "handle_exception: _handle_transient_retry is reached only under is_transient(exception) and B + 1 < max_attempts (B read from the incoming message); every other path reaches _mark_terminal; max_attempts defaults to 10")
    rep.rule("C14.R2", "the retry message's budget field is set to B + 1")
    rep.rule("C14.R3", "the budget field is serialised by both push paths, not discarded by deserialize_message and not overwritten by poll_one - or it travels in a column that push writes from it and poll reads back")
    rep.rule("C14.R4", "context_update: store_stage(fresh stage) + retry push in ONE transaction; RUNNING result: store_stage + re-push in one transaction")
    rep.undecided += ["backoff durations", "what a task does with the saved context"]
    he = prog.func(ERR, "handle_exception")
    fn = he.node
    # ---- R1 --------------------------------------------------------------------------------------
    top = [s for s in fn.body if isinstance(s, ast.If) and norm(s.test) == "is_transient(exception)"]
    if len(top) != 1:
        rep.fail("C14.R1", "handle_exception: transient test", "`if is_transient(exception):` not found at top level", he.file, fn.lineno, disc="transient-test")
        return
    t = top[0]
    retry_calls = list(_calls(fn, "_handle_transient_retry"))
    term_calls = list(_calls(fn, "_mark_terminal"))
    guard = None
    for n in ast.walk(t):
        if isinstance(n, ast.If) and any(c in list(ast.walk(n)) for c in retry_calls):
            guard = n
    ok = len(retry_calls) == 1 and guard is not None and all(any(c is x for s in guard.body for x in ast.walk(s)) for c in retry_calls)
    m = re.fullmatch(r"(\w+) \+ 1 < (\w+)", norm(guard.test)) if guard is not None else None
    rep.check(ok and m is not None, "C14.R1", "retry only below the budget", f"guard: {norm(guard.test) if guard is not None else None}", he.file, guard.lineno if guard is not None else fn.lineno, disc="guard")
    if not (ok and m):
        return
    bvar, limvar = m.group(1), m.group(2)
    # the retry branch returns; everything else falls to _mark_terminal at the end of the function
    ret_after = any(isinstance(s, ast.Return) for s in guard.body)
    last = fn.body[-1]
    term_last = isinstance(last, ast.Expr) and isinstance(last.value, ast.Call) and norm(last.value.func) == "_mark_terminal"
    rep.check(ret_after and term_last and len(term_calls) == 1, "C14.R1", "every non-retry path marks the task terminal", "retry branch returns; the function ends in _mark_terminal(...)", he.file, last.lineno, disc="terminal")
    # definitions of B and the limit
    bdef = [n for n in ast.walk(t) if isinstance(n, ast.Assign) and norm(n.targets[0]) == bvar]
    ldef = [n for n in ast.walk(t) if isinstance(n, ast.Assign) and norm(n.targets[0]) == limvar]
    fm = re.fullmatch(r"message\.(\w+)( or 0)?", norm(bdef[0].value)) if len(bdef) == 1 else None
    rep.check(fm is not None, "C14.R1", "the attempt counter is read from the incoming message", f"{bvar} = {norm(bdef[0].value) if bdef else None}", he.file, bdef[0].lineno if bdef else fn.lineno, disc="counter")
    lm = re.fullmatch(r"message\.max_attempts or (\d+)", norm(ldef[0].value)) if len(ldef) == 1 else None
    rep.check(lm is not None and lm.group(1) == "10", "C14.R1", "the limit defaults to the documented 10", f"{limvar} = {norm(ldef[0].value) if ldef else None}", he.file, ldef[0].lineno if ldef else fn.lineno, disc="limit")
    mm = prog.module("stabilize.queue.messages").classes["Message"].node
    mdef = [s for s in mm.body if isinstance(s, ast.AnnAssign) and norm(s.target) == "max_attempts"]
    rep.check(bool(mdef) and "default=10" in norm(mdef[0].value), "C14.R1", "Message.max_attempts defaults to 10", norm(mdef[0].value) if mdef else "", "src/stabilize/queue/messages.py", mdef[0].lineno if mdef else 0, disc="msg-default")
    if fm is None:
        return
    field = fm.group(1)
    rep.count(budget_field=field)

    # ---- R2 --------------------------------------------------------------------------------------
    tr = prog.func(ERR, "_handle_transient_retry")
    tn = tr.node
    # position of the counter argument in the call -> parameter name in the callee
    call = retry_calls[0]
    params = [a.arg for a in tn.args.args]
    cparam = None
    for i, a in enumerate(call.args):
        if norm(a) == bvar and i < len(params):
            cparam = params[i]
    nxt = [n for n in ast.walk(tn) if isinstance(n, ast.Assign) and cparam and norm(n.value) == f"{cparam} + 1"]
    nvar = norm(nxt[0].targets[0]) if nxt else None
    rmsg = [n for n in ast.walk(tn) if isinstance(n, ast.Assign) and isinstance(n.value, ast.Call) and norm(n.value.func) == "message.copy_with_attempts"]
    sets_field = False
    if rmsg and nvar:
        rv = norm(rmsg[0].targets[0])
        if field == "attempts" and norm(rmsg[0].value.args[0]) == nvar:
            sets_field = True
        for n in ast.walk(tn):
            if isinstance(n, ast.Assign) and norm(n.targets[0]) == f"{rv}.{field}" and norm(n.value) == nvar:
                sets_field = True
    rep.check(sets_field, "C14.R2", f"retry message carries {field} + 1", f"next = {cparam} + 1; retry message field `{field}` := next" if sets_field else f"the retry message does not set `{field}` to the incremented counter",
              tr.file, rmsg[0].lineno if rmsg else tn.lineno, disc="increment")
    pushed = [c for c in _calls(tn) if norm(c.func).endswith("execute_atomic")]
    ok = bool(pushed) and rmsg and all(norm(rmsg[0].targets[0]) in norm(c) for c in pushed)
    rep.check(bool(ok), "C14.R2", "the incremented message is the one that is pushed", f"{len(pushed)} execute_atomic call(s) push the retry message", tr.file, tn.lineno, disc="pushed")

    # ---- R4b: which exception the saved progress is taken from ------------------------------------------------------
    # The executor wraps a task's exception (BulkheadError -> TransientError [-> the user's own cause]). The progress travels
    # on the TransientError: it must be looked up on the exception handed in first and then on its causes NEAREST FIRST.
    from ..chain import resolve as _resolve_chain
    ht = prog.func("stabilize.handlers.run_task.error", "RunTaskErrorMixin._handle_transient_retry") if "RunTaskErrorMixin" in prog.module("stabilize.handlers.run_task.error").classes else None
    if ht is None:
        cands_ = [f_ for f_ in prog.all_functions() if f_.module.name == "stabilize.handlers.run_task.error" and f_.qualname.endswith("_handle_transient_retry")]
        ht = cands_[0] if cands_ else None
    if ht is None:
        raise AnalysisError("_handle_transient_retry not found")
    ch = _resolve_chain(prog, ht, "context_update")
    srcs = [s_.replace('"', "'") for _, s_ in ch]
    okc = len(ch) >= 1 and srcs[0] == "getattr(exception, 'context_update', None)" and all(c_ == "none" for c_, _ in ch[1:]) \
        and all(x == "getattr(exception" + ".__cause__" * i_ + ", 'context_update', None)" for i_, x in enumerate(srcs))
    rep.check(okc, "C14.R4", "saved progress is read from the failing exception, then from its causes nearest first", f"lookup order {srcs}" if okc else
              f"context_update resolves as {ch}: the progress attached to a TransientError is looked up on another exception of the chain first (e.g. the root cause), so `raise TransientError(..., context_update=...) from exc` "
              "loses it - the next attempt starts without the saved progress and a task that can only finish incrementally burns its whole budget", ht.file, ht.node.lineno, disc="progress-source")

    # ---- R3 round trip -------------------------------------------------------------------------------
    ser = prog.module("stabilize.queue.sqlite.serialization")
    des = ser.functions["deserialize_message"].node
    discards = set()
    for c in _calls(des, "pop"):
        if norm(c.func) == "data.pop" and c.args and isinstance(c.args[0], ast.Constant):
            discards.add(c.args[0].value)
    poll = prog.func("stabilize.queue.sqlite.queue", "SqliteQueue.poll_one").node
    overwritten = {}
    for n in ast.walk(poll):
        if isinstance(n, ast.Assign) and norm(n.targets[0]).startswith("message."):
            overwritten[norm(n.targets[0]).split(".", 1)[1]] = norm(n.value)
    # serialisers: generic __dict__ loops that skip only `_`-prefixed keys
    generic = []
    for qual, modname in (("serialize_message", "stabilize.queue.sqlite.serialization"), ("AtomicTransaction.push_message", "stabilize.persistence.sqlite.transaction")):
        f = prog.func(modname, qual)
        loops = [n for n in ast.walk(f.node) if isinstance(n, ast.For) and norm(n.iter) == "message.__dict__.items()"]
        skips = [norm(i.test) for l in loops for i in ast.walk(l) if isinstance(i, ast.If) and any(isinstance(s, ast.Continue) for s in i.body)]
        generic.append((qual, bool(loops) and all(s == 'key.startswith("_")' or s == "key.startswith('_')" for s in skips), f))
    in_payload = all(g for _, g, _ in generic) and not field.startswith("_")
    survives_payload = in_payload and field not in discards and field not in overwritten
    # column route: INSERT writes a column from message.<field> and poll reads it back into message.<field>
    col_route = False
    col_detail = ""
    if field in overwritten:
        src = overwritten[field]           # e.g. attempts + 1 (from row["attempts"])
        ins = [s for s in sqlshape.statements(prog) if s.kind == "INSERT" and sqlshape.is_sqlite(s) and s.table in (sqlshape.QUEUE_T, "queue_messages") and s.func.qualname != "SqliteDLQMixin.replay_dlq"]
        wrote = []
        for s in ins:
            if field in s.cols:
                v = s.vals[s.cols.index(field)]
                mpar = re.match(r":(\w+)", v)
                wrote.append((s.func.qualname, s.params.get(mpar.group(1)) if mpar else v))
        col_route = bool(wrote) and all(f"message.{field}" in str(v) or f'"{field}"' in str(v) for _, v in wrote)
        col_detail = f"poll sets message.{field} = {src}; INSERTs write column {field} = {wrote}"
    ok = survives_payload or col_route
    detail = (f"field `{field}`: serialised by the generic payload loops={in_payload}; discarded by deserialize_message={field in discards} (discards: {sorted(discards)}); "
              f"overwritten by poll_one={field in overwritten}. {col_detail}")
    if not ok:
        detail += " => the counter restarts on every round trip: a permanently transient task is retried forever"
    rep.check(ok, "C14.R3", f"budget field `{field}` survives the queue", detail, he.file, bdef[0].lineno, disc=f"roundtrip:{field}")
    for qual, g, f in generic:
        rep.check(g, "C14.R3", f"{qual} serialises every public field", "for key, value in message.__dict__.items(): skip only `_`-prefixed keys", f.file, f.node.lineno, disc=f"generic:{qual}")
    # the row's delivery counter starts at 0 in EVERY insert into the queue table (sibling agreement): if one push path seeds
    # it from the message, the retry budget and the delivery counter add up and the row is dead-lettered / refused early
    from .. import sqlshape as _sq
    qins = [s_ for s_ in _sq.statements(prog) if s_.kind == "INSERT" and "attempts" in s_.cols and ("queue" in s_.table or "table_name" in s_.table) and "dlq" not in s_.table.lower() and (rep.tier == "thorough" or _sq.is_sqlite(s_))]
    rep.floor("INSERTs into the queue table", len(qins), 3)
    for s_ in qins:
        v_ = s_.vals[s_.cols.index("attempts")].strip()
        rep.check(v_ == "0", "C14.R3", f"{s_.func.qualname}: a new queue row starts with attempts = 0", "literal 0" if v_ == "0" else
                  f"attempts is written from `{v_}` ({s_.params.get(v_.lstrip(':%(').rstrip(')s'), '?')}): poll's `attempts < max_attempts` and the DLQ sweep then count the retry budget on top of the deliveries - "
                  "with a small queue limit the k-th retry is born exhausted and the task stays RUNNING forever", s_.file, s_.line, disc=f"attempts-zero:{s_.func.qualname}")
    rep.check(discards <= {"message_id", "created_at", "attempts", "max_attempts", "last_error", "last_error_type"}, "C14.R3", "deserialize_message discards only base-Message metadata", f"discards: {sorted(discards)}", "src/stabilize/queue/sqlite/serialization.py", des.lineno, disc="discards")

    # ---- R4 --------------------------------------------------------------------------------------
    res = all_paths(ctx)
    infos = [p for p in path_infos(res) if p.handler == "RunTaskHandler"]
    with_store = 0
    split = None
    for pi in infos:
        for i, c in enumerate(pi.seq):
            pushes_same = [e for e in c.effects if (e.kind == "push" or (e.kind == "auto" and e.get("api") == "queue.push")) and e.get("cls") == "RunTask" and e.get("same")]
            if not pushes_same:
                continue
            if any(e.kind == "store_stage" for e in c.effects):
                with_store += 1
            # a store of the own stage in an EARLIER commit of the same path, followed by the retry push in a later one
            earlier = [x for x in pi.seq[:i] if any(e.kind in ("store_stage",) or (e.kind == "auto" and e.get("api") == "store.store_stage") for e in x.effects)]
            if earlier:
                split = c.site
    # the stage that carries the saved progress is re-read inside the closure that retry_on_concurrency_error re-runs
    stale = None
    n_fresh = 0
    for pi in infos:
        for c in pi.seq:
            if not any((e.kind == "push") and e.get("cls") == "RunTask" and e.get("same") for e in c.effects):
                continue
            for e in c.effects:
                if e.kind == "store_stage":
                    n_fresh += 1
                    parts = str(e.get("ctx")).split(">")
                    idx = [i for i, q in enumerate(parts) if q.split(".")[-1] == "retry_on_concurrency_error"]
                    fresh = str(e.get("fresh_ctx") or "")
                    if not idx or fresh.split(">")[: idx[-1] + 1] != parts[: idx[-1] + 1]:
                        stale = (e.site, fresh)
    rep.check(stale is None and n_fresh > 0, "C14.R4", "the progress is stored on a stage re-read on every retry pass", f"{n_fresh} store(s) next to a retry/re-poll push, all on a stage read inside the retried closure" if stale is None else
              f"the stage stored with the retry/re-poll message was read at [{stale[1]}], outside the closure that is re-run on a version conflict: every pass resubmits the same stale copy, the saved context is lost and the poll counts as a failure",
              (stale[0] if stale else ("src/stabilize/handlers/run_task/handler.py", 0))[0], (stale[0] if stale else ("", 0))[1], disc="fresh")
    rep.check(with_store > 0, "C14.R4", "saved progress and the retry / re-poll message share a commit", f"{with_store} path(s) with TXN{{store_stage, push RunTask(same)}}", "src/stabilize/handlers/run_task/error.py", 0, disc="same-commit")
    rep.check(split is None, "C14.R4", "no path stores the stage and pushes the retry in different commits", "store and retry push split across commits: a crash in between loses the retry or the progress" if split else "none", (split or ("", 0))[0], (split or ("", 0))[1], disc="split")
    # source shape: context_update branch stores the fresh stage with the retry message
    upd = prog.func(ERR, "_handle_transient_retry.do_update_context").node
    t_ = norm(upd)
    ok = "fresh_stage = repository.retrieve_stage(message.stage_id)" in t_ and "fresh_stage.context.update(context_update)" in t_ and "stage=fresh_stage" in t_ and "retry_message" in t_
    rep.check(ok, "C14.R4", "context_update is merged into a freshly read stage and stored with the retry message", "", tr.file, upd.lineno, disc="ctx-update")
    hr = prog.func("stabilize.handlers.run_task.result", "_handle_running").node
    t_ = norm(hr)
    rep.check("stage=stage" in t_ and "messages_to_push=[(message, delay.total_seconds())]" in t_, "C14.R4", "a RUNNING result stores the stage and re-pushes in one transaction", "", "src/stabilize/handlers/run_task/result.py", hr.lineno, disc="running")
