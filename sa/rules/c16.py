"""C16 - a stage sees exactly its ancestors' outputs, the nearest ancestor winning.

The property as a whole quantifies over run-time values (which value a key ends up with for every DAG, schedule and loop
iteration). Decided here are its structural necessary conditions - each one, when broken, breaks the behaviour:

  R1  ancestors only, all of them: in get_merged_ancestor_outputs (every store implementation) the merged set is the
      transitive closure of `requisites` from the starting stage, the stage itself excluded (worklist seeded with the
      start ref, grows only through requisites of visited nodes, re-enqueues what it adds)
  R2  nearest ancestor wins: the merge walks the ancestors in an order in which a stage follows its requisites (Kahn:
      edge requisite -> dependant, emitted at in-degree 0) and a later non-list value overwrites an earlier one;
      two lists are concatenated without duplicates - in the ancestor merge AND in the own-context overlay (siblings)
  R3  precedence in _plan_stage: ancestors first, reducer results on top of them, then the stage's OWN context keys
      (reducer keys excepted), and the result becomes stage.context
  R4  current iteration only: reset_stage_for_retry clears the re-armed stage's outputs; keys a stage inherited from its
      ancestors at an earlier planning are not treated as its own at the next planning (they are recorded and skipped
      by the overlay) - otherwise the previous iteration's values shadow the current ones
  R5  reducers: every built-in named order-insensitive (sum/max/min) folds ALL branch values with a commutative
      operation; apply_output_reducers takes the key's value from every upstream that has it; _plan_stage feeds it every
      upstream's outputs
"""
from __future__ import annotations

import ast

from ..model import AnalysisError, norm

PLANNER = "stabilize.handlers.start_stage.planner"


def _calls(node, name=None):
    for n in ast.walk(node):
        if isinstance(n, ast.Call):
            f = n.func
            nm = f.attr if isinstance(f, ast.Attribute) else (f.id if isinstance(f, ast.Name) else "")
            if name is None or nm == name:
                yield n


def _parents(fn):
    par = {}
    for n in ast.walk(fn):
        for c in ast.iter_child_nodes(n):
            par[id(c)] = n
    return par


def _enclosing(node, par, kinds):
    cur = node
    while id(cur) in par:
        cur = par[id(cur)]
        if isinstance(cur, kinds):
            return cur
    return None


def _list_merge_shape(loop_body_if: ast.If, dst: str, key: str = "key", value: str = "value") -> bool:
    """if key in DST and isinstance(DST[key], list) and isinstance(value, list): extend-without-duplicates else DST[key] = value"""
    t = norm(loop_body_if.test)
    cond = f"{key} in {dst}" in t and f"isinstance({dst}[{key}], list)" in t and f"isinstance({value}, list)" in t and isinstance(loop_body_if.test, ast.BoolOp) and isinstance(loop_body_if.test.op, ast.And)
    # the true branch appends the new list's items that are not there yet, to the existing list
    alias = [norm(s.targets[0]) for s in loop_body_if.body if isinstance(s, ast.Assign) and norm(s.value) == f"{dst}[{key}]"]
    ex = alias[0] if alias else f"{dst}[{key}]"
    loops = [s for s in loop_body_if.body if isinstance(s, ast.For) and norm(s.iter) == value]
    dedupe = False
    for lp in loops:
        it = norm(lp.target)
        dedupe = dedupe or any(isinstance(i, ast.If) and norm(i.test) == f"{it} not in {ex}" and any(norm(x) == f"{ex}.append({it})" for x in i.body) for i in lp.body)
    els = [norm(s_) for s_ in loop_body_if.orelse]
    return cond and dedupe and els == [f"{dst}[{key}] = {value}"]


def _check_ancestor_merge(rep, fi, label: str) -> None:
    fn = fi.node
    par = _parents(fn)
    # ---- R1: closure over requisites --------------------------------------------------------------------------
    adds = [c for c in _calls(fn, "add") if norm(c.func) == "ancestors.add"]
    ok = len(adds) == 1
    detail = ""
    if ok:
        a = adds[0]
        x = norm(a.args[0])
        f = _enclosing(a, par, (ast.For,))
        w = _enclosing(a, par, (ast.While,))
        g = _enclosing(a, par, (ast.If,))
        from_reqs = f is not None and norm(f.target) == x and "requisites" in norm(f.iter)
        worklist = w is not None and norm(w.test) in ("queue", "len(queue) > 0", "queue != []")
        reenq = any(norm(c.func) == "queue.append" and norm(c.args[0]) == x for c in _calls(f or fn, "append"))
        guarded = g is not None and norm(g.test) == f"{x} not in visited" and any(norm(c.func) == "visited.add" and norm(c.args[0]) == x for c in _calls(g, "add"))
        node_from_queue = any(isinstance(s, ast.Assign) and norm(s.targets[0]) == "current" and norm(s.value).startswith("queue.pop(") for s in ast.walk(w or fn)) and "nodes.get(current)" in norm(w or fn)
        ok = from_reqs and worklist and reenq and guarded and node_from_queue
        detail = f"requisites-of-visited={from_reqs}, worklist={worklist}, added node re-enqueued={reenq}, visited-guard={guarded}, node taken from the worklist={node_from_queue}"
    rep.check(ok, "C16.R1", f"{label}: ancestors = transitive closure of requisites", detail or f"{len(adds)} ancestors.add sites", fi.file, adds[0].lineno if adds else fn.lineno, disc=f"closure:{label}")
    inits = {norm(s.targets[0]): norm(s.value) for s in ast.walk(fn) if isinstance(s, ast.Assign) and len(s.targets) == 1 and isinstance(s.targets[0], ast.Name)}
    seeds = [s for s in ast.walk(fn) if isinstance(s, ast.Assign) and norm(s.targets[0]) == "queue" and norm(s.value) == "[stage_ref_id]"]
    ok = bool(seeds) and any(isinstance(s, ast.Assign) and norm(s.targets[0]) == "ancestors" and norm(s.value) in ("set()",) for s in ast.walk(fn)) and \
        any(isinstance(s, (ast.Assign, ast.AnnAssign)) and norm(s.targets[0] if isinstance(s, ast.Assign) else s.target) == "visited" and norm(s.value) == "{stage_ref_id}" for s in ast.walk(fn))
    rep.check(ok, "C16.R1", f"{label}: the walk starts at the stage and excludes it", "queue = [stage_ref_id]; visited = {stage_ref_id}; ancestors = set()", fi.file, seeds[0].lineno if seeds else fn.lineno, disc=f"seed:{label}")
    # only ancestors' outputs are merged
    rets = [n for n in fn.body if isinstance(n, ast.Return) and isinstance(n.value, ast.Name)]
    dst = rets[-1].value.id if rets else "merged_result"
    merge_assign = [s_ for s_ in ast.walk(fn) if isinstance(s_, ast.Assign) and isinstance(s_.targets[0], ast.Subscript) and norm(s_.targets[0].value) == dst]
    outer = None
    inner = None
    for s_ in merge_assign:
        o = _enclosing(s_, par, (ast.For,))
        inner = inner or o
        while o is not None and norm(o.iter) != "sorted_ancestors":
            o = _enclosing(o, par, (ast.For,))
        outer = outer or o
    src_ok = False
    if outer is not None:
        aid = norm(outer.target)
        for s_ in outer.body:
            tgt = s_.targets[0] if isinstance(s_, ast.Assign) else s_.target if isinstance(s_, ast.AnnAssign) else None
            if tgt is not None and s_.value is not None and norm(s_.value).replace('"', "'") == f"nodes[{aid}]['outputs']" and inner is not None and norm(inner.iter) == f"{norm(tgt)}.items()":
                src_ok = True
    rep.check(src_ok, "C16.R1", f"{label}: only ancestors' outputs are merged", "for aid in sorted_ancestors: for key, value in nodes[aid]['outputs'].items()", fi.file, outer.lineno if outer is not None else fn.lineno, disc=f"merge-source:{label}")
    # ---- R2: topological order + overwrite ---------------------------------------------------------------------
    edge = [c for c in _calls(fn, "append") if norm(c.func) == "graph[req].append" and norm(c.args[0]) == "aid"]
    deg = [s for s in ast.walk(fn) if isinstance(s, ast.AugAssign) and norm(s.target) == "in_degree[aid]" and isinstance(s.op, ast.Add)]
    same_if = bool(edge) and bool(deg) and _enclosing(edge[0], par, (ast.If,)) is _enclosing(deg[0], par, (ast.If,)) and norm(_enclosing(edge[0], par, (ast.If,)).test) == "req in ancestors"
    req_loop = bool(edge) and (lambda f_: f_ is not None and norm(f_.target) == "req" and "requisites" in norm(f_.iter) and "aid" in norm(f_.iter))(_enclosing(edge[0], par, (ast.For,)))
    emit = [c for c in _calls(fn, "append") if norm(c.func) == "sorted_ancestors.append"]
    kahn = False
    if emit:
        w = _enclosing(emit[0], par, (ast.While,))
        if w is not None:
            wt = norm(w)
            kahn = f"{norm(emit[0].args[0])} = queue.pop(0)" in wt and "in_degree[v] -= 1" in wt and "if in_degree[v] == 0:" in wt and "queue.append(v)" in wt and f"for v in graph[{norm(emit[0].args[0])}]" in wt
    init_q = any(isinstance(s, ast.Assign) and norm(s.targets[0]) == "queue" and "in_degree[aid] == 0" in norm(s.value) and "for aid in ancestors" in norm(s.value) for s in ast.walk(fn))
    rep.check(same_if and req_loop and kahn and init_q, "C16.R2", f"{label}: a stage is merged after all of its own requisites", f"edge requisite->dependant with in-degree on the dependant={same_if and req_loop}; emitted at in-degree 0 (Kahn)={kahn}; roots first={init_q}",
              fi.file, emit[0].lineno if emit else fn.lineno, disc=f"order:{label}")
    ifs = [n for n in ast.walk(outer) if isinstance(n, ast.If)] if outer is not None else []
    kv = [norm(e) for e in inner.target.elts] if inner is not None and isinstance(inner.target, ast.Tuple) and len(inner.target.elts) == 2 else ["key", "value"]
    shape_ok = any(_list_merge_shape(i, dst, kv[0], kv[1]) for i in ifs)
    rep.check(shape_ok, "C16.R2", f"{label}: later value overwrites, two lists concatenate without duplicates", "if key in merged and both are lists: extend without duplicates else merged[key] = value", fi.file, outer.lineno if outer is not None else fn.lineno, disc=f"overwrite:{label}")


CACHE_DECORATORS = ("lru_cache", "cache", "cached", "memoize", "cached_property")
FRESH_CALLS = ("json.loads", "loads", "dict", "list", "copy.deepcopy", "deepcopy", "copy.copy")


def _fresh_source(e: ast.expr, fi, prog, depth: int = 0):
    """(True, how) when evaluating `e` yields an object nobody else holds (a new parse / copy / row value from the driver);
    (False, why) when it may hand out a shared object (memoised function, module-level state); (None, what) when unknown."""
    if isinstance(e, ast.BoolOp):
        rs = [_fresh_source(v, fi, prog, depth) for v in e.values]
        bad = [r for r in rs if r[0] is not True]
        return bad[0] if bad else (True, "each alternative fresh")
    if isinstance(e, (ast.Dict, ast.List, ast.Set, ast.Constant, ast.ListComp, ast.DictComp, ast.SetComp)):
        return True, "literal / comprehension"
    if isinstance(e, ast.Subscript) and isinstance(e.value, ast.Name) and isinstance(e.slice, ast.Constant) and isinstance(e.slice.value, (str, int)):
        return True, "column value handed out by the driver for this fetch"
    if isinstance(e, ast.IfExp):
        for br in (e.body, e.orelse):
            r = _fresh_source(br, fi, prog, depth)
            if r[0] is not True:
                return r
        return True, "both alternatives fresh"
    if isinstance(e, ast.Call):
        fn_txt = norm(e.func)
        if fn_txt in FRESH_CALLS:
            return True, fn_txt
        callee = None
        if isinstance(e.func, ast.Name):
            callee = fi.module.functions.get(e.func.id)
            if callee is None:
                for imp in ast.walk(fi.module.tree):
                    if isinstance(imp, ast.ImportFrom) and imp.module and any((a.asname or a.name) == e.func.id for a in imp.names):
                        m = prog.modules.get(imp.module)
                        if m is not None:
                            callee = m.functions.get(next(a.name for a in imp.names if (a.asname or a.name) == e.func.id))
        if callee is None:
            return None, f"call to `{fn_txt}` could not be resolved"
        decos = [norm(d.func) if isinstance(d, ast.Call) else norm(d) for d in callee.node.decorator_list]
        cached = [d for d in decos if d.split(".")[-1] in CACHE_DECORATORS]
        if cached:
            return False, f"`{callee.qualname}` is memoised (@{cached[0]}): every caller receives the SAME object for equal arguments"
        if depth > 3:
            return None, "resolution depth"
        rets = [r.value for r in ast.walk(callee.node) if isinstance(r, ast.Return) and r.value is not None]
        if not rets:
            return None, f"`{callee.qualname}` returns nothing recognisable"
        for rv in rets:
            r = _fresh_source(rv, callee, prog, depth + 1)
            if r[0] is not True:
                return r
        return True, f"`{callee.qualname}` returns a fresh object"
    if isinstance(e, ast.Name):
        defs = [a for a in ast.walk(fi.node) if isinstance(a, ast.Assign) and len(a.targets) == 1 and norm(a.targets[0]) == e.id]
        if len(defs) == 1 and depth <= 3:
            return _fresh_source(defs[0].value, fi, prog, depth + 1)
        return None, f"name `{e.id}` ({len(defs)} definitions)"
    return None, norm(e)[:60]


def _merge_inputs_fresh(rep, fi, label: str, prog) -> None:
    """The merge concatenates lists IN PLACE (`existing.append(item)`; `_plan_stage` appends own items to `merged[key]`), and the
    first occurrence of a list is stored by reference (`merged[key] = value`). That is only safe while the per-stage outputs it
    reads are objects nobody else holds. A shared parse (memoised decoder, module-level cache) makes one stage's list items
    appear in the outputs of every later reader - stages that are no ancestors, other workflows."""
    fn = fi.node
    srcs = []
    for d in ast.walk(fn):
        if isinstance(d, ast.Dict):
            for k, v in zip(d.keys, d.values):
                if isinstance(k, ast.Constant) and k.value == "outputs":
                    srcs.append(v)
    resolved = []
    for v in srcs:
        e = v
        if isinstance(e, ast.Name):
            pos = getattr(e, "_ord", e.lineno)
            defs = [a for a in ast.walk(fn) if isinstance(a, ast.Assign) and len(a.targets) == 1 and norm(a.targets[0]) == e.id and getattr(a, "_ord", a.lineno) < pos]
            if defs:
                e = max(defs, key=lambda a: getattr(a, "_ord", a.lineno)).value      # the definition that reaches the node table (same loop body, straight-line)
        resolved.append(e)
    if not resolved:
        raise AnalysisError(f"{label}: where the per-stage outputs enter the ancestor merge (`'outputs': ...` in the node table) was not found")
    for e in resolved:
        ok, how = _fresh_source(e, fi, prog)
        if ok is None:
            raise AnalysisError(f"{label}: cannot decide whether the merge input `{norm(e)[:70]}` is a fresh object ({how})")
        rep.check(ok, "C16.R2", f"{label}: the outputs that enter the in-place merge are objects nobody else holds", f"`{norm(e)[:70]}`: {how}" + ("" if ok else
                  " - the merge stores list values by reference and extends them in place, so items of later stages accumulate in the shared object and show up for stages that are not their descendants (and in other workflows)"),
                  fi.file, getattr(e, "lineno", fn.lineno), disc=f"fresh-inputs:{label}")


def run(ctx, rep) -> None:
    prog = ctx.prog
    rep.rule("C16.R1", "get_merged_ancestor_outputs: ancestors = transitive closure over requisites from the start stage (excluded); only their outputs are merged")
    rep.rule("C16.R2", "merge order: Kahn order over the ancestor sub-graph (requisite before dependant); later non-list value overwrites; lists concatenate without duplicates; the own-context overlay uses the same list rule")
    rep.rule("C16.R3", "_plan_stage: merged = ancestors; reducer results update it; own context keys overlay it except reducer keys; stage.context = merged")
    rep.rule("C16.R4", "reset_stage_for_retry clears outputs; keys inherited from ancestors at an earlier planning are recorded and skipped by the overlay")
    rep.rule("C16.R5", "sum/max/min fold every branch value commutatively; apply_output_reducers reads the key from every upstream output that has it; _plan_stage passes all upstream outputs")
    rep.undecided += ["the values themselves for every DAG / schedule (run-time quantity)", "order of unrelated branches in the ancestor merge (set iteration; the property only asserts path-ordered keys)",
                      "order-sensitivity of collect/extend/merge/first/last (declared order-sensitive)"]
    impls = [f for f in prog.all_functions() if f.qualname == "get_merged_ancestor_outputs" and f.module.name.startswith("stabilize.persistence")]
    rep.floor("get_merged_ancestor_outputs implementations", len(impls), 1)
    for f in impls:
        if "postgres" in f.module.name and "sqlite" not in f.module.name:
            label = "postgres"
        else:
            label = "sqlite"
        _check_ancestor_merge(rep, f, label)
        _merge_inputs_fresh(rep, f, label, prog)
    _r6_outputs_written(ctx, rep)
    _r3b_task_input_builders(ctx, rep)

    # ---- R3 / R2 overlay -----------------------------------------------------------------------------------------
    ps = prog.func(PLANNER, "StartStagePlannerMixin._plan_stage") if any(c.name == "StartStagePlannerMixin" for c in prog.module(PLANNER).classes.values()) else None
    if ps is None:
        cands = [f for f in prog.all_functions() if f.module.name == PLANNER and f.qualname.endswith("._plan_stage")]
        if not cands:
            raise AnalysisError("_plan_stage not found")
        ps = cands[0]
    fn = ps.node
    par = _parents(fn)
    body = fn.body
    idx = {}
    overlay_prefilter = None
    for i, s in enumerate(body):
        t = norm(s)
        if isinstance(s, ast.Assign) and norm(s.targets[0]) == "ancestor_outputs" and "get_merged_ancestor_outputs(stage.execution.id, stage.ref_id)" in t:
            idx["anc"] = i
        if isinstance(s, ast.If) and "apply_output_reducers" in t:
            idx["red"] = i
        if isinstance(s, ast.Assign) and norm(s.targets[0]) == "merged" and norm(s.value) == "ancestor_outputs":
            idx["merged"] = i
        if isinstance(s, ast.For) and norm(s.iter) == "stage.context.items()":
            idx["overlay"] = i
        # the overlay may also run over a pre-filtered copy: own = {k: v for k, v in stage.context.items() if <keep>}; for ... in own.items()
        if isinstance(s, ast.For) and isinstance(s.iter, ast.Call) and isinstance(s.iter.func, ast.Attribute) and s.iter.func.attr == "items" and isinstance(s.iter.func.value, ast.Name):
            src = [a for a in body[:i] if isinstance(a, ast.Assign) and norm(a.targets[0]) == s.iter.func.value.id and isinstance(a.value, ast.DictComp)
                   and norm(a.value.generators[0].iter) == "stage.context.items()"]
            if src:
                idx["overlay"] = i
                overlay_prefilter = src[-1].value.generators[0]
        if isinstance(s, ast.Assign) and norm(s.targets[0]) == "stage.context" and norm(s.value) == "merged":
            idx["store"] = i
    need = ["anc", "red", "merged", "overlay", "store"]
    ok = all(k in idx for k in need) and idx["anc"] < idx["red"] < idx["overlay"] < idx["store"] and idx["anc"] < idx["merged"] < idx["overlay"]
    rep.check(ok, "C16.R3", "_plan_stage: ancestors, then reducers, then own context, then stored", f"statement order {dict((k, idx.get(k)) for k in need)}", ps.file, fn.lineno, disc="precedence")
    if "red" in idx:
        red = body[idx["red"]]
        t = norm(red)
        ok = "ancestor_outputs.update(apply_output_reducers(reducers, branch_outputs))" in t and "get_upstream_stages(stage.execution.id, stage.ref_id)" in t
        bo = [s for s in ast.walk(red) if isinstance(s, ast.Assign) and norm(s.targets[0]) == "branch_outputs"]
        all_up = bool(bo) and isinstance(bo[0].value, ast.ListComp) and norm(bo[0].value.elt) == "u.outputs" and norm(bo[0].value.generators[0].iter) == "upstreams" and \
            all(norm(c) in ("u is not None and u.outputs", "u.outputs", "u is not None") for c in bo[0].value.generators[0].ifs)
        rep.check(ok and all_up, "C16.R5", "_plan_stage feeds the reducers every upstream's outputs and lets the result override the ancestor merge", "branch_outputs = [u.outputs for u in upstreams if u.outputs]; ancestor_outputs.update(apply_output_reducers(...))", ps.file, red.lineno, disc="reducer-input")
    rec_key = None
    if "overlay" in idx:
        ov = body[idx["overlay"]]
        ifs = [s for s in ov.body if isinstance(s, ast.If)]
        skip_red = any(norm(i.test) == "key in reducers" and isinstance(i.body[-1], ast.Continue) for i in ifs)
        rep.check(skip_red, "C16.R3", "a reducer's value is not overridden by the join stage's own context", "if key in reducers: continue", ps.file, ov.lineno, disc="reducer-protected")
        rep.check(any(_list_merge_shape(i, "merged") for i in ifs), "C16.R2", "own-context overlay: own non-list value wins, lists concatenate (same rule as the ancestor merge)", "sibling agreement with get_merged_ancestor_outputs", ps.file, ov.lineno, disc="overlay-shape")
        # ---- R4: inherited keys ----------------------------------------------------------------------------------
        guards = [i for i in ifs if isinstance(i.body[-1], ast.Continue) and norm(i.test) != "key in reducers"]
        guard_tests = [i.test for i in guards] + (list(overlay_prefilter.ifs) if overlay_prefilter is not None else [])
        rec_key = None
        for gt in guard_tests:
            for nm in [n.id for n in ast.walk(gt) if isinstance(n, ast.Name)]:
                d = [s for s in body if isinstance(s, ast.Assign) and norm(s.targets[0]) == nm]
                for s in d:
                    for c in _calls(s.value, "get"):
                        if norm(c.func) == "stage.context.get" and c.args and isinstance(c.args[0], ast.Constant):
                            rec_key = c.args[0].value
        written = rec_key is not None and any(isinstance(s, ast.Assign) and norm(s.targets[0]).replace("'", '"') == f'merged["{rec_key}"]' for s in ast.walk(fn))
        rep.check(rec_key is not None and written, "C16.R4", "keys inherited at an earlier planning are not overlaid as the stage's own",
                  f"inherited keys recorded under `{rec_key}` and skipped by the overlay" if rec_key and written else
                  "_plan_stage stores the merged ancestor values INTO stage.context; a re-armed stage keeps that context, so at its next planning (next loop iteration) the old inherited values are overlaid as 'own' values and shadow the "
                  "ancestors' current outputs - nothing records which keys were inherited", ps.file, ov.lineno, disc="inherited-shadow")
        # the recorded set is complete: an ancestor key k is recorded  iff  it was inherited before OR it is not an own key
        #   (atoms: I = k in <previously inherited>, O = k in stage.context; I implies O). Decided by truth table on the filter
        #   of the comprehension that produces the recorded list.
        if rec_key is not None and written:
            inh_vars = set()
            for s_ in body:
                if isinstance(s_, ast.Assign) and any(norm(c.func) == "stage.context.get" and c.args and isinstance(c.args[0], ast.Constant) and c.args[0].value == rec_key for c in _calls(s_.value, "get")):
                    inh_vars.add(norm(s_.targets[0]))
            rec_assign = [s_ for s_ in ast.walk(fn) if isinstance(s_, ast.Assign) and norm(s_.targets[0]).replace("'", '"') == f'merged["{rec_key}"]']
            src = rec_assign[0].value
            while isinstance(src, ast.Call) and norm(src.func) in ("sorted", "list", "set") and src.args:
                src = src.args[0]
            if isinstance(src, ast.Name):
                d_ = [s_ for s_ in body if isinstance(s_, ast.Assign) and norm(s_.targets[0]) == src.id]
                src = d_[-1].value if d_ else src
            verdict = None
            if isinstance(src, (ast.ListComp, ast.SetComp, ast.GeneratorExp)) and len(src.generators) == 1 and norm(src.generators[0].iter) in ("ancestor_outputs", "merged", "ancestor_outputs.keys()"):
                g = src.generators[0]
                k = norm(g.target)
                flt = g.ifs[0] if len(g.ifs) == 1 else (ast.BoolOp(op=ast.And(), values=list(g.ifs)) if g.ifs else None)

                def ev(e, I, O):
                    if e is None:
                        return True
                    if isinstance(e, ast.BoolOp):
                        vals = [ev(v, I, O) for v in e.values]
                        if any(v is None for v in vals):
                            return None
                        return all(vals) if isinstance(e.op, ast.And) else any(vals)
                    if isinstance(e, ast.UnaryOp) and isinstance(e.op, ast.Not):
                        r = ev(e.operand, I, O)
                        return None if r is None else not r
                    if isinstance(e, ast.Compare) and len(e.ops) == 1 and norm(e.left) == k:
                        c = norm(e.comparators[0])
                        neg = isinstance(e.ops[0], ast.NotIn)
                        if isinstance(e.ops[0], (ast.In, ast.NotIn)):
                            if c in inh_vars:
                                return (not I) if neg else I
                            if c in ("stage.context", "stage.context.keys()"):
                                return (not O) if neg else O
                    return None
                rows = {(True, True): True, (False, True): False, (False, False): True}
                got = {io: ev(flt, *io) for io in rows}
                verdict = None if any(v is None for v in got.values()) else (got == rows)
                detail = f"filter `{norm(flt) if flt is not None else 'none'}` gives {got} for (inherited before, own key)"
            else:
                detail = f"recorded list `{norm(rec_assign[0].value)[:80]}` is not a filtered comprehension over the ancestor keys"
            rep.check(verdict is True, "C16.R4", "every key inherited from the ancestors is recorded again at each planning", detail if verdict is True else
                      detail + ": a key inherited at an earlier planning must stay recorded (it is in stage.context by now), otherwise from the third planning on it is overlaid as an own value and the stage keeps seeing an old iteration's value",
                      ps.file, rec_assign[0].lineno, disc="inherited-recorded")
    # a value the jump sets ON the target is the target's own from then on: the jump must take those keys out of the record of
    # inherited keys, otherwise the next planning replaces the jump's value by the ancestor's
    if rec_key is not None:
        jh = prog.func("stabilize.handlers.jump_to_stage.handler", "JumpToStageHandler._handle_with_retry.on_stage").node
        mts = [g for g in ast.walk(jh) if isinstance(g, ast.FunctionDef) and g.name == "mutate_target"]
        okp = False
        if mts:
            upd_param = None
            for c in _calls(mts[0], "update"):
                if norm(c.func).endswith(".context.update") and c.args:
                    upd_param = norm(c.args[0])
            for a in ast.walk(mts[0]):
                if isinstance(a, ast.Assign) and norm(a.targets[0]).replace("'", '"').endswith(f'.context["{rec_key}"]') and isinstance(a.value, (ast.ListComp, ast.SetComp)) and upd_param is not None:
                    conds = [norm(c) for g in a.value.generators for c in g.ifs]
                    okp = any(c == f"{norm(a.value.generators[0].target)} not in {upd_param}" for c in conds)
        rep.check(okp, "C16.R4", "keys a jump sets on its target stop counting as inherited", f"mutate_target prunes `{rec_key}` by the keys it writes" if okp else
                  f"mutate_target writes the jump's keys onto the re-armed target but leaves them listed in `{rec_key}`: at the next planning a jump_context key that an ancestor also outputs is replaced by the ancestor's value - "
                  "the value set on the stage itself must win", "src/stabilize/handlers/jump_to_stage/handler.py", mts[0].lineno if mts else jh.lineno, disc="jump-keys-own")
    rs = prog.func("stabilize.handlers.jump_to_stage.reset", "reset_stage_for_retry").node
    rep.check(any(isinstance(s, ast.Assign) and norm(s.targets[0]) == "stage.outputs" and norm(s.value) in ("{}", "dict()") for s in rs.body), "C16.R4", "re-arm clears the stage's published outputs", "stage.outputs = {}", "src/stabilize/handlers/jump_to_stage/reset.py", rs.lineno, disc="reset-outputs")

    # ---- R5 reducers ---------------------------------------------------------------------------------------------
    rm = prog.module("stabilize.reducers")
    table = rm.assigns.get("_BUILTIN_REDUCERS")
    if not isinstance(table, ast.Dict):
        raise AnalysisError("_BUILTIN_REDUCERS not found")
    impl = {k.value: v for k, v in zip(table.keys, table.values) if isinstance(k, ast.Constant)}
    rep.floor("built-in reducers", len(impl), 8)
    for name in ("sum", "max", "min"):
        v = impl.get(name)
        ok = False
        how = "missing"
        if isinstance(v, ast.Lambda):
            b = v.body
            arg = v.args.args[0].arg
            ok = isinstance(b, ast.Call) and norm(b.func) in ("max", "min", "sum") and norm(b.func) == name and len(b.args) == 1 and isinstance(b.args[0], ast.GeneratorExp) and norm(b.args[0].generators[0].iter) == arg \
                and all(norm(c) == f"{norm(b.args[0].generators[0].target)} is not None" for c in b.args[0].generators[0].ifs) and norm(b.args[0].elt) == norm(b.args[0].generators[0].target)
            how = norm(v)
        elif isinstance(v, ast.Name) and v.id in rm.functions:
            f = rm.functions[v.id].node
            arg = f.args.args[0].arg
            loops = [s for s in f.body if isinstance(s, ast.For) and norm(s.iter) == arg]
            folds = [s for s in ast.walk(f) if isinstance(s, ast.Assign) and isinstance(s.value, ast.BinOp) and isinstance(s.value.op, (ast.Add, ast.Mult, ast.BitOr, ast.BitAnd)) and norm(s.targets[0]) in (norm(s.value.left), norm(s.value.right))]
            no_exit = not any(isinstance(n, (ast.Break, ast.Return)) for lp in loops for n in ast.walk(lp))
            no_index = not any(isinstance(n, ast.Subscript) and norm(n.value) == arg for n in ast.walk(f))
            ok = len(loops) == 1 and bool(folds) and no_exit and no_index
            how = f"{v.id}: one loop over all values, commutative fold={bool(folds)}, no early exit={no_exit}, no positional access={no_index}"
        rep.check(ok, "C16.R5", f"reducer `{name}` is insensitive to branch order", how, rm.relpath, getattr(v, "lineno", 0), disc=f"commutative:{name}")
    ar = rm.functions["apply_output_reducers"].node
    # every value stored in the result is reducer(<all values of the key>): the collection is a comprehension over every branch
    # output filtered by PRESENCE of the key, and no result is produced in any other way (no single-value shortcut)
    res_assign = [a for a in ast.walk(ar) if isinstance(a, ast.Assign) and isinstance(a.targets[0], ast.Subscript) and isinstance(a.targets[0].value, ast.Name)]
    rets_ = [r.value.id for r in ast.walk(ar) if isinstance(r, ast.Return) and isinstance(r.value, ast.Name)]
    res_assign = [a for a in res_assign if a.targets[0].value.id in rets_]
    all_ok, why = bool(res_assign), "no assignment into the returned mapping found"
    for a in res_assign:
        v = a.value
        if not (isinstance(v, ast.Call) and isinstance(v.func, ast.Name) and len(v.args) == 1 and isinstance(v.args[0], ast.Name) and not v.keywords):
            all_ok, why = False, f"`{norm(a)[:90]}` is not reducer(values): some results bypass the reducer"
            break
        vdefs = [d for d in ast.walk(ar) if isinstance(d, ast.Assign) and norm(d.targets[0]) == v.args[0].id]
        comp = vdefs[0].value if len(vdefs) == 1 else None
        if not (isinstance(comp, ast.ListComp) and len(comp.generators) == 1 and norm(comp.generators[0].iter) in [a_.arg for a_ in ar.args.args]):
            all_ok, why = False, f"`{v.args[0].id}` is not a list comprehension over the branch outputs parameter"
            break
        g = comp.generators[0]
        presence = len(g.ifs) == 1 and isinstance(g.ifs[0], ast.Compare) and isinstance(g.ifs[0].ops[0], ast.In) and norm(g.ifs[0].comparators[0]) == norm(g.target) and isinstance(comp.elt, ast.Subscript) and norm(comp.elt.value) == norm(g.target) and norm(comp.elt.slice) == norm(g.ifs[0].left)
        if not presence:
            all_ok, why = False, f"`{norm(comp)}` does not select exactly the branches in which the key is PRESENT"
            break
        rdefs = [d for d in ast.walk(ar) if isinstance(d, ast.Assign) and norm(d.targets[0]) == v.func.id]
        if not rdefs or "REDUCERS" not in norm(rdefs[0].value).upper() and "reducer" not in norm(rdefs[0].value).lower():
            all_ok, why = False, f"`{v.func.id}` is not looked up from the reducer registry"
            break
        why = f"result[key] = {v.func.id}({v.args[0].id}) with {v.args[0].id} = {norm(comp)}"
    rep.check(all_ok, "C16.R5", "apply_output_reducers reduces the key over every branch that produced it", why, rm.relpath, ar.lineno, disc="all-branches")


# ---- R6 / R3b --------------------------------------------------------------------------------------------------------------
def _r6_outputs_written(ctx, rep) -> None:
    """A task result's outputs/context reach the stage row before ANY dispatch on the result's status: every handler that can
    complete the task (incl. the jump hand-over) stores the stage that carries them, and later stages inherit them through the
    ancestor merge. A dispatch branch that returns before the merge loses them for every descendant."""
    prog = ctx.prog
    rep.rule("C16.R6", "process_result merges result.outputs / result.context into the stage unconditionally (guarded only by their own presence/type) before the first dispatch on result.status")
    pr = prog.func("stabilize.handlers.run_task.result", "process_result")
    fn = pr.node
    from ..dom import raw_conditions_at
    ups = {}
    for c in ast.walk(fn):
        if isinstance(c, ast.Call) and isinstance(c.func, ast.Attribute) and c.func.attr == "update" and c.args:
            tgt, src = norm(c.func.value), norm(c.args[0])
            if tgt in ("stage.outputs", "stage.context") and src in ("result.outputs", "result.context"):
                ups[tgt] = c
    dispatch = [c for c in ast.walk(fn) if isinstance(c, ast.Call) and isinstance(c.func, ast.Name) and c.func.id.startswith("_handle_")]
    rep.floor("dispatch calls in process_result", len(dispatch), 5)
    for tgt in ("stage.outputs", "stage.context"):
        c = ups.get(tgt)
        if c is None:
            rep.fail("C16.R6", f"process_result writes {tgt}", f"no `{tgt}.update(result.{tgt.split('.')[1]})` found: task results never reach the stage", pr.file, fn.lineno, disc=f"written:{tgt}")
            continue
        conds = [norm(t) for t, tr in raw_conditions_at(fn, c)]
        status_dep = [t for t in conds if "result.status" in t or "target_stage_ref_id" in t]
        early = [d for d in dispatch if getattr(d, "_ord", d.lineno) < getattr(c, "_ord", c.lineno)]
        ok = not status_dep and not early
        rep.check(ok, "C16.R6", f"process_result: {tgt} receives the task result before any dispatch", "merged first, guarded only by presence/type" if ok else
                  (f"`{norm(early[0].func)}` (line {early[0].lineno}) is dispatched before the merge" if early else f"the merge depends on {status_dep}") +
                  ": results handled by that branch never reach the stage row, so no descendant inherits them through the ancestor merge", pr.file, c.lineno, disc=f"written-first:{tgt}")


def _r3b_task_input_builders(ctx, rep) -> None:
    """Tasks that assemble their own input from `stage.ancestors()` and `stage.context` (PythonTask, HighwayTask) must apply them
    in the order _plan_stage uses: ancestors first, the stage's own context on top (later wins)."""
    prog = ctx.prog
    rep.rule("C16.R3", "task-level input builders (functions in stabilize.tasks that read both stage.ancestors() outputs and stage.context) apply ancestor outputs before the stage's own context, like _plan_stage")
    n = 0
    for f in prog.all_functions():
        if not f.module.name.startswith("stabilize.tasks"):
            continue
        fn = f.node
        anc_loops = [lp for lp in ast.walk(fn) if isinstance(lp, ast.For) and "ancestors()" in norm(lp.iter)]
        if not anc_loops or "stage.context" not in norm(fn):
            continue
        # variables fed from ancestors / from the own context
        anc_vars, ctx_vars = set(), set()
        events = []      # (ord, kind)
        for lp in anc_loops:
            for c in ast.walk(lp):
                if isinstance(c, ast.Call) and isinstance(c.func, ast.Attribute) and c.func.attr == "update" and ".outputs" in norm(c.args[0] if c.args else c):
                    anc_vars.add(norm(c.func.value))
        for a in ast.walk(fn):
            if isinstance(a, ast.Assign) and len(a.targets) == 1 and isinstance(a.targets[0], ast.Name) and "stage.context" in norm(a.value) and not isinstance(a.value, ast.Call):
                ctx_vars.add(a.targets[0].id)
            if isinstance(a, ast.Assign) and len(a.targets) == 1 and isinstance(a.targets[0], ast.Name) and isinstance(a.value, (ast.DictComp,)) and "stage.context" in norm(a.value):
                ctx_vars.add(a.targets[0].id)
        order = []
        for d in ast.walk(fn):
            if isinstance(d, ast.Dict) and any(k is None for k in d.keys):
                seq = [norm(v) for k, v in zip(d.keys, d.values) if k is None]
                kinds = ["anc" if v in anc_vars else "ctx" if (v in ctx_vars or "stage.context" in v) else "?" for v in seq]
                if "anc" in kinds and "ctx" in kinds:
                    order = kinds
        if not order:
            # update-call order on one accumulator
            for acc in anc_vars:
                ev = []
                for c in ast.walk(fn):
                    if isinstance(c, ast.Call) and isinstance(c.func, ast.Attribute) and c.func.attr == "update" and norm(c.func.value) == acc and c.args:
                        src = norm(c.args[0])
                        kind = "anc" if ".outputs" in src and "ancestor" in src else "ctx" if "stage.context" in src or src in ctx_vars else "?"
                        ev.append((getattr(c, "_ord", c.lineno), kind))
                kinds = [k for _, k in sorted(ev)]
                if "anc" in kinds and "ctx" in kinds:
                    order = kinds
        if not order:
            continue
        n += 1
        last_anc = max(i for i, k in enumerate(order) if k == "anc")
        first_ctx = min(i for i, k in enumerate(order) if k == "ctx")
        ok = last_anc < first_ctx
        rep.check(ok, "C16.R3", f"{f.module.name.split('.', 1)[1]}:{f.qualname}: ancestors below the stage's own context", f"application order {order} (later wins)" + ("" if ok else
                  ": ancestor outputs are applied on top of the stage's own (planned) context - the task sees a farther ancestor's value, or an inherited value instead of its own, although _plan_stage stored the right one"),
                  f.file, fn.lineno, disc=f"task-input-order:{f.qualname}")
    rep.floor("task-level input builders", n, 2)
