"""C09 - a message whose handling committed is never handled again, even after restart.

  R1  dedup guard of _handle_message (truth table) - shared with C02.R1
  R2  bloom filter structure: one position function for test / set / hydrate, deterministic, all positions set, bits only OR-ed
  R3  authority: granted only by a complete hydrate, revoked by reset; hydration detects truncation
  R4  the processed-mark rides in the last commit of every handler path; mark / lookup use the same table and key, mark does not commit
"""
from __future__ import annotations

import ast

from .. import sqlshape
from ..boolguard import dedup_guard_rule, post_mark_rule
from ..model import AnalysisError, norm
from ..paths import all_paths
from ..seqrules import commits_after_synthetic, path_infos

DEDUP = "stabilize.queue.dedup"


def _calls(node, name=None):
    for n in ast.walk(node):
        if isinstance(n, ast.Call):
            f = n.func
            nm = f.attr if isinstance(f, ast.Attribute) else (f.id if isinstance(f, ast.Name) else "")
            if name is None or nm == name:
                yield n


def _self_attr_stores(node):
    """(attr, stmt) for `self.X = ...` / `self.X op= ...` / `self.X[...] = ...`"""
    for n in ast.walk(node):
        targets = []
        if isinstance(n, ast.Assign):
            targets = n.targets
        elif isinstance(n, (ast.AugAssign, ast.AnnAssign)):
            targets = [n.target]
        for t in targets:
            sub = False
            if isinstance(t, ast.Subscript):
                t = t.value
                sub = True
            if isinstance(t, ast.Attribute) and isinstance(t.value, ast.Name) and t.value.id == "self":
                yield t.attr, n, sub


def run(ctx, rep) -> None:
    prog = ctx.prog
    rep.rule("C09.R1", "handler.handle reachable only if the durable store said 'not processed' or the filter is trusted AND authoritative AND negative (truth table)")
    rep.rule("C09.R2", "maybe_seen / mark_seen / hydrate share one deterministic position function; every position is set; bits are only OR-ed; the array is replaced only in __init__/reset")
    rep.rule("C09.R3", "_authoritative=True only at the end of hydrate; False in __init__ and reset; hydration grants authority only for a complete, untruncated id set")
    rep.rule("C09.R4", "processed-mark only in the last commit of each handler path; transactional mark is INSERT OR IGNORE without commit; lookup reads the same table/key")
    rep.undecided += ["retention sweep of processed_messages (opt-in) narrows the window by design"]
    dedup_guard_rule(ctx, rep, "C09.R1")
    post_mark_rule(ctx, rep, "C09.R4")
    cls = prog.cls(DEDUP, "BloomDeduplicator")
    M = cls.methods
    for need in ("_get_hash_positions", "_set_bit", "_get_bit", "maybe_seen", "mark_seen", "hydrate", "reset", "__init__"):
        if need not in M:
            raise AnalysisError(f"BloomDeduplicator.{need} not found")
    f = M["_get_hash_positions"].file

    # R2.a one position function
    for name in ("maybe_seen", "mark_seen", "hydrate"):
        cs = list(_calls(M[name].node, "_get_hash_positions"))
        rep.check(len(cs) == 1, "C09.R2", f"{name} uses _get_hash_positions", f"{len(cs)} call(s)", f, M[name].node.lineno, disc=name)
    # R2.b determinism: only hashlib / int / range / arithmetic on the argument and on fields set solely in __init__
    ghp = M["_get_hash_positions"].node
    allowed_calls = {"encode", "md5", "sha1", "sha256", "hexdigest", "int", "range", "append", "digest", "from_bytes", "blake2b"}
    bad_calls = [norm(c.func) for c in _calls(ghp) if (c.func.attr if isinstance(c.func, ast.Attribute) else getattr(c.func, "id", "")) not in allowed_calls]
    rep.check(not bad_calls, "C09.R2", "_get_hash_positions is a pure function of its argument", f"calls outside the pure whitelist: {bad_calls}", f, ghp.lineno, disc="pure")
    read_fields = {n.attr for n in ast.walk(ghp) if isinstance(n, ast.Attribute) and isinstance(n.value, ast.Name) and n.value.id == "self" and isinstance(n.ctx, ast.Load)
                   and not any(n is c.func for c in _calls(ghp))}
    writers: dict[str, set] = {}
    for m in M.values():
        for attr, stmt, sub in _self_attr_stores(m.node):
            writers.setdefault(attr, set()).add(m.name)
    for fld in sorted(read_fields):
        w = writers.get(fld, set())
        rep.check(w <= {"__init__"}, "C09.R2", f"position parameter self.{fld} written only in __init__", f"writers: {sorted(w)}", f, ghp.lineno, disc=f"field:{fld}")
    rep.floor("fields read by _get_hash_positions", len(read_fields), 2)
    # positions: one per hash function index - loop over range(self._num_hashes) appending each position
    loops = [n for n in ast.walk(ghp) if isinstance(n, ast.For)]
    ok = len(loops) == 1 and "range(self._num_hashes)" in norm(loops[0].iter) and not any(isinstance(x, (ast.If, ast.Break, ast.Continue)) for x in ast.walk(loops[0]))
    rep.check(ok, "C09.R2", "_get_hash_positions yields all k positions", "single unconditional loop over range(self._num_hashes)", f, loops[0].lineno if loops else ghp.lineno, disc="k")

    # R2.c all positions set
    for name in ("mark_seen", "hydrate"):
        node = M[name].node
        pos_var = None
        for n in ast.walk(node):
            if isinstance(n, ast.Assign) and isinstance(n.value, ast.Call) and norm(n.value.func).endswith("_get_hash_positions") and isinstance(n.targets[0], ast.Name):
                pos_var = n.targets[0].id
        fl = [n for n in ast.walk(node) if isinstance(n, ast.For) and isinstance(n.iter, ast.Name) and n.iter.id == pos_var]
        ok = False
        line = node.lineno
        if fl:
            lp = fl[0]
            line = lp.lineno
            body_ok = len(lp.body) == 1 and isinstance(lp.body[0], ast.Expr) and isinstance(lp.body[0].value, ast.Call) and norm(lp.body[0].value.func) == "self._set_bit" \
                and norm(lp.body[0].value.args[0]) == norm(lp.target)
            ok = body_ok and not lp.orelse
        rep.check(ok, "C09.R2", f"{name} sets every position", "for pos in positions: self._set_bit(pos) - unconditional, no break/filter", f, line, disc=f"all:{name}")
    # R2.d only OR
    sb = M["_set_bit"].node
    stores = [(a, s, sub) for a, s, sub in _self_attr_stores(sb)]
    ok = len(stores) == 1 and stores[0][0] == "_bit_array" and stores[0][2] and isinstance(stores[0][1], ast.AugAssign) and isinstance(stores[0][1].op, ast.BitOr)
    rep.check(ok, "C09.R2", "_set_bit only ORs a bit in", norm(stores[0][1]) if stores else "no store", f, sb.lineno, disc="or")
    idx_ok = "pos // 8" in norm(sb) and "pos % 8" in norm(sb) and "pos // 8" in norm(M["_get_bit"].node) and "pos % 8" in norm(M["_get_bit"].node)
    rep.check(idx_ok, "C09.R2", "_get_bit and _set_bit address the same bit", "byte = pos // 8, bit = pos % 8 in both", f, M["_get_bit"].node.lineno, disc="index")
    elem_writers = {m.name for m in M.values() for a, s, sub in _self_attr_stores(m.node) if a == "_bit_array" and sub}
    rep.check(elem_writers <= {"_set_bit"}, "C09.R2", "bits are written only by _set_bit", f"element writers: {sorted(elem_writers)}", f, sb.lineno, disc="elem-writers")
    repl = {m.name for m in M.values() for a, s, sub in _self_attr_stores(m.node) if a == "_bit_array" and not sub}
    rep.check(repl <= {"__init__", "reset"}, "C09.R2", "bit array replaced only in __init__ / reset", f"replacers: {sorted(repl)}", f, M["reset"].node.lineno, disc="replace")
    # R2.e maybe_seen returns False only on an unset bit
    ms = M["maybe_seen"].node
    rets = [n for n in ast.walk(ms) if isinstance(n, ast.Return)]
    false_rets = [r for r in rets if isinstance(r.value, ast.Constant) and r.value.value is False]
    ok = True
    for r in false_rets:
        guard = None
        for n in ast.walk(ms):
            if isinstance(n, ast.If) and r in n.body:
                guard = n
        ok = ok and guard is not None and norm(guard.test) in ("not self._get_bit(pos)",)
    ok = ok and any(isinstance(r.value, ast.Constant) and r.value.value is True for r in rets) and len(false_rets) >= 1
    other = [r for r in rets if not (isinstance(r.value, ast.Constant) and isinstance(r.value.value, bool))]
    rep.check(ok and not other, "C09.R2", "maybe_seen says 'new' only on an unset bit", f"{len(false_rets)} False return(s), all under `not self._get_bit(pos)`", f, ms.lineno, disc="negatives")

    # R3 authority
    auth = {}
    for m in M.values():
        for n in ast.walk(m.node):
            if isinstance(n, ast.Assign) and any(isinstance(t, ast.Attribute) and t.attr == "_authoritative" for t in n.targets):
                v = n.value.value if isinstance(n.value, ast.Constant) else "?"
                auth.setdefault(m.name, []).append((v, n))
    rep.check(set(k for k, vs in auth.items() if any(v is True for v, _ in vs)) == {"hydrate"}, "C09.R3", "authority granted only by hydrate", f"{ {k: [v for v, _ in vs] for k, vs in auth.items()} }", f, M["hydrate"].node.lineno, disc="grant")
    for name in ("__init__", "reset"):
        rep.check(any(v is False for v, _ in auth.get(name, [])), "C09.R3", f"{name} revokes authority", "self._authoritative = False", f, M[name].node.lineno, disc=f"revoke:{name}")
    # grant after the loop over all ids
    hy = M["hydrate"].node
    loops = [n for n in hy.body if isinstance(n, ast.For)]
    grant = [n for v, n in auth.get("hydrate", []) if v is True]
    ok = bool(loops) and bool(grant) and all(g.lineno > loops[0].end_lineno for g in grant) and norm(loops[0].iter) == "message_ids" \
        and not any(isinstance(x, (ast.Break, ast.Return)) for x in ast.walk(loops[0]))
    rep.check(ok, "C09.R3", "hydrate grants authority only after loading every id", "grant after the complete loop over message_ids, no break/return inside", f, hy.lineno, disc="after-loop")
    # _hydrate_deduplicator (the id listing may live in a helper method of the same class)
    mix = prog.cls("stabilize.queue.processor.mixins", "QueueProcessorMixin")
    hd = prog.func("stabilize.queue.processor.mixins", "QueueProcessorMixin._hydrate_deduplicator")
    hyd_calls = list(_calls(hd.node, "hydrate"))
    line = hyd_calls[0].lineno if hyd_calls else hd.node.lineno
    arg = norm(hyd_calls[0].args[0]) if hyd_calls and hyd_calls[0].args else None
    src_assign = [n for n in ast.walk(hd.node) if isinstance(n, (ast.Assign, ast.AnnAssign)) and norm(n.targets[0] if isinstance(n, ast.Assign) else n.target) == arg and n.lineno < line]
    lister = hd
    caller_none_guard = True
    if src_assign and isinstance(src_assign[-1].value, ast.Call) and isinstance(src_assign[-1].value.func, ast.Attribute) and norm(src_assign[-1].value.func.value) == "self" \
            and src_assign[-1].value.func.attr in mix.methods and src_assign[-1].value.func.attr != "_hydrate_deduplicator":
        lister = mix.methods[src_assign[-1].value.func.attr]
        caller_none_guard = any(isinstance(n, ast.If) and norm(n.test) == f"{arg} is None" and any(isinstance(s_, ast.Return) for s_ in n.body) and n.lineno < line for n in ast.walk(hd.node))
    txt = norm(lister.node)
    lst_calls = list(_calls(lister.node, "get_processed_message_ids"))
    lst_line = lst_calls[0].lineno if lst_calls else lister.node.lineno
    ids_var = None
    for n in ast.walk(lister.node):
        if isinstance(n, ast.Assign) and lst_calls and any(c is lst_calls[0] for c in ast.walk(n.value)):
            ids_var = norm(n.targets[0])
    guards_after = [n for n in ast.walk(lister.node) if isinstance(n, ast.If) and n.lineno > lst_line and any(isinstance(s_, ast.Return) for s_ in n.body)]
    gt = [norm(g.test) for g in guards_after]
    has_none = any(g == f"{ids_var} is None" for g in gt)
    has_trunc = any(g in (f"len({ids_var}) > capacity", f"capacity < len({ids_var})") for g in gt)
    limit_ok = bool(lst_calls) and any(k.arg == "limit" and norm(k.value).replace(" ", "") == "capacity+1" for k in lst_calls[0].keywords)
    cap_def = "capacity = dedup.expected_items" in norm(hd.node) or "capacity = dedup.expected_items" in txt or (lister is not hd and "dedup.expected_items" in norm(src_assign[-1].value))
    rep.check(len(hyd_calls) == 1 and has_none and has_trunc and limit_ok and cap_def and caller_none_guard, "C09.R3", "hydration detects an incomplete id set",
              f"listing in {lister.qualname}: None-guard={has_none} truncation-guard(len(ids) > capacity)={has_trunc} requested limit capacity+1={limit_ok} capacity=filter capacity={cap_def} caller returns on None={caller_none_guard}",
              hd.file, line, disc="truncation")
    exc_ret = [h for t in ast.walk(lister.node) if isinstance(t, ast.Try) and any(c in list(ast.walk(t)) for c in lst_calls) for h in t.handlers if any(isinstance(s_, ast.Return) for s_ in h.body)]
    # the listing behind the hydration returns EVERY processed id: the filter is declared authoritative on it, so any
    # restriction other than the caller-visible LIMIT (which _hydrate_deduplicator detects as truncation) silently drops ids
    from .. import sqlshape as _sq
    lst = [s_ for s_ in _sq.statements(prog) if s_.func.qualname.split(".")[-1] == "get_processed_message_ids" and (rep.tier == "thorough" or _sq.is_sqlite(s_))]
    listers = [f_ for f_ in prog.all_functions() if f_.qualname.split(".")[-1] == "get_processed_message_ids" and f_.module.name.startswith("stabilize.persistence.") and ("sqlite" in f_.module.name or rep.tier == "thorough")
               and any(isinstance(c_, ast.Call) and isinstance(c_.func, ast.Attribute) and c_.func.attr == "execute" for c_ in ast.walk(f_.node))]
    rep.floor("processed-id listing statements", len(lst), 1)
    for s_ in lst:
        okl = s_.kind == "SELECT" and s_.table == "processed_messages" and not s_.where and not s_.dynamic
        rep.check(okl, "C09.R3", f"{s_.func.module.name.split('.')[-2]}: the hydration listing returns every processed id", "SELECT message_id FROM processed_messages [LIMIT]" if okl else
                  f"`{s_.text[:90]}` restricts the ids (where {s_.where}{', built dynamically' if s_.dynamic else ''}): hydrate() declares the filter authoritative although older processed messages are missing from it - "
                  "with dedup_trust_negative_cache a redelivered old message is handled again", s_.file, s_.line, disc=f"listing:{s_.func.module.name}")
    for f_ in listers:
        n_stmt = len([s_ for s_ in lst if s_.func is f_ or (s_.func.qualname == f_.qualname and s_.func.module is f_.module)])
        n_exec = len([c_ for c_ in ast.walk(f_.node) if isinstance(c_, ast.Call) and isinstance(c_.func, ast.Attribute) and c_.func.attr == "execute"])
        rep.check(n_stmt >= n_exec, "C09.R3", f"{f_.module.name}: every query of the hydration listing is a literal statement", f"{n_stmt} recognised statement(s) for {n_exec} execute call(s)" if n_stmt >= n_exec else
                  f"{n_exec - n_stmt} execute call(s) run a query assembled at run time: its predicate cannot be checked for completeness", f_.file, f_.node.lineno, disc=f"listing-dynamic:{f_.module.name}")
    # the durable lookup never FAILS OPEN: an error while asking "was this message processed?" must reach the processor (the
    # message is then retried), never be answered "not processed"
    n_lk = 0
    for f_ in prog.all_functions():
        if f_.qualname.split(".")[-1] != "is_message_processed" or not f_.module.name.startswith("stabilize.persistence") or f_.parent is not None:
            continue
        if not (rep.tier == "thorough" or "postgres" not in f_.module.name):
            continue
        n_lk += 1
        swallow = [h_ for t_ in ast.walk(f_.node) if isinstance(t_, ast.Try) for h_ in t_.handlers if not any(isinstance(x_, ast.Raise) for x_ in ast.walk(h_))]
        rep.check(not swallow, "C09.R1", f"{f_.module.name}.{f_.qualname}: a failing lookup is not answered 'not processed'", "no exception handler without re-raise" if not swallow else
                  f"`except {norm(swallow[0].type) if swallow[0].type is not None else ''}` at line {swallow[0].lineno} answers instead of raising: a transient failure of the lookup (database locked, I/O error) lets an already "
                  "processed message through to its handler again", f_.file, swallow[0].lineno if swallow else f_.node.lineno, disc=f"lookup-fail-open:{f_.module.name}")
    hm_ = prog.func("stabilize.queue.processor.mixins", "QueueProcessorMixin._handle_message")
    for c_ in ast.walk(hm_.node):
        if isinstance(c_, ast.Call) and isinstance(c_.func, ast.Attribute) and c_.func.attr == "is_message_processed":
            n_lk += 1
            par_ = {}
            for n_ in ast.walk(hm_.node):
                for ch_ in ast.iter_child_nodes(n_):
                    par_[id(ch_)] = n_
            cur_, guarded = c_, None
            while id(cur_) in par_:
                p_ = par_[id(cur_)]
                if isinstance(p_, ast.Try) and any(cur_ is x_ for x_ in p_.body):
                    for h_ in p_.handlers:
                        if not any(isinstance(x_, ast.Raise) for x_ in ast.walk(h_)):
                            guarded = h_
                cur_ = p_
            rep.check(guarded is None, "C09.R1", "_handle_message: an error of the durable lookup propagates", "the lookup is not wrapped in a swallowing try" if guarded is None else
                      f"the lookup sits in a try whose handler at line {guarded.lineno} does not re-raise: a failing lookup is treated as 'not processed'", hm_.file, c_.lineno, disc="lookup-swallowed")
    rep.floor("durable lookup sites", n_lk, 2)
    rep.check(bool(exc_ret), "C09.R3", "hydration failure leaves the filter advisory", "exception while listing ids returns without hydrate", lister.file, lister.node.lineno, disc="exc")
    # the ids handed to hydrate() are read AFTER the filter was cleared: no reset() between reading them and hydrating
    src_line = src_assign[-1].lineno if src_assign else hd.node.lineno
    resets_between = [c for c in _calls(hd.node, "reset") if src_line <= c.lineno <= line]
    rep.check(not resets_between, "C09.R3", "no rotation between reading the processed ids and hydrating", "ids read before reset() miss messages committed in between, yet the filter is declared authoritative" if resets_between else "reset happens before the ids are read",
              hd.file, resets_between[0].lineno if resets_between else line, disc="reset-order")
    # after reset: re-hydrate in the same branch
    hm = prog.func("stabilize.queue.processor.mixins", "QueueProcessorMixin._handle_message")
    resets = list(_calls(hm.node, "reset"))
    for r in resets:
        blk = [n for n in ast.walk(hm.node) if isinstance(n, ast.If) and any(r in list(ast.walk(s)) for s in n.body)]
        ok = bool(blk) and any(c.lineno > r.lineno for c in _calls(blk[-1], "_hydrate_deduplicator"))
        rep.check(ok, "C09.R3", "rotation re-hydrates (or stays advisory)", "dedup.reset() followed by _hydrate_deduplicator() in the same branch; reset revokes authority", hm.file, r.lineno, disc="rotate")

    # R4
    res = all_paths(ctx)
    infos = [p for p in path_infos(res) if p.message]
    n_marked = 0
    seen: set = set()
    for pi in infos:
        after_syn = commits_after_synthetic(pi)
        for m in pi.marks():
            n_marked += 1
            later = [i for i in range(m + 1, len(pi.seq)) if i not in after_syn]
            key = (pi.handler, pi.shape)
            if later:
                rep.fail("C09.R4", pi.handler, f"mark committed before later effects: {pi.shape}", pi.seq[m].site[0], pi.seq[m].site[1], disc=pi.shape)
            elif key not in seen:
                seen.add(key)
                rep.ok("C09.R4", f"{pi.handler}:{pi.shape}", "mark in the last commit", pi.seq[m].site[0], pi.seq[m].site[1])
    rep.floor("handler paths that commit a mark", n_marked, 100)
    # a commit with effects but WITHOUT the mark is re-executed when the worker dies before the processor's own post-handle
    # mark - unless the stored status makes the redelivery a no-op (same rule as C01.R1.SEQ5, shared implementation)
    from .c01 import mark_or_flip_rule
    mark_or_flip_rule(rep, "C09.R4", infos)
    stmts = [s for s in sqlshape.statements(prog) if sqlshape.is_sqlite(s) and s.table == "processed_messages"]
    tm = [s for s in stmts if s.func.qualname == "AtomicTransaction.mark_message_processed"]
    rep.check(len(tm) == 1 and tm[0].kind == "INSERT" and tm[0].modifier == "OR IGNORE" and "message_id" in tm[0].cols, "C09.R4", "transactional mark statement",
              "INSERT OR IGNORE INTO processed_messages(message_id, ...)", tm[0].file if tm else "", tm[0].line if tm else 0, disc="txn-mark")
    if tm:
        fn = tm[0].func.node
        commits = [c for c in _calls(fn) if isinstance(c.func, ast.Attribute) and c.func.attr in ("commit", "rollback")]
        rep.check(not commits, "C09.R4", "transactional mark does not commit", "the mark becomes durable with the enclosing transaction only", tm[0].file, fn.lineno, disc="txn-mark-commit")
        rep.check(tm[0].params.get("message_id") == "message_id", "C09.R4", "mark keyed by the message id", f"params: {tm[0].params}", tm[0].file, tm[0].line, disc="txn-mark-key")
    lk = [s for s in stmts if s.func.qualname == "is_message_processed"]
    rep.check(len(lk) == 1 and lk[0].kind == "SELECT" and any(c == "message_id = :message_id" for c in lk[0].where) and lk[0].params.get("message_id") == "message_id", "C09.R4",
              "lookup reads the same table and key", f"where: {lk[0].where if lk else None}", lk[0].file if lk else "", lk[0].line if lk else 0, disc="lookup")
    # only the retention sweep deletes processed records
    dels = [s for s in stmts if s.kind in ("DELETE", "UPDATE")]
    for s in dels:
        rep.check(s.func.qualname in ("cleanup_old_processed_messages",), "C09.R4", f"processed_messages modified by {s.func.qualname}", "only the opt-in retention sweep removes records", s.file, s.line, disc=s.func.qualname)
    # the processor marks after the handler returned (second line of defence) and feeds the filter
    after = [c for c in _calls(hm.node, "mark_seen")] + [c for c in _calls(hm.node, "mark_message_processed")]
    handle_line = min((c.lineno for c in _calls(hm.node, "handle")), default=0)
    rep.check(len(after) == 2 and all(c.lineno > handle_line for c in after), "C09.R4", "processor records the id after the handler returned", "mark_seen + store.mark_message_processed after handler.handle", hm.file, handle_line, disc="post-mark")
    _retention_rule(ctx, rep)


def _retention_rule(ctx, rep) -> None:
    """The retention sweep of processed_messages removes a record only when it is older than the retention. The comparison is a
    TEXT comparison in SQLite: it is meaningful only when both sides have the same textual format, or both are normalised
    through datetime(). processed_at is written as datetime('now', ...) = 'YYYY-MM-DD HH:MM:SS'; an ISO cutoff ('...T...+00:00')
    compared as a string makes every record of the cutoff's calendar day look older than the cutoff."""
    import re
    from .. import sqlshape
    prog = ctx.prog
    rep.rule("C09.R5", "the retention sweep compares processed_at and its cutoff in one format (both through datetime(), or both in the format the column is written in): no record younger than the retention is deleted")
    stmts = [s for s in sqlshape.statements(prog) if sqlshape.is_sqlite(s)]
    writers = [s for s in stmts if s.kind == "INSERT" and "processed_messages" in s.table and "processed_at" in s.cols]
    sweeps = [s for s in stmts if s.kind == "DELETE" and "processed_messages" in s.table and any("processed_at" in c for c in s.where)]
    if not writers or not sweeps:
        raise AnalysisError("processed_messages: writer INSERT / retention DELETE not found")

    def fmt_of_value(v: str, params: dict) -> str:
        v = v.strip().lower()
        if v.startswith("datetime(") or v.startswith("current_timestamp"):
            return "sqlite"
        m = re.match(r"[:%]\(?(\w+)\)?s?$", v)
        pv = str(params.get(m.group(1), "")) if m else ""
        if "isoformat" in pv:
            return "iso"
        if "strftime" in pv and "%Y-%m-%d %H:%M:%S" in pv:
            return "sqlite"
        return "unknown"

    wf = {fmt_of_value(s.vals[s.cols.index("processed_at")], s.params) for s in writers}
    for s in sweeps:
        cond = next(c for c in s.where if "processed_at" in c)
        m = re.match(r"(.+?)\s*(<=|<)\s*(.+)$", cond)
        if not m:
            rep.fail("C09.R5", f"{s.func.qualname}: retention comparison", f"`{cond}` is not of the form processed_at < cutoff", s.file, s.line, disc="retention-shape")
            continue
        lhs, rhs = m.group(1).strip(), m.group(3).strip()
        both_norm = lhs.startswith("datetime(") and rhs.startswith("datetime(")
        rf = fmt_of_value(rhs, s.params)
        same = (not lhs.startswith("datetime(")) and len(wf) == 1 and rf in wf and rf != "unknown"
        ok = both_norm or same
        rep.check(ok, "C09.R5", f"{s.func.qualname}: processed_at and the cutoff are compared in one format", f"`{cond}`; column written as {sorted(wf)}, cutoff is {rf}" + ("" if ok else
                  ": a TEXT comparison of 'YYYY-MM-DD HH:MM:SS' with an ISO 'YYYY-MM-DDTHH:MM:SS+00:00' cutoff - every record of the cutoff's calendar day sorts below it (' ' < 'T') and is swept whatever its age; "
                  "a message handled seconds before a sweep just after midnight loses its record and is handled again on redelivery"), s.file, s.line, disc="retention-format")
    rep.floor("retention sweeps of processed_messages", len(sweeps), 1)
