"""C13 - events and the state they describe commit together.

  R1  recorder: an event recorded while a store transaction is open joins its connection (same database) and its bus
      publication is deferred to the scope; it is published directly only when no scope is open
  R2  store context manager: scope opened before the body, commit then commit_store_transaction; rollback + abort + re-raise on failure
  R3  abort never publishes; commit publishes the pending events only when the outermost scope closes
  R4  the event store commits only a connection it owns; sequence numbers come from AUTOINCREMENT, never from the INSERT
  R5  in CompleteTask / CompleteStage every transaction that makes the task / stage complete carries the matching event
  R6  no completion event is recorded before (outside) the transaction that makes the completion durable
"""
from __future__ import annotations

import ast

from .. import sqlshape
from ..model import AnalysisError, norm
from ..paths import all_paths
from ..seqrules import path_infos

COMPLETION_EVENTS = {
    "record_stage_completed", "record_stage_failed", "record_stage_skipped", "record_stage_canceled",
    "record_task_completed", "record_task_failed",
}
WORKFLOW_OUTCOME_EVENTS = {"record_workflow_completed", "record_workflow_canceled", "record_workflow_failed"}


def _calls(node, name=None):
    for n in ast.walk(node):
        if isinstance(n, ast.Call):
            f = n.func
            nm = f.attr if isinstance(f, ast.Attribute) else (f.id if isinstance(f, ast.Name) else "")
            if name is None or nm == name:
                yield n


def _guarding_ifs(fn, node):
    """[(If, branch)] for every If of fn whose body/orelse contains node (innermost last)."""
    out = []
    for i in ast.walk(fn):
        if isinstance(i, ast.If):
            if any(node is x for s in i.body for x in ast.walk(s)):
                out.append((i, "body"))
            elif any(node is x for s in i.orelse for x in ast.walk(s)):
                out.append((i, "else"))
    out.sort(key=lambda t: t[0].lineno)
    return out


def run(ctx, rep) -> None:
    prog, T = ctx.prog, ctx.st
    rep.rule("C13.R1", "_record/_record_batch: bus publish only when no scope is open; with a scope the event is appended to scope.pending; the append joins scope.connection exactly when _store_matches_scope")
    rep.rule("C13.R2", "transaction(): begin_store_transaction before yield; commit() then commit_store_transaction() on success; rollback(), abort_store_transaction(), re-raise on failure")
    rep.rule("C13.R3", "abort_store_transaction never publishes; commit_store_transaction publishes pending only after depth reached 0")
    rep.rule("C13.R4", "append_batch commits only when it opened the connection; INSERT INTO events does not supply sequence; events.sequence is INTEGER PRIMARY KEY AUTOINCREMENT")
    rep.rule("C13.R5", "every CompleteTask/CompleteStage transaction that stores the own task/stage in a completed status contains the completion event (event atom inside the same transaction)")
    rep.rule("C13.R6", "no record_{stage,task}_{completed,failed,skipped,canceled} / record_workflow_{completed,canceled,failed} call outside a transaction before the commit that makes that state durable")
    rep.undecided += ["crash atomicity itself (SQLite)", "event stores living in a different database (documented eventual consistency)"]
    # ---- R1 -------------------------------------------------------------------------------------
    rb = prog.cls("stabilize.events.recorder.base", "EventRecorderBase")
    for name in ("_record", "_record_batch"):
        f = rb.methods.get(name)
        if f is None:
            raise AnalysisError(f"{name} not found")
        fn = f.node
        pubs = [c for c in _calls(fn) if isinstance(c.func, ast.Attribute) and c.func.attr in ("publish", "publish_batch")]
        from ..dom import holds
        ok = bool(pubs) and all(holds(fn, c, "scope is None", True) for c in pubs)
        rep.check(ok, "C13.R1", f"{name}: direct bus publication only without an open scope", f"{len(pubs)} publish call(s), each reached only with `scope is None`", f.file, pubs[0].lineno if pubs else fn.lineno, disc=f"{name}:publish")
        pend = [c for c in _calls(fn) if norm(c.func) in ("scope.pending.append", "scope.pending.extend")]
        ok = bool(pend) and all(holds(fn, c, "scope is None", False) for c in pend)
        rep.check(ok, "C13.R1", f"{name}: publication deferred to the scope", "scope.pending.append/extend under `scope is not None`", f.file, pend[0].lineno if pend else fn.lineno, disc=f"{name}:pending")
        joins = [n for n in ast.walk(fn) if isinstance(n, ast.Assign) and norm(n) == "connection = scope.connection"]
        ok = len(joins) == 1 and any("self._store_matches_scope(scope)" in norm(i.test) and "scope is not None" in norm(i.test) and br == "body" for i, br in _guarding_ifs(fn, joins[0]))
        rep.check(ok, "C13.R1", f"{name}: append joins the open transaction for a same-database store", "connection = scope.connection iff scope is open and _store_matches_scope", f.file, joins[0].lineno if joins else fn.lineno, disc=f"{name}:join")
        app = [c for c in _calls(fn) if isinstance(c.func, ast.Attribute) and c.func.attr in ("append", "append_batch") and "_event_store" in norm(c.func)]
        ok = len(app) == 1 and any(k.arg == "connection" and norm(k.value) == "connection" for k in app[0].keywords) and (not joins or app[0].lineno > joins[0].lineno)
        rep.check(ok, "C13.R1", f"{name}: the connection is passed to the event store", "append(..., connection=connection) after the join decision", f.file, app[0].lineno if app else fn.lineno, disc=f"{name}:pass")
        sc = [n for n in ast.walk(fn) if isinstance(n, ast.Assign) and norm(n.targets[0]) == "scope"]
        ok = len(sc) == 1 and norm(sc[0].value) == "current_scope() if connection is None else None"
        rep.check(ok, "C13.R1", f"{name}: scope looked up once", norm(sc[0].value) if sc else "", f.file, sc[0].lineno if sc else fn.lineno, disc=f"{name}:scope")
    ms = rb.methods.get("_store_matches_scope")
    if ms is None:
        raise AnalysisError("EventRecorderBase._store_matches_scope not found")
    # "same database" must mean what it means to the connection manager: get_sqlite_connection keys the shared thread-local
    # connections by KEY(connection_string). If the join decision compared anything finer (the raw strings), an event store
    # opened with another spelling of the same file would not join, append on "its own" connection - the SAME connection - and
    # append_batch would commit the caller's open transaction half-way.
    cm_cls = prog.cls("stabilize.persistence.connection", "ConnectionManager")
    gsc = cm_cls.methods.get("get_sqlite_connection")
    keyfn = None
    if gsc is not None:
        subs = [n for n in ast.walk(gsc.node) if isinstance(n, ast.Subscript) and norm(n.value) == "connections" and isinstance(n.slice, ast.Name)]
        for sub in subs:
            for a in ast.walk(gsc.node):
                if isinstance(a, ast.Assign) and norm(a.targets[0]) == sub.slice.id and isinstance(a.value, ast.Call) and isinstance(a.value.func, ast.Attribute):
                    keyfn = a.value.func.attr
    if keyfn is None:
        raise AnalysisError("ConnectionManager.get_sqlite_connection: the key under which thread-local connections are shared was not found")
    aliases = {keyfn}
    for a in ast.walk(ms.node):
        if isinstance(a, ast.Assign) and isinstance(a.targets[0], ast.Name) and isinstance(a.value, ast.Attribute) and a.value.attr == keyfn:
            aliases.add(a.targets[0].id)

    def _keyed(e, what: str) -> bool:
        return isinstance(e, ast.Call) and ((isinstance(e.func, ast.Name) and e.func.id in aliases) or (isinstance(e.func, ast.Attribute) and e.func.attr == keyfn)) and len(e.args) == 1 and norm(e.args[0]) == what

    def _ident(e) -> bool:
        if isinstance(e, ast.Call) and norm(e.func) == "bool" and len(e.args) == 1:
            return _ident(e.args[0])
        if isinstance(e, ast.BoolOp) and isinstance(e.op, ast.And):
            return any(_ident(v) for v in e.values) and all(_ident(v) or "is not None" in norm(v) for v in e.values)
        if isinstance(e, ast.Compare) and len(e.ops) == 1 and isinstance(e.ops[0], ast.Eq):
            l, r = e.left, e.comparators[0]
            return (_keyed(l, "store_url") and _keyed(r, "scope.url")) or (_keyed(r, "store_url") and _keyed(l, "scope.url"))
        if isinstance(e, ast.Compare) and len(e.ops) == 1 and isinstance(e.ops[0], ast.Is):
            return "connection" in norm(e.left) and "connection" in norm(e.comparators[0])
        return False

    rets = [r for r in ast.walk(ms.node) if isinstance(r, ast.Return) and r.value is not None]
    positive = [r for r in rets if not (isinstance(r.value, ast.Constant) and r.value.value is False)]
    ok = bool(positive) and all(_ident(r.value) for r in positive)
    rep.check(ok, "C13.R1", "_store_matches_scope decides 'same database' with the connection manager's own key", f"every non-False return compares {keyfn}(store_url) == {keyfn}(scope.url) (or the connection objects)" if ok else
              f"returns `{norm(positive[0].value) if positive else '?'}`: connections are shared per {keyfn}(connection_string), so two spellings of one SQLite file share a connection but do not 'match' - the event is appended outside the scope on that same connection "
              "and append_batch commits the handler's open transaction half-way (state and event durable although the transaction fails)", ms.file, positive[0].lineno if positive else ms.node.lineno, disc="matches")

    # ---- R2 -------------------------------------------------------------------------------------
    cms = [("stabilize.persistence.sqlite.store.store", "SqliteWorkflowStore.transaction")]
    if rep.tier == "thorough":
        cms.append(("stabilize.persistence.postgres.store", "PostgresWorkflowStore.transaction"))
    for modname, qual in cms:
        try:
            f = prog.func(modname, qual)
        except AnalysisError:
            continue
        fn = f.node
        tries = [t_ for t_ in ast.walk(fn) if isinstance(t_, ast.Try) and any(isinstance(s, ast.Expr) and isinstance(s.value, ast.Yield) for s in t_.body)]
        if not tries:
            rep.fail("C13.R2", qual, "try/yield not found", f.file, fn.lineno, disc="shape")
            continue
        tr = tries[0]
        begin = [c for c in _calls(fn, "begin_store_transaction")]
        commit_sc = [c for c in _calls(fn, "commit_store_transaction")]
        abort = [c for c in _calls(fn, "abort_store_transaction")]
        yi = next(i for i, s in enumerate(tr.body) if isinstance(s, ast.Expr) and isinstance(s.value, ast.Yield))
        db_commit = [s for s in tr.body[yi + 1:] if ".commit()" in norm(s)]
        ok_begin = len(begin) == 1 and begin[0].lineno < tr.lineno
        in_handlers = lambda c: any(c is x for h in tr.handlers for x in ast.walk(h))  # noqa: E731
        in_finally = lambda c: any(c is x for s in tr.finalbody for x in ast.walk(s))  # noqa: E731
        ok_commit = len(commit_sc) == 1 and not in_handlers(commit_sc[0]) and not in_finally(commit_sc[0]) and bool(db_commit) and commit_sc[0].lineno > db_commit[0].lineno
        ok_abort = len(abort) >= 1 and all(in_handlers(c) for c in abort)
        h_ok = False
        for h in tr.handlers:
            hs = [norm(s) for s in h.body]
            rb_i = next((i for i, s in enumerate(hs) if ".rollback()" in s), None)
            ab_i = next((i for i, s in enumerate(hs) if "abort_store_transaction()" in s), None)
            rr = isinstance(h.body[-1], ast.Raise) and h.body[-1].exc is None
            h_ok = h_ok or (rb_i is not None and ab_i is not None and rb_i < ab_i and rr)
        rep.check(ok_begin, "C13.R2", f"{qual}: scope opened before the body", "begin_store_transaction(conn, url) before try/yield", f.file, begin[0].lineno if begin else fn.lineno, disc=f"{qual}:begin")
        rep.check(ok_commit, "C13.R2", f"{qual}: bus publication only after the database commit", "conn.commit() then commit_store_transaction(), never on the failure path", f.file, commit_sc[0].lineno if commit_sc else fn.lineno, disc=f"{qual}:commit")
        rep.check(ok_abort and h_ok, "C13.R2", f"{qual}: failure path rolls back, aborts the scope and re-raises", "except: rollback(); abort_store_transaction(); raise", f.file, tr.handlers[0].lineno if tr.handlers else fn.lineno, disc=f"{qual}:abort")
        # the failure path must be taken for EVERY way the body can be left abnormally: KeyboardInterrupt / SystemExit are not
        # Exceptions - with `except Exception` they leave the connection inside the abandoned transaction and the scope bound,
        # and the next commit on the thread makes the half transaction durable
        broad = any(h.type is None or norm(h.type) == "BaseException" for h in tr.handlers if any(".rollback()" in norm(s_) for s_ in h.body)) or any(".rollback()" in norm(s_) for s_ in tr.finalbody)
        rep.check(broad, "C13.R2", f"{qual}: the rollback path also covers BaseException", "except BaseException (or bare except / finally) around yield + commit" if broad else
                  "the rollback / abort handler catches `Exception` only: an interrupt inside the block leaves the transaction open and the event scope bound - the next commit on this thread makes the abandoned writes and events durable",
                  f.file, tr.handlers[0].lineno if tr.handlers else fn.lineno, disc=f"{qual}:baseexception")

    # ---- R3 -------------------------------------------------------------------------------------
    ts = prog.module("stabilize.events.txn_scope")
    ab = ts.functions.get("abort_store_transaction")
    cm = ts.functions.get("commit_store_transaction")
    if ab is None or cm is None:
        raise AnalysisError("txn_scope functions not found")
    rep.check(not any(True for _ in _calls(ab.node, "publish")) and not any(True for _ in _calls(ab.node, "publish_batch")) and "get_event_bus" not in norm(ab.node), "C13.R3", "abort never publishes", "", ab.file, ab.node.lineno, disc="abort")
    pubs = list(_calls(cm.node, "publish")) + list(_calls(cm.node, "publish_batch"))
    dec = [n for n in cm.node.body if isinstance(n, ast.AugAssign) and norm(n) == "scope.depth -= 1"]
    guard = [n for n in cm.node.body if isinstance(n, ast.If) and norm(n.test) == "scope.depth > 0" and any(isinstance(s, ast.Return) for s in n.body)]
    ok = bool(pubs) and bool(dec) and bool(guard) and dec[0].lineno < guard[0].lineno < min(p.lineno for p in pubs)
    rep.check(ok, "C13.R3", "commit publishes only when the outermost scope closes", "depth -= 1; if depth > 0: return; publish pending", cm.file, cm.node.lineno, disc="commit")
    clr = lambda f: [n for n in ast.walk(f.node) if isinstance(n, ast.Assign) and norm(n) == "_local.scope = None"]  # noqa: E731
    rep.check(bool(clr(ab)) and bool(clr(cm)), "C13.R3", "both close the thread-local scope", "_local.scope = None", cm.file, cm.node.lineno, disc="clear")
    # the scope is unbound BEFORE the deferred events are published: a subscriber that records an event while being notified
    # must not join the already committed transaction (its event would be announced but never committed)
    in_finally = [n for t_ in ast.walk(cm.node) if isinstance(t_, ast.Try) for s_ in t_.finalbody for n in ast.walk(s_) if isinstance(n, ast.Assign) and norm(n) == "_local.scope = None"]
    ok = bool(clr(cm)) and bool(pubs) and max(n.lineno for n in clr(cm)) < min(p_.lineno for p_ in pubs) and not in_finally
    rep.check(ok, "C13.R3", "the scope is closed before the deferred publication starts", "_local.scope = None precedes the publish loop (not in a finally after it)", cm.file, clr(cm)[0].lineno if clr(cm) else cm.node.lineno, disc="clear-before-publish")

    # ---- R4 -------------------------------------------------------------------------------------
    es = prog.cls("stabilize.events.store.sqlite.events", "SqliteEventStoreMixin").methods["append_batch"]
    t = norm(es.node)
    own = [n for n in ast.walk(es.node) if isinstance(n, ast.Assign) and norm(n) == "should_commit = connection is None"]
    commits = [c for c in _calls(es.node) if isinstance(c.func, ast.Attribute) and c.func.attr in ("commit", "rollback")]
    ok = bool(own) and bool(commits) and all(any(norm(i.test) == "should_commit" and br == "body" for i, br in _guarding_ifs(es.node, c)) for c in commits)
    rep.check(ok, "C13.R4", "append_batch commits/rolls back only a connection it opened", f"{len(commits)} commit/rollback call(s), all under `if should_commit`", es.file, es.node.lineno, disc="own-commit")
    ins = [s for s in sqlshape.statements(prog) if s.func.qualname == "SqliteEventStoreMixin.append_batch" and s.kind == "INSERT"]
    rep.check(len(ins) == 1 and ins[0].table == "events" and "sequence" not in ins[0].cols, "C13.R4", "INSERT INTO events does not supply sequence", f"columns: {ins[0].cols if ins else None}", es.file, ins[0].line if ins else es.node.lineno, disc="insert")
    tabs = [tb for tb in sqlshape.ddl(prog) if tb.name == "events" and "sqlite" in tb.module]
    ok = bool(tabs) and all("autoincrement" in tb.cols.get("sequence", "") and "primary key" in tb.cols.get("sequence", "") for tb in tabs)
    rep.check(ok, "C13.R4", "events.sequence INTEGER PRIMARY KEY AUTOINCREMENT", f"{[tb.cols.get('sequence') for tb in tabs]}", tabs[0].file if tabs else "", tabs[0].line if tabs else 0, disc="ddl")

    # ---- R5 / R6 on path data -----------------------------------------------------------------------
    res = all_paths(ctx)
    infos = [p for p in path_infos(res) if p.message]
    COMPLETED = T.sets["COMPLETED_STATUSES"]
    seen: set = set()
    n5 = 0
    for pi in infos:
        if pi.handler not in ("CompleteTaskHandler", "CompleteStageHandler"):
            continue
        kind = "task" if pi.handler == "CompleteTaskHandler" else "stage"
        for c in pi.seq:
            if c.kind != "TXN":
                continue
            stores = [e for e in c.effects if e.kind == "store_stage" and e.get("own")]
            if not stores:
                continue
            # the own entity was given a (possibly) completed status on this path before this commit
            writes = [e for e in pi.trace[: c.index] if e.kind == "status_write" and e.get("own") and e.get("okind") == kind and e.get("to") & COMPLETED]
            if not writes:
                continue
            commit_ev = pi.trace[c.index]
            at_commit = [m for (k, m, oid) in (commit_ev.get("owns") or ()) if k == kind and str(oid) == str(writes[-1].get("oid"))]
            to = at_commit[0] if at_commit else writes[-1].get("to")
            if not (to & COMPLETED):
                continue
            n5 += 1
            evs = [e for e in c.effects if e.kind == "event" and e.get("okind") == kind]
            final = to
            ctx_fn = str(stores[-1].get("ctx")).split(">")[-1]
            key = (pi.handler, bool(evs), tuple(sorted(final)) if len(final) < 12 else ("*",), c.site)
            if key in seen:
                continue
            seen.add(key)
            label = f"{pi.handler}: transaction storing {kind} as {sorted(final) if len(final) < 12 else 'any'}"
            if evs:
                rep.ok("C13.R5", label, f"carries {sorted({e.get('name') for e in evs})}", c.site[0], c.site[1])
            elif kind == "task" and final == frozenset({"SKIPPED"}):
                rep.fail("C13.R5", label, "a task completed as SKIPPED gets no event (explicit `pass`): the log has no record of the completion", c.site[0], c.site[1], disc="task-skipped-no-event")
            else:
                rep.fail("C13.R5", label, "the completion is committed without its event in the same transaction", c.site[0], c.site[1], disc=f"{kind}:{','.join(sorted(final)) if len(final) < 12 else 'any'}:{c.site[1] if False else ctx_fn}")
    rep.floor("completing transactions in CompleteTask/CompleteStage", n5, 20)
    n6 = 0
    for pi in infos:
        for i, e in enumerate(pi.trace):
            if e.kind == "event" and e.get("name") in WORKFLOW_OUTCOME_EVENTS:
                # the workflow's outcome event: same rule, the durable change is update_workflow_status / store.update_status
                n6 += 1
                if e.get("in_txn"):
                    continue
                later_w = [x for x in pi.trace[i + 1:] if x.kind == "update_workflow_status" or (x.kind == "auto" and str(x.get("api")) in ("store.update_status", "store.update_workflow_status"))]
                key = (pi.handler, e.get("name"), bool(later_w), e.site)
                if key in seen:
                    continue
                seen.add(key)
                if later_w:
                    rep.fail("C13.R6", f"{pi.handler}: {e.get('name')}", "the workflow's outcome event is recorded outside and BEFORE the transaction that stores the outcome: when that commit fails (or the process dies) the event is durable and "
                             "published for a workflow that is still RUNNING, and the redelivered message records it a second time", e.site[0], e.site[1], disc=f"{e.get('name')}")
                else:
                    rep.ok("C13.R6", f"{pi.handler}: {e.get('name')}", "recorded after the outcome is durable", e.site[0], e.site[1])
                continue
            if e.kind != "event" or e.get("name") not in COMPLETION_EVENTS:
                continue
            n6 += 1
            if e.get("in_txn"):
                continue
            # outside a transaction: is there a later commit on this path that stores the described object?
            later = [x for x in pi.trace[i + 1:] if x.kind == "store_stage" and (x.get("oid") == e.get("oid") or e.get("okind") == "task")]
            key = (pi.handler, e.get("name"), bool(later), e.site)
            if key in seen:
                continue
            seen.add(key)
            if later:
                rep.fail("C13.R6", f"{pi.handler}: {e.get('name')}", "completion event recorded outside and BEFORE the transaction that makes the state durable: a lost CAS / crash leaves a durable event for a change that never happened",
                         e.site[0], e.site[1], disc=f"{e.get('name')}")
            else:
                rep.ok("C13.R6", f"{pi.handler}: {e.get('name')}", "recorded after the state is durable", e.site[0], e.site[1])
    rep.floor("completion event call events on paths", n6, 20)
    # R2 (paths): nothing commits inside a store transaction - otherwise state and event of one "transaction" land in different commits
    n_in = 0
    for pi in path_infos(res):
        for e in pi.trace:
            if e.kind == "auto" and e.get("in_txn"):
                n_in += 1
                key = ("in-txn", e.site, e.get("api"))
                if key in seen:
                    continue
                seen.add(key)
                rep.fail("C13.R2", f"{pi.handler}: {e.get('api')} inside a transaction body", f"{e.get('api')} ({str(e.get('ctx')).split('>')[-1]}) commits on the shared connection in the middle of the transaction: what was written before it (state) and after it (event, mark, messages) "
                         "no longer commit together", e.site[0], e.site[1], disc=f"{e.get('api')}:{str(e.get('ctx')).split('>')[-1]}")
    if not n_in:
        rep.ok("C13.R2", "no self-committing store/queue call inside any transaction body", f"{sum(1 for p_ in path_infos(res) for e in p_.trace if e.kind == 'txn_begin')} transaction executions on all handler paths", "src/stabilize/handlers", 0)
