"""C15 - jump loops are bounded and always terminate.

  R1  the jump transaction (StartStage(target)) is reached only after the budget check passed; a spent budget fails the source stage terminally
  R2  budget arithmetic: count >= max_jumps; max_jumps: execution context, stage context, default 10 (None-tests, so 0 disables); stored count = count + 1
  R3  the budget survives re-arming: reset_stage_for_retry removes only join bookkeeping; nobody else deletes the budget keys
  R4  all mutations of one jump, the mark and the follow-up message are ONE transaction whose stage writes are re-read inside it
  R5  fan-in boundary: a stage is re-armed / skipped only if ALL its prerequisites are in scope; forward skips only touch NOT_STARTED stages
  R6  re-arm clears every per-iteration join/split bookkeeping key that other handlers write
"""
from __future__ import annotations

import ast

from ..keyscan import key_sites
from ..model import AnalysisError, norm
from ..paths import all_paths
from ..seqrules import atoms, path_infos, shape

JH = "stabilize.handlers.jump_to_stage.handler"
BUDGET_KEYS = ("_jump_count", "_jump_history", "_max_jumps")


def _calls(node, name=None):
    for n in ast.walk(node):
        if isinstance(n, ast.Call):
            f = n.func
            nm = f.attr if isinstance(f, ast.Attribute) else (f.id if isinstance(f, ast.Name) else "")
            if name is None or nm == name:
                yield n


def run(ctx, rep) -> None:
    prog = ctx.prog
    rep.rule("C15.R1", "in JumpToStageHandler the StartStage push is control-dependent on `_check_jump_count(...)` returning True; its False branch applies reset_stage_to_terminal + CompleteStage in one transaction")
    rep.rule("C15.R2", "limit test jump_count >= max_jumps; max_jumps from execution.context, then source stage context, then DEFAULT_MAX_JUMPS = 10 via `is None` tests; new count = jump_count + 1 written to the target and the source")
    rep.rule("C15.R3", "reset_stage_for_retry removes only join bookkeeping keys and never replaces stage.context; no code deletes _jump_count/_jump_history/_max_jumps")
    rep.rule("C15.R4", "every JumpToStage path with effects is a single TXN{store_stage*, mark, push}; each stored stage is re-read inside the transaction body")
    rep.rule("C15.R5", "get_resettable/skippable_downstream_stages add a stage only under all(r in scope for r in prereqs); forward skips filtered by status == NOT_STARTED")
    rep.rule("C15.R6", "every bookkeeping key written by StartStage / split logic (_join_fired, _completed_branches, _activated_branches) is in reset_stage_for_retry's clear set")
    rep.undecided += ["that the re-arm set is exactly right for every DAG shape", "termination when different stages jump alternately, each with its own counter (the counter is per source-stage context)"]
    on = prog.func(JH, "JumpToStageHandler._handle_with_retry.on_stage").node
    # ---- R1 --------------------------------------------------------------------------------------
    guard = [n for n in on.body if isinstance(n, ast.If) and norm(n.test) == "not self._check_jump_count(message, execution, source_stage)" and len(n.body) == 1 and isinstance(n.body[0], ast.Return)]
    apply_calls = [c for c in _calls(on, "_apply_jump")]
    ok = len(guard) == 1 and bool(apply_calls) and all(c.lineno > guard[0].lineno for c in apply_calls)
    rep.check(ok, "C15.R1", "budget check dominates the jump", "if not self._check_jump_count(...): return precedes every _apply_jump in on_stage", "src/stabilize/handlers/jump_to_stage/handler.py", guard[0].lineno if guard else on.lineno, disc="dominates")
    # resets of the target also only after the check
    resets = [c for c in _calls(on, "reset_stage_for_retry")]
    rep.check(bool(guard) and all(c.lineno > guard[0].lineno for c in resets), "C15.R1", "no re-arm before the budget check", f"{len(resets)} reset call(s) after the check", "src/stabilize/handlers/jump_to_stage/handler.py", guard[0].lineno if guard else on.lineno, disc="reset-after")
    cj = prog.func(JH, "JumpToStageHandler._check_jump_count").node
    lim = [n for n in cj.body if isinstance(n, ast.If) and norm(n.test) == "jump_count >= max_jumps"]
    ok = len(lim) == 1 and isinstance(lim[0].body[-1], ast.Return) and norm(lim[0].body[-1].value) == "False" and isinstance(cj.body[-1], ast.Return) and norm(cj.body[-1].value) == "True"
    rep.check(ok, "C15.R2", "limit test", "if jump_count >= max_jumps: ... return False; return True", "src/stabilize/handlers/jump_to_stage/handler.py", lim[0].lineno if lim else cj.lineno, disc="limit")
    if lim:
        t = norm(lim[0])
        ok = "reset_stage_to_terminal(s, end_time)" in t and "CompleteStage(" in t and "self._apply_jump(" in t
        rep.check(ok, "C15.R1", "a spent budget fails the source stage terminally", "reset_stage_to_terminal + CompleteStage through _apply_jump (one transaction)", "src/stabilize/handlers/jump_to_stage/handler.py", lim[0].lineno, disc="terminal")
    # ---- R2 --------------------------------------------------------------------------------------
    from ..chain import resolve
    jcls = prog.cls(JH, "JumpToStageHandler")
    want_max = [("first", "execution.context[_max_jumps]"), ("none", "source_stage.context[_max_jumps]"), ("none", "DEFAULT_MAX_JUMPS")]
    want_cnt = [("first", "source_stage.context[_jump_count]"), ("missing", "0")]
    for label, q in (("_check_jump_count", "JumpToStageHandler._check_jump_count"), ("on_stage", "JumpToStageHandler._handle_with_retry.on_stage")):
        fi_ = prog.func(JH, q)
        ch = resolve(prog, fi_, "max_jumps", self_cls=jcls)
        rep.check(ch == want_max, "C15.R2", f"{label}: max_jumps resolution order", "execution context -> source stage context -> DEFAULT_MAX_JUMPS, each consulted only when the previous is None (0 disables jumps)"
                  if ch == want_max else f"max_jumps resolves as {ch}: expected workflow setting, else stage setting, else default, each behind an `is None` test (a falsy test turns 0 into the next source)",
                  "src/stabilize/handlers/jump_to_stage/handler.py", fi_.node.lineno, disc=f"chain:{label}")
        cc = resolve(prog, fi_, "jump_count", self_cls=jcls)
        rep.check(cc == want_cnt, "C15.R2", f"{label}: count read from the source stage", f"jump_count resolves as {cc}", "src/stabilize/handlers/jump_to_stage/handler.py", fi_.node.lineno, disc=f"count:{label}")
    d = prog.module(JH).assigns.get("DEFAULT_MAX_JUMPS")
    rep.check(isinstance(d, ast.Constant) and d.value == 10, "C15.R2", "DEFAULT_MAX_JUMPS = 10", norm(d) if d is not None else "missing", "src/stabilize/handlers/jump_to_stage/handler.py", getattr(d, "lineno", 0), disc="default")
    t = norm(on).replace("'", '"')
    ok = "new_jump_count = jump_count + 1" in t and ('target_stage.context["_jump_count"] = new_jump_count' in t or 'target_context_updates["_jump_count"] = new_jump_count' in t) and '"_jump_count": new_jump_count' in t
    rep.check(ok, "C15.R2", "the stored count is count + 1, on the target and on the source", "new_jump_count = jump_count + 1 written to target context and source updates", "src/stabilize/handlers/jump_to_stage/handler.py", on.lineno, disc="increment")
    # the target's context updates are applied AFTER its reset inside the mutation
    mt = [n for n in ast.walk(on) if isinstance(n, ast.FunctionDef) and n.name == "mutate_target"]
    # order matters, not adjacency: the reset comes first, the budget update after it, and nothing resets again afterwards
    seq_ = [norm(s) for s in mt[0].body] if mt else []
    ok = bool(mt) and "reset_stage_for_retry(s)" in seq_ and "s.context.update(updates)" in seq_ and seq_.index("reset_stage_for_retry(s)") < seq_.index("s.context.update(updates)") \
        and not any("reset_stage" in x for x in seq_[seq_.index("s.context.update(updates)"):])
    rep.check(ok, "C15.R2", "the budget is written after the re-arm of the target", "mutate_target: reset_stage_for_retry(s); s.context.update(updates)", "src/stabilize/handlers/jump_to_stage/handler.py", mt[0].lineno if mt else on.lineno, disc="target-order")

    # ---- R3 --------------------------------------------------------------------------------------
    rs = prog.func("stabilize.handlers.jump_to_stage.reset", "reset_stage_for_retry").node
    cleared: set = set()
    for n in ast.walk(rs):
        if isinstance(n, ast.For) and isinstance(n.iter, (ast.Tuple, ast.List)) and any(norm(c.func) == "stage.context.pop" for c in _calls(n)):
            cleared |= {e.value for e in n.iter.elts if isinstance(e, ast.Constant)}
        for c in _calls(n, "pop"):
            if norm(c.func) == "stage.context.pop" and c.args and isinstance(c.args[0], ast.Constant):
                cleared.add(c.args[0].value)
    rep.check(not (cleared & set(BUDGET_KEYS)), "C15.R3", "re-arm keeps the budget keys", f"cleared keys: {sorted(cleared)}", "src/stabilize/handlers/jump_to_stage/reset.py", rs.lineno, disc="cleared")
    rep.check("stage.context =" not in norm(rs) and "stage.context.clear()" not in norm(rs), "C15.R3", "re-arm never replaces the context", "", "src/stabilize/handlers/jump_to_stage/reset.py", rs.lineno, disc="replace")
    # every task of a re-armed stage goes back to NOT_STARTED, whatever its status (REDIRECT, PAUSED, ... included): a task that
    # keeps its old status is refused by StartTask in the next iteration and the stage stays RUNNING with an empty queue
    from ..dom import conditions_at as _cat
    from ..statuspred import status_set as _sset
    tas = [a_ for a_ in ast.walk(rs) if isinstance(a_, ast.Assign) and norm(a_.targets[0]) == "task.status" and norm(a_.value) == "WorkflowStatus.NOT_STARTED"]
    ok_t = bool(tas)
    det_t = "task.status = NOT_STARTED for every task"
    for a_ in tas:
        covered = frozenset(T.members) if "T" in dir() else None
        allst = frozenset(ctx.st.members)
        cov = allst
        for text, truth in _cat(rs, a_):
            try:
                ss = _sset(ast.parse(text, mode="eval").body, "task.status", ctx.st)
            except SyntaxError:
                ss = None
            if ss is not None:
                cov = cov & (ss if truth else allst - ss)
        if cov != allst:
            ok_t = False
            det_t = f"only tasks in {sorted(cov)} are reset; a task in {sorted(allst - cov)[:4]} keeps its status"
    rep.check(ok_t, "C15.R3", "re-arm resets every task of the stage", det_t if ok_t else det_t + ": e.g. the jumping task already marked REDIRECT (its CompleteTask was handled before the JumpToStage) survives the re-arm, "
              "the next StartTask is ignored and the loop stalls", "src/stabilize/handlers/jump_to_stage/reset.py", tas[0].lineno if tas else rs.lineno, disc="reset-all-tasks")
    # removals by COMPUTED key in the re-arm helper: every key it can remove is one of the literal keys listed above
    dyn = []
    for n in ast.walk(rs):
        key_expr = None
        if isinstance(n, ast.Delete):
            for t_ in n.targets:
                if isinstance(t_, ast.Subscript) and norm(t_.value).endswith(".context") and not isinstance(t_.slice, ast.Constant):
                    key_expr = t_.slice
        elif isinstance(n, ast.Call) and norm(n.func).endswith(".context.pop") and n.args and not isinstance(n.args[0], ast.Constant):
            # pop(key) inside `for key in (<literals>)` is the literal form handled above
            loop = [f_ for f_ in ast.walk(rs) if isinstance(f_, ast.For) and any(x_ is n for x_ in ast.walk(f_)) and isinstance(f_.iter, (ast.Tuple, ast.List)) and all(isinstance(e_, ast.Constant) for e_ in f_.iter.elts)]
            if not loop:
                key_expr = n.args[0]
        if key_expr is not None:
            dyn.append((n, key_expr))
    for n, key_expr in dyn:
        # which protected keys can the computed key be? a startswith(prefix) filter is evaluated, anything else counts as "any key"
        hit = list(BUDGET_KEYS)
        for c_ in ast.walk(rs):
            if isinstance(c_, ast.Call) and isinstance(c_.func, ast.Attribute) and c_.func.attr == "startswith" and c_.args and isinstance(c_.args[0], ast.Constant):
                hit = [k_ for k_ in BUDGET_KEYS if k_.startswith(c_.args[0].value)]
        rep.check(not hit, "C15.R3", "re-arm removes no budget key through a computed key", "" if not hit else
                  f"`{norm(n)[:80]}` removes context keys chosen at run time and {hit} match: a stage that is re-armed as a bystander of another stage's jump loses its own jump counter, "
                  "so two stages jumping alternately never reach max_jumps - the loop does not terminate", "src/stabilize/handlers/jump_to_stage/reset.py", n.lineno, disc="cleared-dynamic")
    for k in BUDGET_KEYS:
        for s in key_sites(prog, k):
            if s["op"] == "delete":
                rep.fail("C15.R3", f"{k} deleted in {s['qual']}", "the loop budget must survive every iteration", s["file"], s["line"], disc=f"{k}:{s['qual']}")
        ws = [s for s in key_sites(prog, k) if s["op"] in ("write", "dict-literal")]
        for s in ws:
            rep.check(s["qual"].startswith("JumpToStageHandler"), "C15.R3", f"{k} written in {s['qual']}", "only the jump handler writes the budget", s["file"], s["line"], disc=f"{k}:w:{s['qual']}")

    # ---- R4 --------------------------------------------------------------------------------------
    res = all_paths(ctx)
    infos = [p for p in path_infos(res) if p.handler == "JumpToStageHandler"]
    seen: set = set()
    n4 = 0
    for pi in infos:
        if not pi.seq:
            continue
        key = pi.shape
        if key in seen:
            continue
        seen.add(key)
        n4 += 1
        one = len(pi.seq) == 1 and pi.seq[0].kind == "TXN"
        a = atoms(pi.seq[0]) if pi.seq else ()
        stores = any(e.kind == "store_stage" for c_ in pi.seq for e in c_.effects)
        if not stores and one and "mark" in a and not any(x.startswith("push:") for x in a):
            # a jump that changes nothing (source no longer RUNNING): the message is consumed, mark only (justified in C05.R6)
            rep.ok("C15.R4", f"jump path {pi.shape}", "no stage is changed: the message is only marked processed", pi.where()[0], pi.where()[1])
            continue
        ok = one and "mark" in a and (any(x.startswith("push:") for x in a))
        rep.check(ok, "C15.R4", f"jump path {pi.shape}", "one transaction with the mark and the follow-up message", pi.where()[0], pi.where()[1], disc=pi.shape)
    rep.floor("distinct JumpToStage commit shapes", n4, 3)
    stale = None
    for pi in infos:
        for e in pi.trace:
            if e.kind == "store_stage":
                fresh = str(e.get("fresh_ctx") or "")
                parts = str(e.get("ctx")).split(">")
                idx = [i for i, q in enumerate(parts) if q.split(".")[-1] == "attempt"]
                if not idx or fresh.split(">")[: idx[-1] + 1] != parts[: idx[-1] + 1]:
                    stale = e
    rep.check(stale is None, "C15.R4", "every stage written by a jump is re-read inside the transaction attempt", "fresh = retrieve_stage(id); mutate(fresh); txn.store_stage(fresh)" if stale is None else f"stage read at [{stale.get('fresh_ctx')}] stored in the jump transaction",
              (stale.site if stale else ("src/stabilize/handlers/jump_to_stage/handler.py", 0))[0], (stale.site if stale else ("", 0))[1], disc="fresh")
    # the target's StartStage is the pushed message
    ok = any(e.kind == "push" and e.get("cls") == "StartStage" for pi in infos for c in pi.seq for e in c.effects)
    rep.check(ok, "C15.R4", "the jump pushes StartStage in the same transaction", "", "src/stabilize/handlers/jump_to_stage/handler.py", 0, disc="startstage")

    # ---- R5 --------------------------------------------------------------------------------------
    tv = prog.module("stabilize.handlers.jump_to_stage.traversal")
    for fnname in ("get_resettable_downstream_stages", "get_skippable_downstream_stages"):
        f = tv.functions.get(fnname)
        if f is None:
            raise AnalysisError(f"{fnname} not found")
        adds = [c for c in _calls(f.node, "add")]
        ok = False
        line = f.node.lineno
        if adds:
            # the add is control-dependent on a test that includes all(r in scope for r in prereqs)
            for i in ast.walk(f.node):
                if isinstance(i, ast.If) and any(c in list(ast.walk(i)) for c in adds):
                    names = {n.id for n in ast.walk(i.test) if isinstance(n, ast.Name)}
                    defs = {norm(a.targets[0]): norm(a.value) for a in ast.walk(f.node) if isinstance(a, ast.Assign) and isinstance(a.targets[0], ast.Name)}
                    exprs = [norm(i.test)] + [defs.get(n, "") for n in names]
                    is_all = lambda e: e.replace("((", "(").replace("))", ")").startswith("all(r in ") and e.replace("))", ")").endswith(" for r in prereqs)")  # noqa: E731
                    if any(is_all(e) for e in exprs):
                        # the all() variable must be a conjunct of the test (not under `or`)
                        conj = [norm(v) for v in (i.test.values if isinstance(i.test, ast.BoolOp) and isinstance(i.test.op, ast.And) else [i.test])]
                        all_vars = [n for n in names if is_all(defs.get(n, ""))]
                        ok = any(v in conj for v in all_vars) or any(is_all(c) for c in conj)
                        line = i.lineno
        rep.check(ok, "C15.R5", f"{fnname}: fan-in boundary", "a stage joins the scope only if ALL of its prerequisites are in scope", tv.relpath, line, disc=fnname)
        # the scope is a least fixed point: the scan is repeated until nothing is added (a single sweep depends on the declaration order of the stages)
        def _enclosed_by_while(fn, target) -> bool:
            def rec(node, inside):
                for ch in ast.iter_child_nodes(node):
                    if ch is target:
                        return inside
                    r = rec(ch, inside or isinstance(ch, ast.While))
                    if r is not None:
                        return r
                return None
            return bool(rec(fn, False))
        recursive = any(isinstance(c.func, ast.Name) and c.func.id == fnname for c in _calls(f.node))
        fx = bool(adds) and (all(_enclosed_by_while(f.node, a) for a in adds) or recursive)
        rep.check(fx, "C15.R5", f"{fnname}: scope computed to a fixed point", "the scan that adds stages is repeated (while-loop / recursion) until no stage is added"
                  if fx else "stages are added in one sweep over execution.stages: a stage declared before its prerequisite is never re-examined, so the re-arm set depends on declaration order", tv.relpath, adds[0].lineno if adds else f.node.lineno, disc=f"fixpoint:{fnname}")
    # the stages a forward jump protects from skipping are the target and EVERYTHING reachable from it (plain reachability):
    # whatever depends on the target must still run after it. The fan-in-restricted closures are subsets - using one here
    # skips a successor of the target that also depends on a bypassed stage, and that successor never runs.
    gs = tv.functions.get("get_skipped_stages")
    if gs is None:
        raise AnalysisError("get_skipped_stages not found")
    closure_calls = [c for c in _calls(gs.node) if isinstance(c.func, ast.Name) and c.func.id in tv.functions and len(c.args) == 2 and "target" in norm(c.args[1])]
    ok = False
    detail = "no closure over the target found"
    for c in closure_calls:
        callee = tv.functions[c.func.id].node
        restricted = any(isinstance(x, ast.Call) and isinstance(x.func, ast.Name) and x.func.id == "all" for x in ast.walk(callee))
        ok = not restricted
        detail = f"{c.func.id}(execution, {norm(c.args[1])}): " + ("every stage reachable from the target" if ok else "a fan-in-restricted closure (contains an all(...) test)")
    rep.check(ok, "C15.R5", "forward jump: everything reachable from the target is exempt from skipping", detail if ok else detail + ": a successor of the target that also depends on a bypassed stage is marked SKIPPED and never runs - the workflow stays RUNNING",
              tv.relpath, closure_calls[0].lineno if closure_calls else gs.node.lineno, disc="target-chain-unrestricted")
    skip_guard = [n for n in ast.walk(on) if isinstance(n, ast.If) and norm(n.test) == "skipped.status == WorkflowStatus.NOT_STARTED"]
    rep.check(bool(skip_guard) and any("reset_stage_to_skipped" in norm(s) for s in skip_guard[0].body), "C15.R5", "forward jump skips only NOT_STARTED stages", "if skipped.status == NOT_STARTED: mark skipped", "src/stabilize/handlers/jump_to_stage/handler.py", skip_guard[0].lineno if skip_guard else on.lineno, disc="skip-guard")
    fwd = [n for n in ast.walk(on) if isinstance(n, ast.If) and norm(n.test) == "not is_backward_jump" and any("get_skipped_stages" in norm(s) for s in n.body)]
    rep.check(bool(fwd), "C15.R5", "stages are skipped only on a forward jump", "if not is_backward_jump: for skipped in get_skipped_stages(...)", "src/stabilize/handlers/jump_to_stage/handler.py", fwd[0].lineno if fwd else on.lineno, disc="forward-only")
    t = norm(rs)
    ok = "stage.outputs = {}" in t and "task.status = WorkflowStatus.NOT_STARTED" in t and "stage.status = WorkflowStatus.NOT_STARTED" in t
    rep.check(ok, "C15.R5", "a re-armed stage starts clean", "status NOT_STARTED, outputs emptied, tasks NOT_STARTED", "src/stabilize/handlers/jump_to_stage/reset.py", rs.lineno, disc="clean")

    # ---- R6 --------------------------------------------------------------------------------------
    # per-iteration keys: every `_`-prefixed literal key some handler (other than the jump itself) writes onto a stage's context,
    # minus the reviewed keys that must SURVIVE a re-arm
    SURVIVES = {
        "_buffered_signals": "the mailbox of not yet delivered persistent signals belongs to the stage, not to one iteration (C18)",
        "_inherited_keys": "planner bookkeeping consumed by the next planning (C16.R4)",
        "_mi_instance_count": "multi-instance parent: its instances are separate stages that exist across iterations (not reviewed further)",
        "_on_failure_planned": "set when on-failure stages were planned; those synthetic stages are reset with their parent (not reviewed further)",
    }
    book = set()
    written = {}
    for f_ in prog.all_functions():
        if not f_.module.name.startswith("stabilize.handlers") or f_.module.name.startswith("stabilize.handlers.jump_to_stage"):
            continue
        for n_ in ast.walk(f_.node):
            if isinstance(n_, ast.Assign):
                for t_ in n_.targets:
                    if isinstance(t_, ast.Subscript) and norm(t_.value).endswith(".context") and isinstance(t_.slice, ast.Constant) and isinstance(t_.slice.value, str) and t_.slice.value.startswith("_"):
                        written.setdefault(t_.slice.value, set()).add(f_.qualname)
    for k in sorted(written):
        if k in SURVIVES or k in BUDGET_KEYS:
            continue
        book.add(k)
    for k in ("_join_fired", "_completed_branches", "_activated_branches"):
        ws = [s for s in key_sites(prog, k) if s["op"] == "write" and not s["qual"].startswith("JumpToStageHandler")]
        if ws:
            book.add(k)
    for k, why in SURVIVES.items():
        if k in written:
            rep.notes.append(f"C15.R6: `{k}` is written by {sorted(written[k])} and deliberately survives a re-arm: {why}")
    for k in sorted(book):
        rep.check(k in cleared, "C15.R6", f"re-arm clears {k}", f"written by {sorted(written.get(k, []))[:2] or 'other handlers'} per iteration; reset_stage_for_retry clears {sorted(cleared)}" + ("" if k in cleared else
                  f": `{k}` set in one iteration is still there in the next - e.g. a delivered signal (`_signal_name`) is read again by the re-armed task, which then never suspends: one approval waves every later iteration through"),
                  "src/stabilize/handlers/jump_to_stage/reset.py", rs.lineno, disc=k)
    rep.floor("per-iteration bookkeeping keys", len(book), 3)
    _shared_inherited_rule(ctx, rep)


def _shared_inherited_rule(ctx, rep) -> None:
    """A loop iteration must start from the CURRENT upstream values: the bookkeeping of inherited keys in `_plan_stage` (C16.R4) is
    what lets a re-armed stage drop the previous iteration's inherited values. The rule is decided once, in sa/rules/c16.py; its
    instances are reported here under C15.R7 as well, because breaking it leaves stale state in every iteration from the third on."""
    from ..report import Report
    from . import c16
    rep.rule("C15.R7", "the inherited-keys bookkeeping of _plan_stage holds (instances of C16.R4 / the _plan_stage order rule of C16.R3): a re-armed stage takes every inherited key from the current ancestors, not from its own earlier planning")
    child = Report("C16", rep.tier, rep.repo)
    try:
        c16.run(ctx, child)
    except Exception as e:      # noqa: BLE001 - an analysis error of the shared rule is an analysis error here too
        rep.error(f"C15.R7 (shared with C16): {type(e).__name__}: {e}")
        return
    for err in child.errors:
        rep.error(f"C15.R7 (shared with C16): {err}")
    n = 0
    for inst in child.instances:
        if inst.rule == "C16.R4" or (inst.rule == "C16.R3" and "_plan_stage" in inst.construct):
            n += 1
            if inst.ok:
                rep.ok("C15.R7", inst.construct, inst.detail, inst.file, inst.line)
            else:
                rep.fail("C15.R7", inst.construct, inst.detail + " [loop iterations: the stage keeps an earlier iteration's inherited value]", inst.file, inst.line, disc=inst.key.split(":", 2)[-1] if inst.key.count(":") >= 2 else "")
    rep.floor("inherited-key rule instances shared with C16", n, 3)
