"""C11 - mutex admits one running stage; a deferred choice has exactly one winner.

  R1  mutex / choice claims are acquired inside the claim transaction, before the claiming store_stage; a refused claim rolls it back
  R2  the loser never plans: mutex -> delayed re-queue of StartStage; choice -> mark + CancelStage in one commit
  R3  acquire_claim: INSERT OR IGNORE + rowcount; steal only from a missing/terminal owner by an UPDATE conditioned on the old owner; unique key in DDL and migration
  R4  claims are deleted only for executions in a completed status
  R5  the winner of a deferred choice cancels its siblings after the claim
"""
from __future__ import annotations

import ast

from .. import sqlshape
from ..model import AnalysisError, norm
from .startstage_probe import start_if_ready_paths, timeline


def _calls(node, name=None):
    for n in ast.walk(node):
        if isinstance(n, ast.Call):
            f = n.func
            nm = f.attr if isinstance(f, ast.Attribute) else (f.id if isinstance(f, ast.Name) else "")
            if name is None or nm == name:
                yield n


def run(ctx, rep) -> None:
    prog = ctx.prog
    rep.rule("C11.R1", "claim(mutex:…)/claim(choice:…) occur in the same transaction as store_stage(expected_phase=…) and before it; mutex claim steals only from a terminal owner")
    rep.rule("C11.R2", "after a refused claim no planning side effect is reached; mutex loser re-queues StartStage with a delay, choice loser commits mark + CancelStage(self)")
    rep.rule("C11.R3", "acquire_claim statement shapes; stage_claims PRIMARY KEY (execution_id, claim_key) in the baseline schema and in the migration")
    rep.rule("C11.R4", "DELETE on stage_claims only in the retention sweep, restricted to executions whose status is in [s for s in WorkflowStatus if s.is_complete]")
    rep.rule("C11.R5", "every path that took a choice claim and reaches planning calls _cancel_deferred_choice_siblings after the claim commit")
    rep.undecided += ["the interleavings themselves", "fairness of the mutex re-queue (that a waiting stage eventually runs)"]
    r = start_if_ready_paths(ctx)
    n_claims = 0
    seen: set = set()
    n_block = 0
    for p in r.paths:
        tl = timeline(p)
        # R1
        open_tid = None
        claims_in_txn: list = []
        for i, e in enumerate(tl):
            if e.kind == "txn_begin":
                open_tid = e.get("tid")
                claims_in_txn = []
            elif e.kind == "claim":
                n_claims += 1
                claims_in_txn.append(e)
                key = ("in-txn", e.site)
                if key not in seen:
                    seen.add(key)
                    rep.check(e.get("tid") == open_tid and open_tid is not None, "C11.R1", f"claim {e.get('key')} inside a transaction", "acquire_claim executes on the transaction's connection", e.site[0], e.site[1], disc=f"in-txn:{str(e.get('key'))[:14]}")
                if "mutex:" in str(e.get("key")):
                    k2 = ("steal", e.site)
                    if k2 not in seen:
                        seen.add(k2)
                        rep.check(bool(e.get("steal")), "C11.R1", "mutex claim may be taken over from a terminal owner", "steal_if_owner_terminal=True (otherwise a finished holder blocks the key forever)", e.site[0], e.site[1], disc="steal")
                if "choice:" in str(e.get("key")):
                    k2 = ("nosteal", e.site)
                    if k2 not in seen:
                        seen.add(k2)
                        rep.check(not e.get("steal"), "C11.R1", "choice claim is never taken over", "a decided choice stays decided", e.site[0], e.site[1], disc="nosteal")
            elif e.kind == "store_stage" and e.get("expected") is not None:
                later_claims = [x for x in tl[i + 1:] if x.kind == "claim" and x.get("tid") == e.get("tid")]
                key = ("order", e.site, bool(later_claims))
                if key not in seen:
                    seen.add(key)
                    rep.check(not later_claims, "C11.R1", "claims precede the claiming store_stage", "claim rows are taken before the stage is flipped to RUNNING in the same transaction", e.site[0], e.site[1], disc="order")
        # R2: blocked paths (status revert to NOT_STARTED marks the _ClaimBlockedError branch)
        rbs = [i for i, e in enumerate(tl) if e.kind == "txn_rollback" and any(str(a).startswith("claim") for a in (e.get("attempted") or ())) and "cas_fail" not in (e.get("attempted") or ())
               and "store_stage" not in (e.get("attempted") or ())]
        if rbs and p.outcome == "return":
            i0 = rbs[0]
            rest = tl[i0 + 1:]
            n_block += 1
            plan = [e for e in rest if e.kind == "call" and e.get("name") in ("_plan_stage", "_collect_start_messages")]
            pushes = [e for e in rest if e.kind == "push" or (e.kind == "auto" and e.get("api") == "queue.push")]
            marks = [e for e in rest if e.kind == "mark"]
            kinds = tuple(sorted(str(a) for a in tl[i0].get("attempted")))
            is_mutex = any("mutex" in k for k in kinds) and not any("choice" in k for k in kinds)
            key = ("blocked", kinds, tuple(sorted((str(e.get("cls")), str(e.get("delayed"))) for e in pushes)), bool(plan))
            if key in seen:
                continue
            seen.add(key)
            site = tl[i0].site
            rep.check(not plan, "C11.R2", f"refused claim {kinds} never plans", "planning reached after a refused claim" if plan else "returns before planning", site[0], site[1], disc=f"noplan:{kinds}")
            if pushes:
                cl = {str(e.get("cls")) for e in pushes}
                expected = "CancelStage" if any("choice" in k for k in kinds) else "StartStage"
                rep.check(cl == {expected}, "C11.R2", f"refused {'choice' if expected == 'CancelStage' else 'mutex'} claim takes its own branch",
                          f"a refused {'deferred-choice' if expected == 'CancelStage' else 'mutex'} claim must {'cancel the stage' if expected == 'CancelStage' else 're-queue StartStage (the stage runs after the holder finishes)'}; path pushes {sorted(cl)}",
                          pushes[0].site[0], pushes[0].site[1], disc=f"branch:{expected}:{sorted(cl)}")
                if cl == {"StartStage"}:
                    ok = all(e.get("delayed") in ("yes", "maybe") and e.get("stage_id") == "message.stage_id" for e in pushes)
                    rep.check(ok, "C11.R2", "mutex loser re-queues itself with a delay", f"pushes: {[(e.get('cls'), e.get('delayed'), e.get('stage_id')) for e in pushes]}", pushes[0].site[0], pushes[0].site[1], disc="requeue")
                elif cl == {"CancelStage"}:
                    ok = all(e.kind == "push" and e.get("stage_id") == "message.stage_id" for e in pushes) and bool(marks)
                    rep.check(ok, "C11.R2", "choice loser cancels itself atomically", "TXN{mark, push CancelStage(own stage)}", pushes[0].site[0], pushes[0].site[1], disc="cancel-self")
                else:
                    rep.fail("C11.R2", "refused claim continuation", f"unexpected messages after a refused claim: {sorted(cl)}", pushes[0].site[0], pushes[0].site[1], disc=f"unexpected:{sorted(cl)}")
            else:
                rep.fail("C11.R2", "refused claim continuation", "a refused claim neither re-queues nor cancels the stage: it is stranded NOT_STARTED", site[0], site[1], disc="stranded")
    # a stage that has a mutex key / belongs to a choice group takes the corresponding claim in its claim transaction
    need = {"mutex": "stage.mutex_key", "choice": "stage.deferred_choice_group"}
    counts = {"mutex": 0, "choice": 0}
    missing = {}
    for p in r.paths:
        tl = timeline(p)
        g = {}
        for e in p.trace:
            if e.kind == "guard":
                g[str(e.get("raw"))] = e.get("truth")
        for i, e in enumerate(tl):
            if e.kind == "store_stage" and e.get("expected") is not None:
                claims_here = [str(x.get("key")) for x in tl[:i] if x.kind == "claim" and x.get("tid") == e.get("tid")]
                for kind, gtext in need.items():
                    if g.get(gtext) is True:
                        counts[kind] += 1
                        if not any(kind + ":" in k for k in claims_here):
                            missing[kind] = e.site
    for kind in need:
        rep.check(kind not in missing and counts[kind] > 0, "C11.R1", f"a stage with a {kind} key takes the {kind} claim before it is claimed RUNNING",
                  f"{counts[kind]} claiming path(s) with {need[kind]} set, all with the claim row" if kind not in missing else f"a path claims the stage although {need[kind]} is set and no {kind} claim row was taken: two siblings can both pass the read-then-check fast path",
                  (missing.get(kind) or ("src/stabilize/handlers/start_stage/handler.py", 0))[0], (missing.get(kind) or ("", 0))[1], disc=f"takes:{kind}")
    rep.floor("claim events on paths", n_claims, 10)
    rep.floor("refused-claim paths", n_block, 2)
    # a False result raises inside the body (source shape)
    fi = prog.func("stabilize.handlers.start_stage.handler", "StartStageHandler._start_if_ready")
    # wherever the claim is taken (the handler itself or a helper it calls): every acquire_claim result is tested and a refusal raises
    scope_fns = [f_ for f_ in prog.all_functions() if f_.module.name.startswith("stabilize.handlers.start_stage") and f_.parent is None]
    raising = [n for f_ in scope_fns for n in ast.walk(f_.node) if isinstance(n, ast.If) and ".acquire_claim(" in norm(n.test) and "not " in norm(n.test) and any(isinstance(s, ast.Raise) for s in n.body)]
    n_acq = sum(1 for f_ in scope_fns for n in ast.walk(f_.node) if isinstance(n, ast.Call) and isinstance(n.func, ast.Attribute) and n.func.attr == "acquire_claim")
    rep.check(len(raising) >= 1 and len(raising) == n_acq, "C11.R1", "a refused claim raises inside the transaction body (rollback)", f"{len(raising)} guarded raise(s) for {n_acq} acquire_claim call(s)", fi.file, raising[0].lineno if raising else fi.node.lineno, disc="raise")

    # ---- R3 -------------------------------------------------------------------------------------
    ac = prog.func("stabilize.persistence.sqlite.transaction", "AtomicTransaction.acquire_claim")
    st = [s for s in sqlshape.statements(prog) if s.func.qualname == "AtomicTransaction.acquire_claim"]
    ins = [s for s in st if s.kind == "INSERT"]
    upd = [s for s in st if s.kind == "UPDATE"]
    rep.check(len(ins) >= 1 and all(s.modifier == "OR IGNORE" and s.table == "stage_claims" and {"execution_id", "claim_key", "stage_id"} <= set(s.cols) for s in ins), "C11.R3", "claim insert is INSERT OR IGNORE",
              f"{[(s.modifier, s.cols) for s in ins]}", ac.file, ins[0].line if ins else ac.node.lineno, disc="insert")
    first_check = [n for n in ast.walk(ac.node) if isinstance(n, ast.If) and norm(n.test) == "cursor.rowcount == 1" and any(isinstance(x, ast.Return) and norm(x.value) == "True" for x in n.body)]
    rep.check(bool(first_check), "C11.R3", "insert success decided by rowcount", "if cursor.rowcount == 1: return True", ac.file, first_check[0].lineno if first_check else ac.node.lineno, disc="rowcount")
    own = [n for n in ast.walk(ac.node) if isinstance(n, ast.If) and norm(n.test) == "owner_id == stage_id"]
    rep.check(bool(own), "C11.R3", "re-entrant for the same owner only", "if owner_id == stage_id: return True", ac.file, own[0].lineno if own else ac.node.lineno, disc="owner")
    ok = len(upd) == 1 and any(w.replace(" ", "") == "stage_id=:owner_id" for w in upd[0].where) and any("claim_key" in w for w in upd[0].where) and any("execution_id" in w for w in upd[0].where)
    rep.check(ok, "C11.R3", "steal is conditional on the old owner", f"where: {upd[0].where if upd else None}", ac.file, upd[0].line if upd else ac.node.lineno, disc="steal-where")
    steal_if = [n for n in ast.walk(ac.node) if isinstance(n, ast.If) and norm(n.test) == "steal_if_owner_terminal"]
    ok = bool(steal_if) and bool(upd) and steal_if[0].lineno < upd[0].line <= steal_if[0].end_lineno
    inner = [n for n in ast.walk(steal_if[0]) if isinstance(n, ast.If) and norm(n.test) in ("owner_gone or owner_terminal",)] if steal_if else []
    term = "WorkflowStatus[owner_row[0]].is_complete" in norm(ac.node) and "owner_gone = owner_row is None" in norm(ac.node)
    rep.check(ok and bool(inner) and term, "C11.R3", "steal only under the flag and only from a missing or completed owner", "if steal_if_owner_terminal: ... if owner_gone or owner_terminal: UPDATE", ac.file, steal_if[0].lineno if steal_if else ac.node.lineno, disc="steal-guard")
    last = ac.node.body[-1]
    rep.check(isinstance(last, ast.Return) and norm(last.value) == "False", "C11.R3", "otherwise the claim is refused", "return False", ac.file, last.lineno, disc="refuse")
    steal_ret = [n for n in ast.walk(steal_if[0]) if isinstance(n, ast.Return)] if steal_if else []
    rep.check(bool(steal_ret) and all(norm(x.value) == "cursor.rowcount == 1" for x in steal_ret), "C11.R3", "steal success decided by rowcount", "return cursor.rowcount == 1", ac.file, steal_ret[0].lineno if steal_ret else ac.node.lineno, disc="steal-rowcount")
    commits = [c for c in _calls(ac.node) if isinstance(c.func, ast.Attribute) and c.func.attr in ("commit", "rollback")]
    rep.check(not commits, "C11.R3", "acquire_claim does not commit", "", ac.file, ac.node.lineno, disc="nocommit")
    tabs = [t for t in sqlshape.ddl(prog) if t.name == "stage_claims" and "sqlite" in t.module]
    rep.check(len(tabs) >= 2 and all(t.pk == ("execution_id", "claim_key") for t in tabs), "C11.R3", "stage_claims unique key in schema and migration", f"{[(t.module.split('.')[-1], t.pk) for t in tabs]}", tabs[0].file if tabs else "", tabs[0].line if tabs else 0, disc="pk")

    # ---- R4 -------------------------------------------------------------------------------------
    n = 0
    for s in sqlshape.statements(prog):
        if s.table != "stage_claims" or not sqlshape.is_sqlite(s) or s.kind not in ("DELETE", "UPDATE"):
            continue
        n += 1
        if s.kind == "UPDATE":
            rep.check(s.func.qualname == "AtomicTransaction.acquire_claim", "C11.R4", f"stage_claims updated by {s.func.qualname}", "only the conditional steal", s.file, s.line, disc=f"upd:{s.func.qualname}")
            continue
        rep.check(s.func.qualname == "cleanup_completed_stage_claims", "C11.R4", f"stage_claims deleted by {s.func.qualname}", "only the retention sweep deletes claims", s.file, s.line, disc=f"del:{s.func.qualname}")
        if s.func.qualname == "cleanup_completed_stage_claims":
            w = " ".join(s.where)
            src = norm(s.func.node)
            ok = "execution_id in(select id from pipeline_executions where status in(" in w.replace(" (", "(") and "[s.name for s in WorkflowStatus if s.is_complete]" in src
            rep.check(ok, "C11.R4", "sweep restricted to completed executions", f"where: {s.where}", s.file, s.line, disc="sweep-where")
    rep.floor("DELETE/UPDATE statements on stage_claims", n, 2)

    # ---- R5 -------------------------------------------------------------------------------------
    n5 = 0
    bad = None
    for p in r.paths:
        tl = timeline(p)
        committed_choice = False
        open_claims: dict = {}
        for i, e in enumerate(tl):
            if e.kind == "claim" and "choice:" in str(e.get("key")):
                open_claims[e.get("tid")] = True
            elif e.kind == "txn_commit" and open_claims.get(e.get("tid")):
                committed_choice = i
            elif e.kind == "call" and e.get("name") == "_plan_stage" and committed_choice is not False:
                n5 += 1
                called = any(x.kind == "call" and x.get("name") == "_cancel_deferred_choice_siblings" for x in tl[committed_choice:i])
                if not called:
                    bad = e.site
    rep.check(bad is None and n5 > 0, "C11.R5", "choice winner cancels its siblings before planning", f"{n5} winner paths", (bad or ("src/stabilize/handlers/start_stage/handler.py", 0))[0], (bad or ("", 0))[1], disc="siblings")
    oc = prog.func("stabilize.handlers.start_stage.orchestration", "StartStageOrchestrationMixin._cancel_deferred_choice_siblings")
    t = norm(oc.node)
    ok = "s.deferred_choice_group == stage.deferred_choice_group" in t and "CancelStage(" in t and "if s.id == stage.id: continue" in t.replace("\n", " ")
    rep.check(ok, "C11.R5", "siblings = other stages of the same group", "CancelStage pushed for every other NOT_STARTED stage of the group", oc.file, oc.node.lineno, disc="sibling-filter")

    # ---- R6: the fast path takes only a sibling that STARTED for the winner -------------------------------------------------------
    # `_is_deferred_choice_claimed` = EXISTS sibling of the group: P(status, start_time set). The losers of a decided group end
    # CANCELED and a branch disabled by its own condition ends SKIPPED - neither ever started (no start_time). If P holds for them,
    # the only enabled branch cancels itself (zero winners) and a duplicate StartStage cancels the running winner.
    from ..stagepred import eval_pred, exists_predicate
    rep.rule("C11.R6", "_is_deferred_choice_claimed is true for a sibling exactly when that sibling has started (left NOT_STARTED with a start_time): never for a loser that was CANCELED / a branch that was SKIPPED without starting")
    fc = None
    for f_ in prog.all_functions():
        if f_.qualname.endswith("._is_deferred_choice_claimed") and f_.module.name.startswith("stabilize.handlers.start_stage"):
            fc = f_
    if fc is None:
        raise AnalysisError("_is_deferred_choice_claimed not found")
    body = [s_ for s_ in fc.node.body if not (isinstance(s_, ast.Expr) and isinstance(s_.value, ast.Constant))]
    # leading guard `if not stage.deferred_choice_group: return False` and the read of the stages are not part of the predicate
    core = [s_ for s_ in body if isinstance(s_, (ast.For, ast.Return)) and not (isinstance(s_, ast.Return) and s_ is not body[-1])]
    fake = ast.FunctionDef(name="p", args=fc.node.args, body=core, decorator_list=[], returns=None, type_comment=None, lineno=fc.node.lineno, col_offset=0)
    ep = exists_predicate(fake)
    if ep is None:
        raise AnalysisError("_is_deferred_choice_claimed: not of the form `for s in stages: ... if P(s): return True ... return False`")
    var, disj = ep
    T = ctx.st
    table = {}
    for m in T.members:
        for started in (True, False):
            extra = {f"{var}.id == stage.id": False, f"{var}.deferred_choice_group == stage.deferred_choice_group": True, f"{var}.start_time is None": not started}
            vals = [eval_pred(d, var, m, False, T, extra) for d in disj]
            if any(v is True for v in vals):
                table[(m, started)] = True
            elif any(v is None for v in vals):
                raise AnalysisError(f"_is_deferred_choice_claimed: `{[norm(d) for d, v in zip(disj, vals) if v is None][0]}` is not a predicate over (status, start_time set, same group, not self)")
            else:
                table[(m, started)] = False
    never_started = [m for m in ("CANCELED", "SKIPPED", "NOT_STARTED") if table[(m, False)]]
    rep.check(not never_started, "C11.R6", "a sibling that never started is not taken for the winner", "P(status, no start_time) is false for CANCELED / SKIPPED / NOT_STARTED" if not never_started else
              f"P is true for a sibling in {never_started} without a start_time: the loser of a decided group (CANCELED) or a branch disabled by its own condition (SKIPPED) counts as 'already claimed' - the only enabled branch "
              "cancels itself (zero winners), and a duplicate StartStage for the running winner cancels it", fc.file, fc.node.lineno, disc="claimed-needs-start")
    started_missed = sorted(m for m in T.members if m != "NOT_STARTED" and not table[(m, True)])
    rep.check(not started_missed, "C11.R6", "a sibling that started is recognised as the winner whatever its status is now", "P(status, start_time set) is true for every status but NOT_STARTED" if not started_missed else
              f"P is false for a started sibling that is now {started_missed}: a second branch of the group may start", fc.file, fc.node.lineno, disc="claimed-started")
