"""C07 - concurrent writers never silently overwrite each other.

  R1  every UPDATE of stage_executions / task_executions is a version CAS whose failure raises ConcurrencyError
  R2  no other DML touches the two tables
  R3  what a retried closure stores is read inside that closure (fresh on every attempt)
  R4  no except clause swallows ConcurrencyError (closed list of reviewed exceptions)
  R5  a rolled-back transaction restores the in-memory versions it bumped
"""
from __future__ import annotations

import ast
import re

from .. import sqlshape
from ..model import AnalysisError, norm
from ..paths import all_paths
from ..seqrules import path_infos

STAGE_T, TASK_T = "stage_executions", "task_executions"

# R4: clauses that catch ConcurrencyError without re-raising, each with its reviewed reason
SWALLOW_OK = {
    ("StartStageHandler._start_if_ready", "ConcurrencyError", 0): "claim loser: another worker owns the stage; doing nothing is the required behaviour (C04)",
    ("StartStageHandler._start_if_ready", "ConcurrencyError", 1): "post-claim plan conflict: nothing is overwritten (the transaction rolled back); the wedge it causes is finding F9 under C05/C18",
    ("WorkflowRecovery._recover_workflow", "Exception", 0): "recovery only pushes messages; a failed push is reported as a failed/partial result, state is untouched",
    ("WorkflowRecovery._recover_workflow", "Exception", 1): "recovery only pushes messages; a failed push is reported as a failed/partial result, state is untouched",
    ("WorkflowRecovery.recover_pending_workflows", "Exception", 0): "per-workflow recovery failure is recorded in the result list; nothing was written",
    ("StabilizeHandler.run_stage_finalizers", "Exception", 0): "finalizers are best effort and never write through the store",
    ("CompleteStageHandler._invoke_task_cleanup", "Exception", 0): "task cleanup hooks are best effort and never write through the store",
    ("Orchestrator.start", "Exception", 0): "client-side submit: storing an already stored workflow is expected to fail; no stage read-modify-write is involved",
    ("handle.on_task", "Exception", 0): "RunTask: an exception while executing / recording a result is classified by handle_exception - ConcurrencyError is transient and the task is re-queued, not dropped",
    ("QueueProcessor.run_recovery", "Exception", 0): "a failed recovery sweep is logged; it only pushes messages",
    ("_mark_terminal.do_mark_terminal", "Exception", 0): "finalizer execution only; the store write follows outside this try",
}


def _calls(node, name=None):
    for n in ast.walk(node):
        if isinstance(n, ast.Call):
            f = n.func
            nm = f.attr if isinstance(f, ast.Attribute) else (f.id if isinstance(f, ast.Name) else "")
            if name is None or nm == name:
                yield n


def _raises_all_paths(stmts, exc: str) -> bool:
    """every path through stmts ends in `raise exc(...)`"""
    if not stmts:
        return False
    last = stmts[-1]
    if isinstance(last, ast.Raise) and last.exc is not None and exc in norm(last.exc):
        return True
    if isinstance(last, ast.If):
        return _raises_all_paths(last.body, exc) and (_raises_all_paths(last.orelse, exc) if last.orelse else False) or \
            (_raises_all_paths(last.body, exc) and False)
    for i, s in enumerate(stmts):
        if isinstance(s, ast.If) and _raises_all_paths(s.body, exc) and not s.orelse:
            return _raises_all_paths(stmts[i + 1:], exc)
    return False


def cas_update_rule(rep, rid, s, obj: str, prog) -> None:
    """One UPDATE statement: id + version conjuncts, version bump, bound to obj.version, rowcount check raising ConcurrencyError."""
    fn = s.func.node
    name = f"{s.func.qualname}:{s.table}:" + ("phase" if any("expected_phase" in w for w in s.where) else "plain")
    w = s.where
    ph = ":" if sqlshape.is_sqlite(s) else "%("
    has_id = any(c.startswith("id = ") for c in w)
    has_ver = any(c.startswith("version = ") and ("version" in c.split("=", 1)[1]) for c in w)
    rep.check(has_id and has_ver, rid, f"{name} where", f"WHERE must contain id and version conjuncts: {w}", s.file, s.line, disc=f"{name}:where")
    rep.check(s.sets.get("version") == "version+1" or s.sets.get("version") == "version + 1", rid, f"{name} bump", f"SET version = version + 1 (got {s.sets.get('version')})", s.file, s.line, disc=f"{name}:bump")
    rep.check(s.params.get("version") == f"{obj}.version" and s.params.get("id") == f"{obj}.id", rid, f"{name} binding", f"version/id bound to {obj}.version / {obj}.id (got {s.params.get('version')}, {s.params.get('id')})",
              s.file, s.line, disc=f"{name}:bind")
    # result variable
    var = None
    for n in ast.walk(fn):
        if isinstance(n, ast.Assign) and n.value is s.node and isinstance(n.targets[0], ast.Name):
            var = n.targets[0].id
    checks = [n for n in ast.walk(fn) if isinstance(n, ast.If) and var and norm(n.test) in (f"{var}.rowcount == 0", f"{var}.rowcount < 1", f"not {var}.rowcount") and n.lineno > s.line]
    ok = bool(checks)
    detail = "rowcount == 0 check missing"
    if not ok and var is None:
        # RETURNING idiom (Postgres sibling): zero rows <=> the fetch after the statement yields nothing
        fetched = [n for n in ast.walk(fn) if isinstance(n, ast.Assign) and isinstance(n.targets[0], ast.Name) and isinstance(n.value, ast.Call) and norm(n.value.func).endswith(".fetchone") and n.lineno > s.line]
        if fetched and "RETURNING" in s.text.upper():
            rv = fetched[0].targets[0].id
            falsy = None
            for i_ in ast.walk(fn):
                if isinstance(i_, ast.If) and i_.lineno > fetched[0].lineno:
                    t_, neg = i_.test, False
                    while isinstance(t_, ast.UnaryOp) and isinstance(t_.op, ast.Not):
                        t_, neg = t_.operand, not neg
                    if norm(t_) in (rv, f"{rv} is not None"):
                        falsy = i_.body if neg else i_.orelse
                    elif norm(t_) == f"{rv} is None":
                        falsy = i_.orelse if neg else i_.body
                    if falsy is not None:
                        checks = [i_]
                        break
            ok = falsy is not None and _raises_all_paths(falsy, "ConcurrencyError")
            detail = "no returned row -> raise ConcurrencyError on every path" if ok else "the no-row branch of the RETURNING fetch does not raise ConcurrencyError on every path"
            rep.check(ok, rid, f"{name} conflict check", detail, s.file, checks[0].lineno if checks else s.line, disc=f"{name}:check")
            return
    if ok:
        c = checks[0]
        if obj == "stage":
            ok = _raises_all_paths(c.body, "ConcurrencyError")
            detail = "rowcount == 0 -> raise ConcurrencyError on every path" if ok else "the zero-row branch does not raise ConcurrencyError on every path"
            bumps = [n for n in ast.walk(fn) if isinstance(n, ast.AugAssign) and norm(n.target) == f"{obj}.version"]
            early = [b for b in bumps if b.lineno < c.end_lineno]
            if early:
                ok = False
                detail = "in-memory version bumped before the conflict check"
            elif ok and not any(isinstance(b.op, ast.Add) and isinstance(b.value, ast.Constant) and b.value.value == 1 for b in bumps):
                ok = False
                detail = f"the in-memory token is not advanced (`{obj}.version += 1`) after the successful CAS: the object's next save fails the version check, or - if the token is re-read separately - can adopt another writer's version"
        else:
            # task: zero rows -> INSERT fallback; IntegrityError -> ConcurrencyError
            tries = [t for t in ast.walk(c) if isinstance(t, ast.Try)]
            conv = any(any("IntegrityError" in norm(h.type) for h in t.handlers if h.type is not None) and any(_raises_all_paths(h.body, "ConcurrencyError") for h in t.handlers) for t in tries)
            ok = conv
            detail = "zero rows -> INSERT; IntegrityError converted to ConcurrencyError" if ok else "INSERT fallback does not convert IntegrityError to ConcurrencyError"
            bumps = [n for n in ast.walk(fn) if isinstance(n, ast.AugAssign) and norm(n.target) == f"{obj}.version"]
            if any(b in list(ast.walk(ast.Module(body=c.body, type_ignores=[]))) for b in bumps):
                ok = False
                detail = "version bumped on the conflict branch"
    rep.check(ok, rid, f"{name} conflict check", detail, s.file, checks[0].lineno if checks else s.line, disc=f"{name}:check")


def _has_call_site(prog, fi) -> bool:
    """a module-level function is live when some module that can see its name calls it"""
    name = fi.qualname
    if "." in name:
        return True
    for m in prog.modules.values():
        def _abs(n) -> str:
            if not n.level:
                return n.module or ""
            base = m.name.split(".")[: -n.level] if not getattr(m, "is_package", False) else m.name.split(".")[: len(m.name.split(".")) - n.level + 1]
            return ".".join(base + ([n.module] if n.module else []))
        visible = m.name == fi.module.name or any(isinstance(n, ast.ImportFrom) and _abs(n) == fi.module.name and any(a.name == name for a in n.names) for n in ast.walk(m.tree))
        if not visible:
            continue
        for n in ast.walk(m.tree):
            if isinstance(n, ast.Call) and isinstance(n.func, ast.Name) and n.func.id == name:
                return True
    return False


def insert_conflict_rule(rep, rid: str, s, prog) -> None:
    low = " ".join(s.text.lower().split())
    name = s.func.qualname
    mod = (s.modifier or "").upper()
    oc = re.search(r"\bon conflict\b(.*)$", low, flags=re.S)
    verdict, detail = True, "plain INSERT: a key conflict raises (IntegrityError) instead of overwriting the row"
    if s.kind == "REPLACE" or "REPLACE" in mod:
        verdict, detail = False, "INSERT OR REPLACE overwrites an existing row without the version check: a stale writer's copy silently replaces the row and its version restarts"
    elif mod and "IGNORE" not in mod and "ABORT" not in mod and "FAIL" not in mod and "ROLLBACK" not in mod:
        verdict, detail = False, f"conflict modifier {mod} on a versioned table"
    elif oc and "do update" in oc.group(1):
        tail = oc.group(1)
        w = re.search(r"\bwhere\b(.*?)(?=\breturning\b|$)", tail, flags=re.S)
        guarded = bool(w) and re.search(r"\bversion\s*=\s*excluded\.version\b", w.group(1)) is not None
        bump = re.search(r"\bversion\s*=\s*(?:\w+\.)?version\s*\+\s*1\b", tail) is not None
        if guarded and bump:
            detail = "ON CONFLICT DO UPDATE guarded by `version = EXCLUDED.version`, version + 1"
        elif not _has_call_site(prog, s.func):
            detail = "unguarded ON CONFLICT DO UPDATE, but the function has no call site (dead code)"
        else:
            verdict, detail = False, "ON CONFLICT DO UPDATE without `WHERE <table>.version = EXCLUDED.version` / version + 1: the conflicting row is overwritten unconditionally"
    rep.check(verdict, rid, f"{name} INSERT {s.table} never overwrites unchecked", detail, s.file, s.line, disc=f"{name}:insert-conflict")


def run(ctx, rep) -> None:
    prog = ctx.prog
    thorough = rep.tier == "thorough"
    rep.rule("C07.R1", "every UPDATE on stage_executions/task_executions: WHERE id AND version = :version bound to obj.version, SET version = version + 1, zero rows -> ConcurrencyError before the in-memory bump")
    rep.rule("C07.R2", "DML on the two tables only in insert_stage / store_stage / upsert_task / remove_stage")
    rep.rule("C07.R3", "objects stored inside a retry_on_concurrency_error closure are read from the store inside that closure")
    rep.rule("C07.R4", "every except clause that can catch ConcurrencyError around a store write re-raises (directly or via the is_transient idiom) or is in the reviewed list")
    rep.rule("C07.R5", "rollback restores in-memory versions: store_stage records (obj, version) before bumping; the context manager calls rollback_versions on failure")
    rep.undecided += ["the statement-level interleavings themselves (argument: CAS + SQLite writer serialisation)", "that the retried body re-applies the intended modification"]
    rep.assumptions += ["SQLite serialises writers: the conditional UPDATE is the linearisation point"]
    stmts = sqlshape.statements(prog)
    core = [s for s in stmts if s.table in (STAGE_T, TASK_T) and (thorough or sqlshape.is_sqlite(s))]
    ups = [s for s in core if s.kind == "UPDATE"]
    for s in ups:
        cas_update_rule(rep, "C07.R1", s, "stage" if s.table == STAGE_T else "task", prog)
    # an INSERT that resolves a key conflict by overwriting (OR REPLACE / REPLACE INTO / ON CONFLICT DO UPDATE without the
    # version conjunct) writes the row without the version check: the stale writer wins silently and the token restarts
    ins = [s for s in core if s.kind in ("INSERT", "REPLACE")]
    for s in ins:
        insert_conflict_rule(rep, "C07.R1", s, prog)
    rep.floor("INSERT statements on stage/task tables", len([s for s in ins if sqlshape.is_sqlite(s)]), 2)
    rep.floor("UPDATE statements on stage/task tables", len([s for s in ups if sqlshape.is_sqlite(s)]), 5)
    rep.count(core_statements=len(core), sql_statements=len(stmts))
    allowed = {
        ("INSERT", STAGE_T): {"insert_stage"}, ("INSERT", TASK_T): {"upsert_task", "upsert_tasks_bulk"},
        ("UPDATE", STAGE_T): {"SqliteStageOpsMixin.store_stage", "AtomicTransaction.store_stage", "PostgresWorkflowStore._store_stage_impl"},
        ("UPDATE", TASK_T): {"upsert_task", "upsert_tasks_bulk"},
        ("DELETE", STAGE_T): {"SqliteStageOpsMixin.remove_stage", "PostgresWorkflowStore.remove_stage"}, ("DELETE", TASK_T): set(),
    }
    for s in core:
        if s.kind in ("INSERT", "UPDATE", "DELETE"):
            rep.check(s.func.qualname in allowed.get((s.kind, s.table), set()), "C07.R2", f"{s.kind} {s.table} in {s.func.qualname}", "closed set of writers of the two tables", s.file, s.line, disc=f"{s.kind}:{s.func.qualname}")
    # also statements that reach the tables through dynamic text
    dyn = [s for s in stmts if s.kind in ("UPDATE", "DELETE", "INSERT") and s.table not in (STAGE_T, TASK_T) and (STAGE_T in s.text or TASK_T in s.text) and sqlshape.is_sqlite(s)]
    for s in dyn:
        rep.fail("C07.R2", f"{s.kind} mentioning a core table in {s.func.qualname}", s.text[:80], s.file, s.line, disc=s.func.qualname)

    # ---- R3 T-FRESH on path data ---------------------------------------------------------------
    res = all_paths(ctx)
    infos = [p for p in path_infos(res) if p.message]
    n_sites = 0
    seen: set = set()
    for pi in infos:
        for e in pi.trace:
            if not (e.kind == "store_stage" or (e.kind == "auto" and e.get("api") == "store.store_stage")):
                continue
            parts = str(e.get("ctx")).split(">")
            idx = [i for i, p in enumerate(parts) if p.split(".")[-1] == "retry_on_concurrency_error"]
            if not idx:
                continue
            key = (pi.handler, e.site, str(e.get("ctx")))
            if key in seen:
                continue
            seen.add(key)
            n_sites += 1
            prefix = parts[: idx[-1] + 1]
            created = str(e.get("fresh_ctx") or "")
            fresh = created.split(">")[: len(prefix)] == prefix if created and created != "<param>" else False
            rep.check(fresh, "C07.R3", f"{pi.handler}:{parts[-1]} stores a fresh read", f"stored object read at [{created or 'outside any tracked read'}]; retried closure at [{'>'.join(prefix)}]",
                      e.site[0], e.site[1], disc=f"{parts[-1]}:{e.site[1]}")
    rep.floor("store sites inside retried closures", n_sites, 15)

    _r3_dataflow(ctx, rep)
    snapshot_writeback_rule(ctx, rep, "C07.R3")
    token_integrity_rule(ctx, rep, "C07.R1")
    decision_read_rule(ctx, rep, "C07.R3", ("stabilize.handlers", "stabilize.recovery", "stabilize.orchestrator"))

    # ---- R4 no swallow ------------------------------------------------------------------------------
    _r4(ctx, rep)

    # ---- R5 ---------------------------------------------------------------------------------------------
    at = prog.cls("stabilize.persistence.sqlite.transaction", "AtomicTransaction")
    ss = at.methods["store_stage"].node
    rec = [n for n in ast.walk(ss) if isinstance(n, ast.Expr) and "self._staged_objects.append((stage, stage.version))" in norm(n)]
    bump = [n for n in ast.walk(ss) if isinstance(n, ast.AugAssign) and norm(n.target) == "stage.version"]
    rep.check(bool(rec) and bool(bump) and rec[0].lineno < bump[0].lineno, "C07.R5", "store_stage records the version before bumping", "append((stage, stage.version)) precedes stage.version += 1", at.methods["store_stage"].file, ss.lineno, disc="record")
    trec = [n for n in ast.walk(ss) if isinstance(n, ast.Expr) and "self._staged_objects.append((task, task.version))" in norm(n)]
    ups_ = [n for n in ast.walk(ss) if isinstance(n, ast.Expr) and norm(n).startswith("upsert_task(")]
    rep.check(bool(trec) and bool(ups_) and trec[0].lineno < ups_[0].lineno, "C07.R5", "task versions recorded before upsert", "append((task, task.version)) precedes upsert_task", at.methods["store_stage"].file, ss.lineno, disc="record-task")
    rb = at.methods["rollback_versions"].node
    restore = any(isinstance(n, ast.Assign) and norm(n.targets[0]).endswith(".version") and norm(n.value) == "original_version" for n in ast.walk(rb))
    rep.check(restore, "C07.R5", "rollback_versions restores every recorded version", "for obj, original_version in staged: obj.version = original_version", at.methods["rollback_versions"].file, rb.lineno, disc="restore")
    tx = prog.func("stabilize.persistence.sqlite.store.store", "SqliteWorkflowStore.transaction")
    called = any(any(c for c in _calls(h, "rollback_versions")) for t in ast.walk(tx.node) if isinstance(t, ast.Try) for h in t.handlers)
    rep.check(called, "C07.R5", "context manager restores versions on rollback", "except: conn.rollback(); txn.rollback_versions(); raise", tx.file, tx.node.lineno, disc="cm")


GENERIC = {"execute", "get", "append", "run", "start", "stop", "close", "put", "set", "add", "update", "pop", "handle", "process", "submit", "push", "call"}
SCOPE = ("stabilize.handlers", "stabilize.persistence.transaction", "stabilize.persistence.sqlite", "stabilize.recovery", "stabilize.queue.processor", "stabilize.orchestrator")


def _in_scope(f) -> bool:
    return any(f.module.name == p or f.module.name.startswith(p + ".") for p in SCOPE)


def token_integrity_rule(ctx, rep, rid: str) -> None:
    """The optimistic-lock token is only ever advanced by the persistence layer after a successful CAS, and a reader takes
    the token BEFORE the dependent rows it protects (so a stale snapshot can only carry a stale token)."""
    prog = ctx.prog
    n = 0
    for f in prog.all_functions():
        if f.module.name.startswith(("stabilize.cli", "stabilize.monitor")):
            continue
        for a in ast.walk(f.node):
            tg = a.targets if isinstance(a, ast.Assign) else ([a.target] if isinstance(a, (ast.AugAssign, ast.AnnAssign)) else [])
            for t in tg:
                if isinstance(t, ast.Attribute) and t.attr == "version" and not (isinstance(t.value, ast.Name) and t.value.id == "self"):
                    n += 1
                    ok = f.module.name.startswith("stabilize.persistence.")
                    rep.check(ok, rid, f"version token written in {f.module.name}:{f.qualname}", "only the persistence layer advances / restores the token" if ok else
                              "a handler overwrites the optimistic-lock token of an in-memory stage: the next store passes the version check without the writer having seen the concurrent change (a laundered conflict)",
                              f.file, a.lineno, disc=f"{f.module.name}:{f.qualname}")
                    if ok and isinstance(a, ast.Assign) and f.qualname.split(".")[-1] != "rollback_versions":
                        # inside the persistence layer the token advances by `+= 1` right after the CAS, or comes out of the very
                        # UPDATE (RETURNING). A value obtained by a SEPARATE read can already be another writer's version.
                        src_ok = False
                        why = f"`{norm(a)}`"
                        names = {x.id for x in ast.walk(a.value) if isinstance(x, ast.Name)}
                        stm = [s_ for s_ in sqlshape.statements(prog) if s_.func is f or s_.func.qualname == f.qualname and s_.func.module is f.module]
                        for d_ in ast.walk(f.node):
                            if isinstance(d_, ast.Assign) and isinstance(d_.targets[0], ast.Name) and d_.targets[0].id in names and d_.lineno <= a.lineno:
                                # the fetch behind this local: which statement produced it?
                                before = [s_ for s_ in stm if s_.line <= (d_.end_lineno or d_.lineno)]
                                if before:
                                    last = max(before, key=lambda s_: s_.line)
                                    if last.kind in ("UPDATE", "INSERT") and "RETURNING" in last.text.upper():
                                        src_ok = True
                                    why = f"`{norm(a)}` takes the value of a {last.kind} at line {last.line}"
                        if isinstance(a.value, ast.Attribute) or (isinstance(a.value, ast.Name) and not names - {"new_version"} and src_ok):
                            pass
                        rep.check(src_ok, rid, f"{f.qualname}: the token is advanced by the CAS itself", "version comes from the RETURNING clause of the write itself" if src_ok else
                                  why + ": the in-memory token is set from a separate read after the write - if another writer commits in between, this object is stamped with that writer's version without having its data, and its next save silently overwrites it",
                                  f.file, a.lineno, disc=f"token-source:{f.qualname}")
    rep.floor("writes of a .version token", n, 4)
    rs = prog.func("stabilize.persistence.sqlite.store.stage_ops", "SqliteStageOpsMixin.retrieve_stage")
    sel = [s_ for s_ in sqlshape.statements(prog) if s_.func.qualname == "SqliteStageOpsMixin.retrieve_stage" and s_.kind == "SELECT"]
    stage_sel = [s_ for s_ in sel if s_.table == "stage_executions"]
    task_sel = [s_ for s_ in sel if s_.table == "task_executions"]
    ok = bool(stage_sel) and bool(task_sel) and min(s_.line for s_ in stage_sel) < min(s_.line for s_ in task_sel)
    # helper calls that read dependent stages must also come after the stage row
    first_stage = min((s_.line for s_ in stage_sel), default=0)
    early = [c for c in ast.walk(rs.node) if isinstance(c, ast.Call) and isinstance(c.func, ast.Attribute) and c.func.attr in ("get_upstream_stages", "get_synthetic_stages") and c.lineno < first_stage]
    rep.check(ok and not early, rid, "retrieve_stage reads the versioned stage row before its tasks", "SELECT stage_executions (version) precedes SELECT task_executions: an old task snapshot can never be paired with a newer version"
              if ok else "the task rows are read before the stage row: a reader can pair an OLD task list with the CURRENT version and pass the version check with stale data", rs.file, (task_sel[0].line if task_sel else rs.node.lineno), disc="read-order")


def _whole_ctx_src(v, carriers: dict | None = None):
    """source stage-context expression when `v` evaluates to (a copy / superset of) some object's WHOLE context, else None"""
    t = norm(v)
    if isinstance(v, ast.Attribute) and v.attr == "context":
        return t
    if isinstance(v, ast.Call) and norm(v.func) in ("dict", "copy.copy", "copy.deepcopy", "deepcopy") and len(v.args) == 1:
        return _whole_ctx_src(v.args[0], carriers)
    if isinstance(v, ast.Call) and isinstance(v.func, ast.Attribute) and v.func.attr == "copy" and not v.args:
        return _whole_ctx_src(v.func.value, carriers)
    if isinstance(v, ast.Dict):
        for k, val in zip(v.keys, v.values):
            if k is None:
                r = _whole_ctx_src(val, carriers)
                if r:
                    return r
        return None
    if isinstance(v, ast.BinOp) and isinstance(v.op, ast.BitOr):
        return _whole_ctx_src(v.left, carriers) or _whole_ctx_src(v.right, carriers)
    if isinstance(v, ast.Name) and carriers and v.id in carriers:
        return carriers[v.id][0]
    return None


_STAGE_SOURCES = ("retrieve_stage", "stage_by_id", "stage_by_ref_id", "get_stage", "parent", "first_before_stages", "first_after_stages")


def _is_stage_expr(f, src: str) -> bool:
    """is `<base>.context` the context of a StageExecution?  Decided from the annotation of the base name (parameter of the
    function or an enclosing one), else from its definition (read from the store / loop over `.stages`), else from its name."""
    base = src[: -len(".context")]
    if not base.replace("_", "").isalnum():
        return "stage" in base.lower()
    fn = f
    while fn is not None:
        a = fn.node.args
        for p_ in list(a.posonlyargs) + list(a.args) + list(a.kwonlyargs):
            if p_.arg == base and p_.annotation is not None:
                return "StageExecution" in norm(p_.annotation)
        fn = fn.parent
    for n in ast.walk(f.node):
        if isinstance(n, ast.AnnAssign) and isinstance(n.target, ast.Name) and n.target.id == base:
            return "StageExecution" in norm(n.annotation)
        if isinstance(n, ast.Assign) and any(isinstance(t, ast.Name) and t.id == base for t in n.targets) and isinstance(n.value, ast.Call):
            if norm(n.value.func).split(".")[-1] in _STAGE_SOURCES:
                return True
        if isinstance(n, (ast.For, ast.comprehension)) and isinstance(n.target, ast.Name) and n.target.id == base and "stages" in norm(n.iter):
            return True
    return "stage" in base.lower() or base in ("s", "target", "upstream", "child", "sibling")


def snapshot_writeback_rule(ctx, rep, rid: str) -> None:
    """No WHOLE-context snapshot of a stage is written back onto a stage object: `snap = dict(X.context)` ... `Y.context.update(snap)`
    (also through a default argument of a deferred mutation) overwrites every key another writer changed since X was read -
    the version CAS cannot object because Y is fresh. Only the keys the step itself sets may be written."""
    prog = ctx.prog
    n = 0
    for f in prog.all_functions():
        if not f.module.name.startswith("stabilize.handlers"):
            continue
        if f.parent is not None:
            continue            # nested functions are scanned as part of their outermost function
        snaps: dict = {}
        for a in ast.walk(f.node):
            if isinstance(a, ast.Assign) and len(a.targets) == 1 and isinstance(a.targets[0], ast.Name):
                src = _whole_ctx_src(a.value) if not isinstance(a.value, ast.Attribute) else None
                if src:
                    snaps[a.targets[0].id] = (src, a.lineno)
        # names that carry a snapshot into a deferred mutation: parameters whose default is a snapshot variable
        carriers = dict(snaps)
        for g in ast.walk(f.node):
            if isinstance(g, (ast.FunctionDef, ast.Lambda)) and g is not f.node:
                args = g.args
                pos = args.args
                for p_, d_ in zip(pos[len(pos) - len(args.defaults):], args.defaults):
                    if isinstance(d_, ast.Name) and d_.id in snaps:
                        carriers[p_.arg] = snaps[d_.id]
                for p_, d_ in zip(args.kwonlyargs, args.kw_defaults):
                    if isinstance(d_, ast.Name) and d_.id in snaps:
                        carriers[p_.arg] = snaps[d_.id]
        for c in ast.walk(f.node):
            if isinstance(c, ast.Call) and isinstance(c.func, ast.Attribute) and c.func.attr == "update" and norm(c.func.value).endswith(".context") and c.args:
                src = _whole_ctx_src(c.args[0], carriers)
                tgt = norm(c.func.value)
                if src is None or src == tgt or not _is_stage_expr(f, src):
                    continue
                n += 1
                line = carriers[c.args[0].id][1] if isinstance(c.args[0], ast.Name) and c.args[0].id in carriers else c.lineno
                rep.fail(rid, f"{f.qualname}: whole-context snapshot written back", f"`{norm(c.args[0])}` is (a copy of) the whole `{src}` (line {line}) - every key of that earlier read is written onto `{tgt}`: whatever another handler stored on the stage in between "
                         "(a buffered persistent signal, join bookkeeping) is overwritten, and keys the re-arm has just cleared come back; the version check passes because the target object is fresh",
                         f.file, c.lineno, disc=f"snapshot:{f.qualname}:{src}")
            tgts = c.targets if isinstance(c, ast.Assign) else [c.target] if isinstance(c, ast.AugAssign) else []
            if tgts and any(norm(t_).endswith(".context") for t_ in tgts):
                src = _whole_ctx_src(c.value, carriers)
                if src is not None and src != norm(tgts[0]) and _is_stage_expr(f, src):
                    n += 1
                    rep.fail(rid, f"{f.qualname}: context replaced by a snapshot of another read", f"`{norm(c)}` takes the whole `{src}`", f.file, c.lineno, disc=f"snapshot-assign:{f.qualname}")
    rep.count(snapshot_writebacks=n)
    if not n:
        rep.ok(rid, "no whole-context snapshot is written back onto a stage", "scanned stabilize.handlers for dict(X.context) / X.context.copy() flowing into Y.context.update(...)", "src/stabilize/handlers", 0)


def _r3_dataflow(ctx, rep) -> None:
    """Read-modify-write on a freshly re-read stage must READ from that fresh object too: a value computed from another
    (older) copy of the same stage and stored under the fresh version overwrites what other writers committed in between."""
    prog = ctx.prog
    n = 0
    for f in prog.all_functions():
        if not f.module.name.startswith("stabilize.handlers"):
            continue
        fresh_vars: dict[str, ast.AST] = {}
        for a in ast.walk(f.node):
            if isinstance(a, ast.Assign) and isinstance(a.targets[0], ast.Name) and isinstance(a.value, ast.Call) and norm(a.value.func).endswith(("retrieve_stage",)):
                fresh_vars[a.targets[0].id] = a
        if not fresh_vars:
            continue
        defs: dict[str, list] = {}
        for a in ast.walk(f.node):
            if isinstance(a, ast.Assign) and isinstance(a.targets[0], ast.Name):
                defs.setdefault(a.targets[0].id, []).append(a)
        for a in ast.walk(f.node):
            if not (isinstance(a, ast.Assign) and isinstance(a.targets[0], ast.Subscript)):
                continue
            tgt = a.targets[0]
            if not (isinstance(tgt.value, ast.Attribute) and tgt.value.attr in ("context", "outputs") and isinstance(tgt.value.value, ast.Name) and tgt.value.value.id in fresh_vars):
                continue
            fv = tgt.value.value.id
            key = norm(tgt.slice)
            # where does the written value come from?
            srcs = [a.value]
            if isinstance(a.value, ast.Name):
                cands = [d for d in defs.get(a.value.id, []) if d.lineno < a.lineno]
                # nearest preceding definition in the same function
                if cands:
                    srcs = [max(cands, key=lambda d: d.lineno).value]
            for sv in srcs:
                reads = [x for x in ast.walk(sv) if isinstance(x, ast.Call) and isinstance(x.func, ast.Attribute) and x.func.attr == "get" and isinstance(x.func.value, ast.Attribute)
                         and x.func.value.attr in ("context", "outputs") and x.args and norm(x.args[0]) == key]
                reads += [x for x in ast.walk(sv) if isinstance(x, ast.Subscript) and isinstance(x.value, ast.Attribute) and x.value.attr in ("context", "outputs") and norm(x.slice) == key]
                for r_ in reads:
                    base = r_.func.value.value if isinstance(r_, ast.Call) else r_.value.value
                    n += 1
                    ok = isinstance(base, ast.Name) and base.id == fv
                    rep.check(ok, "C07.R3", f"{f.qualname}: {fv}.{tgt.value.attr}[{key}] is computed from {fv}",
                              f"read-modify-write of {key}: read from `{norm(base)}`, written to the freshly read `{fv}`" + ("" if ok else " - the stale copy's value overwrites commits made since it was read"),
                              f.file, a.lineno, disc=f"{f.qualname}:{key}:{norm(base)}")
    rep.floor("read-modify-write sites on freshly read stages", n, 2)
    # sibling agreement: the DISCRIMINATOR and N_OF_M join-tracking branches are the same algorithm
    sl = prog.func("stabilize.handlers.complete_stage.split_logic", "CompleteStagesSplitMixin._update_join_tracking")
    chains = [x for x in ast.walk(sl.node) if isinstance(x, ast.If) and "downstream.join_type == JoinType.DISCRIMINATOR" in norm(x.test)]
    if chains and len(chains[0].orelse) == 1 and isinstance(chains[0].orelse[0], ast.If):
        a_, b_ = chains[0].body, chains[0].orelse[0].body
        ta = " ".join(norm(x) for x in a_)
        tb = " ".join(norm(x) for x in b_)
        rep.check(ta == tb, "C07.R3", "join-tracking siblings agree", "the DISCRIMINATOR and N_OF_M branches of _update_join_tracking are the same read-modify-write" if ta == tb else "the two sibling branches differ: one of them deviates from the fresh read-modify-write protocol",
                  sl.file, chains[0].orelse[0].lineno, disc="siblings")


def _may_cas(prog) -> set:
    """Function names that may raise ConcurrencyError (transitive, name-based call graph)."""
    by_name: dict[str, list] = {}
    nodes = []

    def add(fi):
        nodes.append(fi)
        by_name.setdefault(fi.name, []).append(fi)

    for f in prog.all_functions():
        add(f)
    seeds = {"store_stage", "upsert_task", "add_stage", "transaction", "execute_atomic", "execute_atomic_critical"}
    may = set(seeds)
    for f in nodes:
        if any(isinstance(n, ast.Raise) and n.exc is not None and "ConcurrencyError" in norm(n.exc) for n in ast.walk(f.node)):
            may.add(f.name)
    changed = True
    while changed:
        changed = False
        for f in nodes:
            if f.name in may:
                continue
            for c in _calls(f.node):
                nm = c.func.attr if isinstance(c.func, ast.Attribute) else (c.func.id if isinstance(c.func, ast.Name) else "")
                if nm in may and nm not in GENERIC and _in_scope(f):
                    may.add(f.name)
                    changed = True
                    break
    return may


def _r4(ctx, rep) -> None:
    prog = ctx.prog
    may = _may_cas(prog)
    catchers = {"ConcurrencyError", "TransientError", "StabilizeError", "StabilizeBaseException", "Exception", "BaseException"}
    scope = ("stabilize.handlers", "stabilize.persistence.transaction", "stabilize.persistence.sqlite", "stabilize.queue.processor", "stabilize.recovery", "stabilize.orchestrator")
    n = 0
    for mod in prog.modules.values():
        if not any(mod.name == p or mod.name.startswith(p + ".") for p in scope):
            continue
        funcs = list(mod.functions.values()) + [m for c in mod.classes.values() for m in c.methods.values()]
        for f in funcs:
            # qualified name of the innermost enclosing def for reporting
            per_qual: dict[tuple, int] = {}
            tries = sorted([x for x in ast.walk(f.node) if isinstance(x, ast.Try)], key=lambda x: x.lineno)
            for t in tries:
                body_calls = [c for s_ in t.body for c in _calls(s_)]
                names = {(c.func.attr if isinstance(c.func, ast.Attribute) else getattr(c.func, "id", "")) for c in body_calls}
                raising = bool(names & may) or any(isinstance(c.func, ast.Name) and c.func.id in ("func", "block", "with_retry", "_execute", "mutate", "attempt") for c in body_calls)
                if not raising:
                    continue
                qual = _enclosing_qual(f, t)
                for h in t.handlers:
                    tn = [norm(e).split(".")[-1] for e in (h.type.elts if isinstance(h.type, ast.Tuple) else [h.type])] if h.type is not None else ["BaseException"]
                    if not (set(tn) & catchers):
                        continue
                    n += 1
                    kind = "ConcurrencyError" if "ConcurrencyError" in tn else ("Exception" if set(tn) & {"Exception", "BaseException"} else tn[0])
                    ok, why = _reraises(h)
                    if ok:
                        rep.ok("C07.R4", f"{qual}: except {','.join(tn)} (line-independent: re-raising)", why, f.file, h.lineno)
                        continue
                    ordinal = per_qual.get((qual, kind), 0)   # ordinal among the NON re-raising clauses of this function, in source order
                    per_qual[(qual, kind)] = ordinal + 1
                    reason = SWALLOW_OK.get((qual, kind, ordinal))
                    if reason:
                        rep.ok("C07.R4", f"{qual}: except {','.join(tn)}#{ordinal}", "listed: " + reason, f.file, h.lineno)
                    else:
                        rep.fail("C07.R4", f"{qual}: except {','.join(tn)}#{ordinal}", "catches ConcurrencyError around a store write and does not re-raise: the loser of an optimistic-lock race is silently dropped",
                                 f.file, h.lineno, disc=f"{qual}:{kind}:{ordinal}")
    rep.floor("except clauses that can catch ConcurrencyError around store writes", n, 10)


def _enclosing_qual(f, node) -> str:
    """Qualname of the innermost def enclosing `node` inside FuncInfo f."""
    best = f.qualname
    best_span = (f.node.lineno, f.node.end_lineno)
    for n in ast.walk(f.node):
        if isinstance(n, (ast.FunctionDef, ast.AsyncFunctionDef)) and n is not f.node:
            if n.lineno <= node.lineno <= n.end_lineno and (n.end_lineno - n.lineno) < (best_span[1] - best_span[0]):
                best = f"{f.name}.{n.name}" if "." not in best or best == f.qualname else f"{best.split('.')[-1]}.{n.name}"
                best_span = (n.lineno, n.end_lineno)
    return best


def _reraises(h: ast.ExceptHandler) -> tuple[bool, str]:
    body = h.body
    if not body:
        return False, ""
    # every path ends in raise
    def ends_in_raise(stmts) -> bool:
        if not stmts:
            return False
        last = stmts[-1]
        if isinstance(last, ast.Raise):
            return True
        if isinstance(last, ast.If) and last.orelse:
            return ends_in_raise(last.body) and ends_in_raise(last.orelse)
        return False

    if ends_in_raise(body):
        return True, "re-raises on every path"
    # idiom: if is_transient(e): raise  (ConcurrencyError is a TransientError -> re-raised)
    for s in body[:3]:
        if isinstance(s, ast.If) and norm(s.test).startswith("is_transient(") and any(isinstance(x, ast.Raise) and x.exc is None for x in s.body):
            return True, "is_transient(e) -> raise (ConcurrencyError is transient)"
    # idiom: retry loop that re-raises on the last attempt
    for s in body:
        if isinstance(s, ast.If) and "max_retries - 1" in norm(s.test) and any(isinstance(x, ast.Raise) for x in s.body):
            return True, "bounded retry: re-raises on the last attempt"
    return False, ""


# ---- decision and write on the same read -----------------------------------------------------------------------------
_REREADS = ("retrieve_stage",)


def _own_nodes(fn_node):
    """nodes of fn_node's own scope (nested defs / lambdas excluded)"""
    stack = list(ast.iter_child_nodes(fn_node))
    while stack:
        n = stack.pop()
        yield n
        if isinstance(n, (ast.FunctionDef, ast.AsyncFunctionDef, ast.Lambda, ast.ClassDef)):
            continue
        stack.extend(ast.iter_child_nodes(n))


def decision_read_rule(ctx, rep, rid: str, modules: tuple = ("stabilize.handlers",), floor: int = 0) -> int:
    """A stage that is stored under conditions tested on it must be stored from the SAME read those conditions were tested on.
    `if X.status ...: X = store.retrieve_stage(id); X.context[...] = ...; store_stage(X)` passes the version check with the
    fresh token although the decision was taken on the older copy: a status change committed in between (the task suspending,
    a cancel) is neither seen nor refused - the check-then-act pair that optimistic locking exists to prevent."""
    from ..dom import canon_fact, parents, raw_conditions_at
    from ..statuspred import status_set

    prog = ctx.prog
    T = ctx.st
    ALL = frozenset(T.members)
    n_sites = 0

    def every(fi):
        yield fi
        for n in ast.walk(fi.node):
            if isinstance(n, (ast.FunctionDef, ast.AsyncFunctionDef)) and n is not fi.node:
                yield n

    for f in prog.all_functions():
        if not any(f.module.name == m or f.module.name.startswith(m + ".") for m in modules):
            continue
        seen_nodes = set()
        for g in every(f):
            gnode = g.node if hasattr(g, "node") else g
            if id(gnode) in seen_nodes:
                continue
            seen_nodes.add(id(gnode))
            own = list(_own_nodes(gnode))
            rereads: dict = {}
            for a in own:
                if isinstance(a, ast.Assign) and len(a.targets) == 1 and isinstance(a.targets[0], ast.Name) and isinstance(a.value, ast.Call) and norm(a.value.func).split(".")[-1] in _REREADS:
                    rereads.setdefault(a.targets[0].id, []).append(a)
            if not rereads:
                continue
            par = parents(gnode)
            for c in own:
                if not (isinstance(c, ast.Call) and isinstance(c.func, ast.Attribute) and c.func.attr in ("store_stage", "execute_atomic", "execute_atomic_critical")):
                    continue
                stored = [a for a in c.args if isinstance(a, ast.Name)] + [k.value for k in c.keywords if k.arg in ("stage", "source_stage") and isinstance(k.value, ast.Name)]
                for x in stored:
                    rr = [a for a in rereads.get(x.id, []) if getattr(a, "_ord", a.lineno) < getattr(c, "_ord", c.lineno)]
                    if not rr:
                        continue
                    n_sites += 1
                    last = max(rr, key=lambda a: getattr(a, "_ord", a.lineno))
                    cut = getattr(last, "_ord", last.lineno)
                    before, after = set(), set()
                    sb = sa = ALL
                    where = {}
                    for t, truth in raw_conditions_at(gnode, c):
                        if not any(isinstance(m_, ast.Attribute) and isinstance(m_.value, ast.Name) and m_.value.id == x.id for m_ in ast.walk(t)):
                            continue
                        st = par.get(id(t))
                        pos = getattr(st, "_ord", getattr(t, "lineno", 0))
                        for fact in canon_fact(t, truth):
                            if f"{x.id}." not in fact[0]:
                                continue
                            try:
                                fe = ast.parse(fact[0], mode="eval").body
                                ss = status_set(fe, f"{x.id}.status", T)
                            except SyntaxError:
                                ss = None
                            if ss is not None:
                                ss = ss if fact[1] else ALL - ss
                                if pos < cut:
                                    sb = sb & ss
                                    where.setdefault("status", getattr(t, "lineno", 0))
                                else:
                                    sa = sa & ss
                                continue
                            (before if pos < cut else after).add(fact)
                            where.setdefault(fact, getattr(t, "lineno", 0))
                    if not sa <= sb:
                        # the status decision of the earlier copy is not re-established on the copy that is stored
                        before.add((f"{x.id}.status in {sorted(sb)}", True))
                        where[(f"{x.id}.status in {sorted(sb)}", True)] = where.get("status", 0)
                    stale = sorted(before - after)
                    name = getattr(gnode, "name", "?")
                    rep.check(not stale, rid, f"{f.qualname}:{name} stores `{x.id}` from the read its conditions were tested on",
                              "re-read precedes every condition on the stored object" if not stale else
                              f"`{x.id}` is re-read at line {last.lineno} after the decision " + ", ".join(f"`{'' if tr else 'not '}{tx}` (line {where[(tx, tr)]})" for tx, tr in stale) +
                              " was taken on the earlier copy and is stored with the fresh version: a change committed in between is neither seen nor refused",
                              f.file, c.lineno, disc=f"decision-read:{f.qualname}:{name}:{x.id}")
    rep.count(decision_read_sites=n_sites)
    if floor:
        rep.floor("stores of a re-read stage (decision/read coherence)", n_sites, floor)
    return n_sites
