"""C20 - graph validation and condition expressions are sound and total.

  R1  whitelist: _eval_node dispatches on a closed set of side-effect-free node kinds and ends in a default-deny
      raise; the module never reaches eval/exec/compile/getattr/import machinery; ast.parse only in mode="eval";
      operator tables hold only reviewed pure operators (no arithmetic that can blow up time or memory)
  R2  no side effects: neither function writes into `context` or into a value read from it, nor into module state
  R3  escape analysis (totality): every operation of the two functions that can raise on some input is enclosed by
      a handler that converts the exception into ExpressionError; unbounded recursion is caught at the entry
  R4  callers: every call of evaluate_expression sits in a try whose handler catches ExpressionError and does not
      re-raise; the argument is a str at the call site
  R5  graph: topological_sort emits a stage only when all its requisites were emitted before (and raises instead of
      looping when it cannot progress); validate_stage_graph checks duplicates, self-edges, unknown refs, then order;
      Workflow.create validates before constructing

Not decided: value-level behaviour of comparisons on exotic context values (objects with raising __eq__),
the iff direction "every acyclic graph is accepted" (needs the algorithm's completeness, argued not proved).
"""
from __future__ import annotations

import ast

from ..model import AnalysisError, norm

EXPR = "stabilize.expressions"
ALLOWED_NODES = {"Constant", "Name", "Attribute", "Subscript", "Compare", "BoolOp", "UnaryOp", "IfExp", "List", "Tuple"}
FORBIDDEN_CALLS = {"eval", "exec", "compile", "getattr", "setattr", "delattr", "__import__", "globals", "locals", "vars", "open", "input", "breakpoint"}
# what a table entry can raise when applied to arbitrary JSON-like operands
OP_RAISES = {
    "operator.eq": set(), "operator.ne": set(), "operator.is_": set(), "operator.is_not": set(), "operator.not_": set(),
    "operator.lt": {"TypeError"}, "operator.le": {"TypeError"}, "operator.gt": {"TypeError"}, "operator.ge": {"TypeError"},
    "operator.neg": {"TypeError"}, "operator.pos": {"TypeError"},
    # membership: TypeError (non-container), ValueError (int out of range in a bytes constant: 300 in b"abc")
    "lambda a, b: a in b": {"TypeError", "ValueError"}, "lambda a, b: a not in b": {"TypeError", "ValueError"},
    "all": set(), "any": set(),
}
PARSE_RAISES = {"SyntaxError", "ValueError", "RecursionError", "MemoryError"}
EXC_BASES = {"SyntaxError": {"Exception"}, "ValueError": {"Exception"}, "RecursionError": {"RuntimeError", "Exception"}, "MemoryError": {"Exception"}, "TypeError": {"Exception"},
             "IndexError": {"LookupError", "Exception"}, "KeyError": {"LookupError", "Exception"}}
PURE_CALLS = {"isinstance", "type", "zip", "tuple", "bool", "len", "ExpressionError", "str", "repr"}
PURE_METHODS = {"strip", "lower", "get", "items", "values", "keys"}


def _parents(fn):
    par = {}
    for n in ast.walk(fn):
        for c in ast.iter_child_nodes(n):
            par[id(c)] = n
    return par


def _caught_at(fn, node, par) -> set:
    """exception names converted to ExpressionError by the try statements whose BODY encloses node"""
    out: set = set()
    cur = node
    while id(cur) in par:
        p = par[id(cur)]
        if isinstance(p, ast.Try) and any(cur is x for x in p.body):
            for h in p.handlers:
                converts = any(isinstance(s, ast.Raise) and s.exc is not None and "ExpressionError" in norm(s.exc) for s in ast.walk(h)) or \
                    (h.body and isinstance(h.body[-1], ast.Return))
                if not converts:
                    continue
                if h.type is None:
                    out.add("BaseException")
                elif isinstance(h.type, ast.Tuple):
                    out |= {norm(e).split(".")[-1] for e in h.type.elts}
                else:
                    out.add(norm(h.type).split(".")[-1])
        cur = p
    return out


def _covered(exc: str, caught: set) -> bool:
    return exc in caught or "BaseException" in caught or bool(EXC_BASES.get(exc, {"Exception"}) & caught)


def run(ctx, rep) -> None:
    prog = ctx.prog
    rep.rule("C20.R1", "_eval_node: closed whitelist of node kinds, default-deny raise at the end; no eval/exec/compile/getattr/import; ast.parse(mode='eval') only; operator tables hold reviewed pure operators")
    rep.rule("C20.R2", "no write into `context`, into values read from it, or into module state in evaluate_expression/_eval_node")
    rep.rule("C20.R3", "every may-raise operation (table: operator calls, dict.get with a computed key, subscripts, ast.parse, unbounded recursion) is enclosed by a handler that raises ExpressionError")
    rep.rule("C20.R4", "every evaluate_expression call site is inside try/except ExpressionError whose handler does not re-raise")
    rep.rule("C20.R5", "topological_sort appends a stage only under ref_ids ⊇ its requisites, ref_ids grows only with appended stages, no progress raises; validate_stage_graph: duplicate, self-edge, unknown, then sort; Workflow.create validates first")
    rep.undecided += ["comparison of context values whose own __eq__/__lt__ raise something other than TypeError", "completeness of validation (every acyclic, well-referenced graph is accepted) beyond the shape of the algorithm",
                      "direct construction Workflow(...) does not validate (not a creation API)"]
    mod = prog.module(EXPR)
    ev = prog.func(EXPR, "_eval_node")
    top = prog.func(EXPR, "evaluate_expression")
    # ---- R1 -------------------------------------------------------------------------------------
    kinds = []
    for s in ev.node.body:
        if isinstance(s, ast.If):
            t = s.test
            if isinstance(t, ast.Call) and norm(t.func) == "isinstance" and norm(t.args[0]) == "node":
                k = t.args[1]
                names = [norm(e).split(".")[-1] for e in (k.elts if isinstance(k, ast.Tuple) else [k])]
                kinds += names
            else:
                rep.fail("C20.R1", f"_eval_node branch `{norm(t)[:60]}`", "a dispatch branch that is not an isinstance test on the node kind", ev.file, s.lineno, disc=f"branch:{norm(t)[:40]}")
    rep.floor("node kinds dispatched by _eval_node", len(kinds), 8)
    for k in kinds:
        rep.check(k in ALLOWED_NODES, "C20.R1", f"node kind {k}", "side-effect-free expression node" if k in ALLOWED_NODES else f"ast.{k} is not in the reviewed whitelist: evaluating it may call code or bind names", ev.file, ev.node.lineno, disc=f"kind:{k}")
    last = ev.node.body[-1]
    rep.check(isinstance(last, ast.Raise) and "ExpressionError" in norm(last.exc), "C20.R1", "default deny", "any other node kind raises ExpressionError", ev.file, last.lineno, disc="default-deny")
    n_calls = 0
    for n in ast.walk(mod.tree):
        if isinstance(n, ast.Call):
            n_calls += 1
            f = norm(n.func)
            if f.split(".")[-1] in FORBIDDEN_CALLS:
                rep.fail("C20.R1", f"call of {f}", "the evaluator reaches code-executing / reflective machinery", mod.relpath, n.lineno, disc=f"forbidden:{f}")
            if f == "ast.parse":
                kw = {k.arg: norm(k.value) for k in n.keywords}
                rep.check(kw.get("mode") in ("'eval'", '"eval"'), "C20.R1", "ast.parse mode", f"mode={kw.get('mode')}", mod.relpath, n.lineno, disc="parse-mode")
        if isinstance(n, (ast.Import, ast.ImportFrom)):
            names = [a.name for a in n.names] if isinstance(n, ast.Import) else [n.module or ""]
            for nm in names:
                rep.check(nm in ("ast", "operator", "__future__", "collections.abc", "typing"), "C20.R1", f"import {nm}", "the evaluator imports only ast/operator/typing", mod.relpath, n.lineno, disc=f"import:{nm}")
    rep.floor("calls scanned in expressions.py", n_calls, 20)
    # operator tables
    tables = {}
    for name, val in mod.assigns.items():
        if name.startswith("_SAFE_") and isinstance(val, ast.Dict):
            tables[name] = val
    rep.floor("operator tables", len(tables), 3)
    table_raises: dict = {}
    for name, d in tables.items():
        rs: set = set()
        for k, v in zip(d.keys, d.values):
            txt = norm(v)
            if txt not in OP_RAISES:
                rep.fail("C20.R1", f"{name}[{norm(k)}] = {txt}", "operator not in the reviewed table (pure, bounded cost, known exceptions)", mod.relpath, v.lineno, disc=f"op:{name}:{norm(k)}")
                rs.add("*")
            else:
                rep.ok("C20.R1", f"{name}[{norm(k)}] = {txt}", f"reviewed: raises {sorted(OP_RAISES[txt]) or 'nothing'}", mod.relpath, v.lineno)
                rs |= OP_RAISES[txt]
        table_raises[name] = rs

    # ---- R2 -------------------------------------------------------------------------------------
    for fi in (ev, top):
        for n in ast.walk(fi.node):
            tgts = []
            if isinstance(n, ast.Assign):
                tgts = n.targets
            elif isinstance(n, (ast.AugAssign, ast.AnnAssign)):
                tgts = [n.target]
            elif isinstance(n, ast.Delete):
                tgts = n.targets
            for t in tgts:
                if isinstance(t, (ast.Subscript, ast.Attribute)):
                    rep.fail("C20.R2", f"{fi.qualname}: write to {norm(t)}", "the evaluator stores into an object it did not create", fi.file, n.lineno, disc=f"write:{norm(t)}")
            if isinstance(n, ast.Call) and isinstance(n.func, ast.Attribute) and n.func.attr in ("update", "pop", "setdefault", "append", "extend", "clear", "remove", "insert", "__setitem__", "popitem", "sort"):
                rep.fail("C20.R2", f"{fi.qualname}: {norm(n.func)}()", "mutating call on a value the evaluator did not create", fi.file, n.lineno, disc=f"mutate:{norm(n.func)}")
            if isinstance(n, (ast.Global, ast.Nonlocal)):
                rep.fail("C20.R2", f"{fi.qualname}: global/nonlocal", "module state written during evaluation", fi.file, n.lineno, disc="global")
    rep.ok("C20.R2", "no stores / mutating calls in the evaluator", "scanned evaluate_expression and _eval_node", ev.file, ev.node.lineno)

    # ---- R3 -------------------------------------------------------------------------------------
    n_ops = 0
    for fi in (ev, top):
        par = _parents(fi.node)
        # locals bound from a table lookup: op_func = _SAFE_OPERATORS.get(type(op))
        from_table = {}
        dynamic_keys = set()
        for n in ast.walk(fi.node):
            if isinstance(n, ast.Assign) and len(n.targets) == 1 and isinstance(n.targets[0], ast.Name):
                v = n.value
                if isinstance(v, ast.Call) and isinstance(v.func, ast.Attribute) and v.func.attr == "get" and norm(v.func.value) in tables:
                    from_table[n.targets[0].id] = norm(v.func.value)
                if isinstance(v, ast.Call) and norm(v.func) == "_eval_node":
                    dynamic_keys.add(n.targets[0].id)
        for n in ast.walk(fi.node):
            raises: set = set()
            what = ""
            if isinstance(n, ast.Call):
                f = n.func
                if isinstance(f, ast.Name) and f.id in from_table:
                    raises = set(table_raises.get(from_table[f.id], {"*"}))
                    what = f"{f.id}(...) from {from_table[f.id]}"
                elif norm(f) == "ast.parse":
                    raises = set(PARSE_RAISES)
                    what = "ast.parse"
                elif norm(f) == "_eval_node" and fi is top:
                    raises = {"RecursionError"}
                    what = "recursive evaluation of an input-sized tree"
                elif isinstance(f, ast.Attribute) and f.attr == "get" and n.args and isinstance(n.args[0], ast.Name) and n.args[0].id in dynamic_keys and norm(f.value) not in tables:
                    raises = {"TypeError"}
                    what = f"{norm(f)}({n.args[0].id}) with a computed (possibly unhashable) key"
                elif isinstance(f, ast.Name) and f.id not in PURE_CALLS and f.id not in from_table and f.id != "_eval_node":
                    raises = {"*"}
                    what = f"call of {f.id}"
                elif isinstance(f, ast.Attribute) and f.attr not in PURE_METHODS and norm(f) not in ("ast.parse",) and not norm(f).startswith("operator."):
                    raises = {"*"}
                    what = f"call of {norm(f)}"
            elif isinstance(n, ast.Subscript) and isinstance(n.ctx, ast.Load) and not isinstance(par.get(id(n)), ast.Subscript):
                base = norm(n.value)
                if base in ("context",):
                    # context[node.id] under `node.id in context`
                    doms = _dominating(fi.node, n, par)
                    if (f"{norm(n.slice)} in context", True) in doms:
                        continue
                    raises = {"KeyError"}
                    what = f"{norm(n)} without a membership test"
                elif base in ("value",):
                    raises = {"IndexError"}
                    what = f"{norm(n)}"
                    doms = _dominating(fi.node, n, par)
                    if not any("isinstance(key, int)" in d[0] and d[1] for d in doms):
                        raises |= {"TypeError"}
                elif "[" not in base and base.split(".")[0] not in ("dict", "list", "type", "Callable"):
                    # annotations are not evaluated (from __future__ import annotations)
                    if _in_annotation(n, par):
                        continue
                    raises = {"IndexError", "KeyError", "TypeError"}
                    what = norm(n)
            if not raises:
                continue
            n_ops += 1
            caught = _caught_at(fi.node, n, par)
            missing = sorted(r for r in raises if r != "*" and not _covered(r, caught)) + (["any exception"] if "*" in raises and not ({"Exception", "BaseException"} & caught) else [])
            rep.check(not missing, "C20.R3", f"{fi.qualname}: {what}", f"may raise {sorted(raises)}; converted by the enclosing handler" if not missing else
                      f"may raise {missing} on some input and no enclosing handler converts it to ExpressionError: the callers catch ExpressionError only, so the exception crashes the stage handler",
                      fi.file, n.lineno, disc=f"escape:{what.split('(')[0].strip()}:{','.join(missing)}")
    rep.floor("may-raise operations examined", n_ops, 5)

    # ---- R4 -------------------------------------------------------------------------------------
    n_sites = 0
    for f in prog.all_functions():
        if f.module.name == EXPR:
            continue
        for n in ast.walk(f.node):
            if isinstance(n, ast.Call) and norm(n.func).split(".")[-1] == "evaluate_expression":
                n_sites += 1
                par = _parents(f.node)
                cur = n
                ok = False
                reraises = False
                while id(cur) in par:
                    p = par[id(cur)]
                    if isinstance(p, ast.Try) and any(cur is x for x in p.body):
                        for h in p.handlers:
                            names = [norm(e).split(".")[-1] for e in (h.type.elts if isinstance(h.type, ast.Tuple) else [h.type])] if h.type is not None else ["BaseException"]
                            if {"ExpressionError", "Exception", "BaseException"} & set(names):
                                ok = True
                                reraises = any(isinstance(s, ast.Raise) for s in ast.walk(h))
                    cur = p
                rep.check(ok and not reraises, "C20.R4", f"{f.qualname}: evaluate_expression call", "ExpressionError is caught and turned into a branch decision" if ok and not reraises else "a malformed condition propagates out of the handler", f.file, n.lineno, disc=f"caller:{f.qualname}")
    rep.floor("evaluate_expression call sites", n_sites, 2)
    # the handler of a malformed condition must itself be total: inside `except ExpressionError:` the condition (any JSON value)
    # may only be passed on (log argument, list append) - not measured, sliced, concatenated or formatted by method calls
    for f in prog.all_functions():
        if f.module.name == EXPR or f.parent is not None:
            continue
        for t_ in ast.walk(f.node):
            if not isinstance(t_, ast.Try):
                continue
            calls_eval = [c_ for b_ in t_.body for c_ in ast.walk(b_) if isinstance(c_, ast.Call) and norm(c_.func).split(".")[-1] == "evaluate_expression" and c_.args]
            if not calls_eval:
                continue
            cond_names = {norm(c_.args[0]) for c_ in calls_eval}
            for h_ in t_.handlers:
                if h_.type is None or "ExpressionError" not in norm(h_.type):
                    continue
                # aliases made inside the handler: shown = condition
                aliases = set(cond_names)
                for a_ in ast.walk(h_):
                    if isinstance(a_, ast.Assign) and isinstance(a_.targets[0], ast.Name) and any(isinstance(x_, ast.Name) and x_.id in aliases for x_ in ast.walk(a_.value)):
                        aliases.add(a_.targets[0].id)
                risky = []
                for n_ in ast.walk(h_):
                    if isinstance(n_, ast.Call):
                        fn_ = norm(n_.func)
                        uses = any(isinstance(x_, ast.Name) and x_.id in aliases for a2 in n_.args for x_ in ast.walk(a2))
                        if uses and not (fn_.startswith("logger.") or fn_.endswith(".append") or fn_ in ("str", "repr", "type")):
                            risky.append(f"{fn_}(...)")
                        if isinstance(n_.func, ast.Attribute) and isinstance(n_.func.value, ast.Name) and n_.func.value.id in aliases:
                            risky.append(f"{fn_}()")
                    elif isinstance(n_, ast.Subscript) and isinstance(n_.value, ast.Name) and n_.value.id in aliases:
                        risky.append(norm(n_))
                    elif isinstance(n_, ast.BinOp) and any(isinstance(x_, ast.Name) and x_.id in aliases for x_ in (n_.left, n_.right)):
                        risky.append(norm(n_))
                rep.check(not risky, "C20.R4", f"{f.qualname}: the ExpressionError handler is total", "the condition is only passed on (log argument / append)" if not risky else
                          f"inside `except ExpressionError:` the condition is used by {sorted(set(risky))[:3]}: a non-string condition (rejected by the evaluator with ExpressionError) makes the handler itself raise TypeError, "
                          "which nothing catches - the stage crashes instead of skipping the branch", f.file, h_.lineno, disc=f"handler-total:{f.qualname}")

    # the text handed to the evaluator is a str: either the evaluator rejects anything else with its own error before it
    # calls a str method on it, or every call site has established isinstance(<arg>, str)
    from ..dom import conditions_at
    callee_checks = False
    first_use = min((n.lineno for n in ast.walk(top.node) if isinstance(n, ast.Attribute) and isinstance(n.value, ast.Name) and n.value.id == "expression"), default=None)
    for n in ast.walk(top.node):
        if isinstance(n, ast.Raise) and n.exc is not None and "ExpressionError" in norm(n.exc) and (first_use is None or n.lineno < first_use):
            if ("isinstance(expression, str)", False) in conditions_at(top.node, n):
                callee_checks = True
    for f in prog.all_functions():
        if f.module.name == EXPR:
            continue
        for n in ast.walk(f.node):
            if isinstance(n, ast.Call) and norm(n.func).split(".")[-1] == "evaluate_expression" and n.args:
                inner = [g for g in ast.walk(f.node) if isinstance(g, (ast.FunctionDef, ast.AsyncFunctionDef)) and g is not f.node and any(x is n for x in ast.walk(g))]
                if inner:
                    continue        # reported for the innermost function
                arg = norm(n.args[0])
                ok = callee_checks or (f"isinstance({arg}, str)", True) in conditions_at(f.node, n)
                rep.check(ok, "C20.R4", f"{f.qualname}: the condition handed to evaluate_expression is a str", "the evaluator rejects non-strings with ExpressionError" if callee_checks else (f"call reached only under isinstance({arg}, str)" if ok else
                          f"`{arg}` comes from workflow data (any JSON value) and is neither type-checked here nor by evaluate_expression before `expression.strip()`: a non-string condition raises AttributeError, which the caller's `except ExpressionError` does not catch"),
                          f.file, n.lineno, disc=f"arg-str:{f.qualname}")

    # ---- R5 -------------------------------------------------------------------------------------
    TOPO = "stabilize.dag.topological"
    ts = prog.func(TOPO, "topological_sort")
    fn = ts.node
    appends = [c for c in ast.walk(fn) if isinstance(c, ast.Call) and norm(c.func) == "sorted_stages.append"]
    adds = [c for c in ast.walk(fn) if isinstance(c, ast.Call) and norm(c.func) == "ref_ids.add"]
    par = _parents(fn)

    def enclosing_for(n):
        cur = n
        while id(cur) in par:
            cur = par[id(cur)]
            if isinstance(cur, ast.For):
                return cur
        return None

    ok = len(appends) == 1 and len(adds) == 1 and enclosing_for(appends[0]) is enclosing_for(adds[0]) and enclosing_for(appends[0]) is not None
    loop = enclosing_for(appends[0]) if appends else None
    rep.check(ok, "C20.R5", "topological_sort: a ref becomes 'done' exactly when its stage is emitted", "sorted_stages.append(stage) and ref_ids.add(stage.ref_id) in the same loop body", ts.file, appends[0].lineno if appends else fn.lineno, disc="emit")
    src = norm(loop.iter) if loop is not None else ""
    sortable_def = [n for n in ast.walk(fn) if isinstance(n, ast.Assign) and norm(n.targets[0]) == src]
    ok = False
    if sortable_def and isinstance(sortable_def[0].value, ast.ListComp):
        lc = sortable_def[0].value
        conds = [norm(c) for g in lc.generators for c in g.ifs]
        ok = any(c.startswith("ref_ids.issuperset(") and "requisite_stage_ref_ids" in c for c in conds) or any("requisite_stage_ref_ids" in c and ("<= ref_ids" in c or "issubset(ref_ids)" in c) for c in conds)
        # the emitting loop must not add refs before the candidates of this round were chosen: the comprehension is evaluated before the loop
        ok = ok and sortable_def[0].lineno < loop.lineno
    rep.check(ok, "C20.R5", "topological_sort: a stage is emitted only after all its requisites", f"candidates = stages with ref_ids ⊇ requisite_stage_ref_ids ({src})", ts.file, sortable_def[0].lineno if sortable_def else fn.lineno, disc="requisites-first")
    wl = [n for n in ast.walk(fn) if isinstance(n, ast.While)]
    stuck = [n for n in ast.walk(fn) if isinstance(n, ast.If) and norm(n.test) == f"not {src}" and any(isinstance(s, ast.Raise) and "CircularDependencyError" in norm(s.exc) for s in n.body)]
    rep.check(bool(wl) and bool(stuck), "C20.R5", "topological_sort: no progress raises CircularDependencyError", "while unsorted: if not sortable: raise", ts.file, stuck[0].lineno if stuck else fn.lineno, disc="stuck")
    removes = [c for c in ast.walk(fn) if isinstance(c, ast.Call) and norm(c.func).endswith(".remove") or (isinstance(c, ast.Call) and norm(c.func).endswith(".discard"))]
    rep.check(bool(removes) and loop is not None and all(enclosing_for(c) is loop for c in removes), "C20.R5", "topological_sort: every emitted stage leaves the work set (termination)", f"{len(removes)} removal(s) in the emitting loop", ts.file, fn.lineno, disc="terminates")
    vg = prog.func(TOPO, "validate_stage_graph")
    raises = [(n.lineno, norm(n.exc)) for n in ast.walk(vg.node) if isinstance(n, ast.Raise) and n.exc is not None]
    order = []
    for ln, txt in sorted(raises):
        for tag in ("duplicate_ref", "self_edge", "unknown_ref"):
            if tag in txt:
                order.append(tag)
    sort_calls = [c for c in ast.walk(vg.node) if isinstance(c, ast.Call) and norm(c.func) == "topological_sort"]
    ok = order == ["duplicate_ref", "self_edge", "unknown_ref"] and bool(sort_calls) and all(c.lineno > max(l for l, _ in raises) for c in sort_calls)
    rep.check(ok, "C20.R5", "validate_stage_graph: duplicate, self-edge, unknown ref, then cycle detection", f"raises in order {order}; topological_sort last", vg.file, vg.node.lineno, disc="validate-order")
    # must-pass-through: every normal exit of validate_stage_graph runs the cycle detection
    top_level_sort = [st for st in vg.node.body if isinstance(st, ast.Expr) and isinstance(st.value, ast.Call) and norm(st.value.func) == "topological_sort"]
    early = [n for n in ast.walk(vg.node) if isinstance(n, ast.Return) and (not top_level_sort or n.lineno < top_level_sort[0].lineno)]
    ok = bool(top_level_sort) and not early
    rep.check(ok, "C20.R5", "validate_stage_graph: every accepted graph went through cycle detection", "topological_sort(stages) is an unconditional statement and no return precedes it" if ok else
              (f"`return` at line {early[0].lineno} leaves validate_stage_graph before the cycle detection: some cyclic graphs are accepted" if early else "the cycle detection is conditional"), vg.file, early[0].lineno if early else vg.node.lineno, disc="must-sort")
    # the three structural tests
    t = norm(vg.node)
    rep.check("if stage.ref_id in seen:" in t and "seen.add(stage.ref_id)" in t, "C20.R5", "duplicate refs are detected against the refs seen so far", "", vg.file, vg.node.lineno, disc="dup-test")
    rep.check("if stage.ref_id in stage.requisite_stage_ref_ids:" in t, "C20.R5", "self-edges are detected", "", vg.file, vg.node.lineno, disc="self-test")
    vpar = _parents(vg.node)

    def _for_of(n):
        cur = n
        while id(cur) in vpar:
            cur = vpar[id(cur)]
            if isinstance(cur, ast.For):
                return cur
        return None
    seen_adds = [c for c in ast.walk(vg.node) if isinstance(c, ast.Call) and norm(c.func) == "seen.add"]
    unk = [n for n in ast.walk(vg.node) if isinstance(n, ast.BinOp) and isinstance(n.op, ast.Sub) and norm(n.right) == "seen" and "requisite_stage_ref_ids" in norm(n.left)]
    fill = _for_of(seen_adds[0]) if seen_adds else None
    ok = bool(unk) and fill is not None and all(_for_of(u) is not None and _for_of(u) is not fill and _for_of(u).lineno > (fill.end_lineno or fill.lineno) for u in unk)
    rep.check(ok, "C20.R5", "unknown refs are detected against the complete ref set", "unknown = requisites - seen, in a pass after the one that filled `seen`" if ok else
              "requisites are compared with the refs seen SO FAR: a stage declared before its requisite is rejected as unknown (valid graphs refused)", vg.file, unk[0].lineno if unk else vg.node.lineno, disc="unknown-test")
    # every factory of Workflow that takes the stage list validates it before constructing ("creating a workflow succeeds exactly
    # when its stages form an acyclic graph with unique, known references" - whichever factory is used)
    wcls = prog.cls("stabilize.models.workflow", "Workflow")
    n_fact = 0
    for mname, mi in sorted(wcls.methods.items()):
        is_factory = any(norm(d) == "classmethod" for d in mi.node.decorator_list) and any(a.arg == "stages" for a in mi.node.args.args) and any(isinstance(c, ast.Call) and norm(c.func) == "cls" for c in ast.walk(mi.node))
        if not is_factory:
            continue
        n_fact += 1
        calls = [c for c in ast.walk(mi.node) if isinstance(c, ast.Call) and norm(c.func) == "validate_stage_graph"]
        ctor = [c for c in ast.walk(mi.node) if isinstance(c, ast.Call) and norm(c.func) == "cls"]
        ok = bool(calls) and calls[0].lineno < ctor[0].lineno and bool(calls[0].args) and norm(calls[0].args[0]) == "stages" and not any(isinstance(p_, ast.Try) for p_ in ast.walk(mi.node))
        rep.check(ok, "C20.R5", f"Workflow.{mname} validates the graph before constructing", "validate_stage_graph(stages) precedes cls(...), not wrapped in a try" if ok else
                  "the factory builds the workflow without validate_stage_graph(stages): a cycle, a duplicate or an unknown requisite ref is accepted at creation and only shows up at run time", mi.file, calls[0].lineno if calls else mi.node.lineno, disc=f"create-validates:{mname}" if mname != "create" else "create-validates")
    rep.floor("Workflow factories taking a stage list", n_fact, 2)


def _dominating(fn, target, par) -> list:
    out = []
    node = target
    while id(node) in par:
        p = par[id(node)]
        if isinstance(p, ast.If):
            if any(node is x for x in p.body):
                out.append((norm(p.test), True))
            elif any(node is x for x in p.orelse):
                out.append((norm(p.test), False))
        node = p
    return out


def _in_annotation(n, par) -> bool:
    cur = n
    while id(cur) in par:
        p = par[id(cur)]
        if isinstance(p, ast.AnnAssign) and p.annotation is cur:
            return True
        if isinstance(p, ast.arg) or (isinstance(p, (ast.FunctionDef,)) and p.returns is cur):
            return True
        cur = p
    return False
