"""C06 - completed is final; every durable status change is a legal transition.

  R1  table facts: completed statuses have no successors; every member is a key; the validating setters validate before assigning
  R2  every assignment to a .status attribute on every handler path is validated, provably legal from the path condition,
      a listed re-arm (jump / operator restart), a listed jump force-mark, or provably not durable
  R3  the status columns of the three tables have a closed set of writers
"""
from __future__ import annotations

import ast
import re

from .. import sqlshape
from ..model import AnalysisError, norm
from ..paths import all_paths

REARM_FUNCS = ("reset_stage_for_retry",)
FORCE_FUNCS = ("reset_stage_to_succeeded", "reset_stage_to_skipped", "reset_stage_to_terminal")
FORCE_TASKS_LIVE_ONLY = ("reset_stage_to_succeeded", "reset_stage_to_terminal")      # applied to a stage that ran: finished tasks stay as they are
REARM_HANDLERS = {"JumpToStageHandler", "RestartStageHandler"}

# direct writes that no engine path reaches, with the reason they are out of scope
UNREACHED_OK = {
    ("src/stabilize/models/workflow.py", "Workflow.pause"): "in-memory convenience API; no caller in the engine (pausing goes through store.pause / PauseTask)",
    ("src/stabilize/events/replay.py", "*"): "replay state objects (strings), not the durable models",
    ("src/stabilize/events/projections/timeline.py", "*"): "projection state, not the durable models",
}


def run(ctx, rep) -> None:
    prog, T = ctx.prog, ctx.st
    VT = T.transitions
    rep.rule("C06.R1", "VALID_TRANSITIONS: every member is a key, completed members map to the empty set; can_transition admits only identity besides; set_*_status validate before assigning")
    rep.rule("C06.R2", "each .status assignment reached on a handler path: validated | legal for every (from,to) the path condition allows | listed re-arm | listed force-mark | not durable")
    rep.rule("C06.R3", "status column writers: insert_stage, store_stage (4 UPDATEs), upsert_task, store, update_status, update_workflow_status, pause/resume_execution")
    rep.undecided += ["values that only exist at run time through message.status beyond what validate_transition rejects at run time"]
    rep.assumptions += ["jump force-marks (reset_stage_to_*) are applied to stages the jump protocol owns: the source, which R2 now proves was read RUNNING, and bypassed stages read NOT_STARTED",
                        "from-sets come from the path condition on the object that is written (guards on a stale copy do not count)"]
    # ---- R1 ------------------------------------------------------------------------------------
    sm = prog.module("stabilize.models.status")
    for m in T.members:
        rep.check(m in VT, "C06.R1", f"{m} is a key of VALID_TRANSITIONS", "", sm.relpath, 0, disc=f"key:{m}")
    for m in sorted(T.complete):
        rep.check(VT.get(m) == frozenset(), "C06.R1", f"completed status {m} has no successor", f"successors: {sorted(VT.get(m, []))}", sm.relpath, 0, disc=f"final:{m}")
    rep.check(T.sets.get("COMPLETED_STATUSES") == T.complete, "C06.R1", "COMPLETED_STATUSES = members flagged complete", f"{sorted(T.sets.get('COMPLETED_STATUSES', []))} vs {sorted(T.complete)}", sm.relpath, 0, disc="completed-set")
    ct = sm.functions.get("can_transition")
    vt = sm.functions.get("validate_transition")
    if ct is None or vt is None:
        raise AnalysisError("can_transition / validate_transition not found")
    rets = [n for n in ast.walk(ct.node) if isinstance(n, ast.Return)]
    ok = len(rets) == 2 and any(norm(r.value) == "True" for r in rets) and any(norm(r.value).replace(" ", "") in ("targetinVALID_TRANSITIONS.get(current,frozenset())", "targetinVALID_TRANSITIONS[current]") for r in rets)
    ident = [n for n in ast.walk(ct.node) if isinstance(n, ast.If) and norm(n.test) in ("current == target", "target == current")]
    rep.check(ok and len(ident) == 1, "C06.R1", "can_transition consults the table, identity besides", f"{[norm(r.value) for r in rets]}", ct.file, ct.node.lineno, disc="can_transition")
    ok = any(isinstance(n, ast.If) and norm(n.test) == "not can_transition(current, target)" and any(isinstance(x, ast.Raise) for x in n.body) for n in ast.walk(vt.node))
    rep.check(ok, "C06.R1", "validate_transition raises on an illegal transition", "", vt.file, vt.node.lineno, disc="validate")
    base = prog.cls("stabilize.handlers.base", "StabilizeHandler")
    for name, obj in (("set_stage_status", "stage"), ("set_task_status", "task"), ("set_workflow_status", "workflow")):
        fn = base.methods[name].node
        body = fn.body
        val_i = [i for i, s_ in enumerate(body) if isinstance(s_, ast.Expr) and norm(s_).startswith(f"validate_transition({obj}.status, new_status")]
        asg_i = [i for i, s_ in enumerate(body) if isinstance(s_, ast.Assign) and norm(s_.targets[0]) == f"{obj}.status"]
        nested_asg = [n for n in ast.walk(fn) if isinstance(n, ast.Assign) and norm(n.targets[0]) == f"{obj}.status" and n not in body]
        # the validation is an unconditional statement before the only status assignment; nothing in between returns or re-assigns
        ok = len(val_i) >= 1 and len(asg_i) == 1 and not nested_asg and val_i[0] < asg_i[0] and norm(body[asg_i[0]].value) == "new_status" \
            and not any(isinstance(x, (ast.Return, ast.Try, ast.If)) for s_ in body[val_i[0]:asg_i[0]] for x in ast.walk(s_))
        rep.check(ok, "C06.R1", f"{name} validates before assigning", "validate_transition(x.status, new_status, ...); x.status = new_status", base.methods[name].file, fn.lineno, disc=name)

    # ---- R2 ------------------------------------------------------------------------------------
    res = all_paths(ctx)
    seen: dict = {}
    covered_sites: set = set()
    n_events = 0
    for name, r in res.items():
        for p in r.paths:
            tr = p.trace
            for i, e in enumerate(tr):
                if e.kind != "status_write":
                    continue
                n_events += 1
                covered_sites.add(e.site)
                frm, to = e.get("frm"), e.get("to")
                illegal = sorted((f, t) for f in frm for t in to if f != t and t not in VT.get(f, frozenset()))
                ctxs = str(e.get("ctx"))
                fn = ctxs.split(">")[-1]
                verdict = None
                if e.get("validated"):
                    verdict = "validated setter"
                elif not illegal:
                    verdict = "legal for every (from,to) allowed by the path condition"
                elif any(f in ctxs for f in REARM_FUNCS) and name in REARM_HANDLERS:
                    verdict = "re-arm by jump / operator restart (reset_stage_for_retry)"
                elif "Workflow.update_status" in ctxs and name == "RestartStageHandler" and to == frozenset({"RUNNING"}):
                    verdict = "operator restart brings the completed workflow back to RUNNING"
                elif any(f in ctxs for f in FORCE_FUNCS) and name == "JumpToStageHandler" and not (
                        e.get("okind") == "task" and fn in FORCE_TASKS_LIVE_ONLY and (frozenset(frm) & T.sets["COMPLETED_STATUSES"])):
                    # force-marking a source stage SUCCEEDED / TERMINAL closes only the tasks that are still live: a task that
                    # already completed keeps its outcome (completed is final) - so those two helpers must guard the task write
                    verdict = "jump force-mark (listed; protocol assumption)"
                else:
                    # not durable: the written object is never stored later on this path
                    oid = e.get("oid")
                    later_store = any((x.kind in ("store_stage", "update_workflow_status") or (x.kind == "auto" and str(x.get("api")).startswith("store."))) and
                                      (x.get("oid") == oid or str(oid).startswith(str(x.get("oid")) + ".")) for x in tr[i + 1:])
                    parent_store = any(x.kind == "store_stage" and str(oid).find("it:" + str(x.get("oid"))[:30]) >= 0 for x in tr[i + 1:])
                    if not later_store and not parent_store:
                        verdict = "not durable: the object is not stored after this write on this path"
                key = (e.site, name, verdict is not None, tuple(illegal[:3]))
                if key in seen:
                    continue
                seen[key] = True
                where = f"{fn}: {e.get('text')}"
                if verdict:
                    rep.ok("C06.R2", f"{name}:{where}", verdict, e.site[0], e.site[1])
                else:
                    rep.fail("C06.R2", f"{name}:{where}", f"direct status write with from-set {sorted(frm) if len(frm) < 12 else 'ANY STATUS'} -> {sorted(to)} is durable and not validated: illegal pairs e.g. {illegal[:3]} "
                             "(a completed / canceled entity can be resurrected)", e.site[0], e.site[1], disc=f"{fn}:{e.get('text')}")
    rep.count(status_write_events=n_events, distinct_status_write_sites=len(covered_sites))
    rep.floor("distinct .status assignment sites reached on paths", len(covered_sites), 16)
    # whole-program scan: every .status assignment is either reached by the path analysis or listed
    n_sites = 0
    for f in prog.all_functions():
        if f.module.name.startswith(("stabilize.cli", "stabilize.monitor")):
            continue
        for n in ast.walk(f.node):
            tg = n.targets if isinstance(n, ast.Assign) else ([n.target] if isinstance(n, (ast.AugAssign, ast.AnnAssign)) else [])
            for t in tg:
                if isinstance(t, ast.Attribute) and t.attr == "status":
                    n_sites += 1
                    site = (f.file, n.lineno)
                    if site in covered_sites:
                        continue
                    reason = UNREACHED_OK.get((f.file, f.qualname)) or UNREACHED_OK.get((f.file, "*"))
                    if isinstance(t.value, ast.Name) and t.value.id == "self" and f.name in ("__init__", "__post_init__"):
                        reason = reason or "constructor"
                    rep.check(reason is not None, "C06.R2", f"{f.qualname}: {norm(n)[:60]}", reason or "a .status assignment that no analysed path reaches and that is not listed: cannot be judged",
                              f.file, n.lineno, disc=f"unreached:{f.qualname}:{norm(n)[:40]}")
    rep.count(status_assignment_sites=n_sites)

    # ---- R2 (jump): the force-marks act on a live source --------------------------------------------------------------------
    # reset_stage_to_succeeded / _terminal assign without validation. They are legal only because the stage that asked for the
    # jump is RUNNING. A JumpToStage handled after CancelStage(source) must not reach them (CANCELED -> SUCCEEDED).
    from ..dom import conditions_at as _cond_at
    jh = prog.func("stabilize.handlers.jump_to_stage.handler", "JumpToStageHandler._handle_with_retry.on_stage")
    acts = [c for c in ast.walk(jh.node) if isinstance(c, ast.Call) and norm(c.func) in ("self._apply_jump", "self._handle_target_not_found", "self._check_jump_count", "reset_stage_for_retry")]
    rep.floor("jump actions in JumpToStageHandler.on_stage", len(acts), 3)
    for c in acts:
        cs = _cond_at(jh.node, c)
        ok = ("source_stage.status == WorkflowStatus.RUNNING", True) in cs
        rep.check(ok, "C06.R2", f"JumpToStage: {norm(c.func)} only for a source stage read RUNNING", "dominated by `source_stage.status == RUNNING`" if ok else
                  "reached whatever the source stage's status is: a jump handled after CancelStage(source) force-marks the CANCELED stage SUCCEEDED / TERMINAL (unvalidated assignment) and re-arms stages of a finished workflow",
                  jh.file, c.lineno, disc=f"jump-live-source:{norm(c.func)}")

    # ---- R3 ------------------------------------------------------------------------------------
    allowed = {
        "insert_stage", "SqliteStageOpsMixin.store_stage", "AtomicTransaction.store_stage", "upsert_task", "SqliteWorkflowCrudMixin.store", "SqliteWorkflowCrudMixin.update_status",
        "AtomicTransaction.update_workflow_status", "pause_execution", "resume_execution",
        "PostgresWorkflowStore._store_stage_impl", "upsert_tasks_bulk", "PostgresWorkflowStore.store", "PostgresWorkflowStore.update_status", "PostgresTransaction.update_workflow_status",
    }
    n = 0
    for s in sqlshape.statements(prog):
        if s.table not in ("pipeline_executions", "stage_executions", "task_executions"):
            continue
        if not (rep.tier == "thorough" or sqlshape.is_sqlite(s)):
            continue
        writes_status = (s.kind == "UPDATE" and "status" in s.sets) or (s.kind in ("INSERT", "REPLACE") and "status" in s.cols)
        if not writes_status:
            continue
        n += 1
        rep.check(s.func.qualname in allowed, "C06.R3", f"status column written by {s.func.qualname}", "closed set of status writers", s.file, s.line, disc=s.func.qualname)
    rep.floor("SQL statements writing a status column", n, 9)
    # pause_execution: the UPDATE that writes PAUSED is conditioned on the current status, and only on statuses from which PAUSED
    # is a legal transition; in particular never on a completed status (a finished workflow would become PAUSED, and RUNNING on resume)
    ps_ = [s for s in sqlshape.statements(prog) if s.func.qualname == "pause_execution" and s.kind == "UPDATE" and (sqlshape.is_sqlite(s) or rep.tier == "thorough")]
    if not ps_:
        raise AnalysisError("pause_execution: UPDATE not found")
    COMPLETED = T.sets["COMPLETED_STATUSES"]
    into_paused = frozenset(m for m, tos in T.transitions.items() if "PAUSED" in tos)
    for s_ in ps_:
        conds = [c for c in s_.where if c.startswith("status")]
        allowed = None
        for c in conds:
            m_ = re.match(r"status (?:= |in\()(.*?)\)?$", c)
            if m_:
                names = [x.strip() for x in m_.group(1).split(",")]
                vals = set()
                for nm in names:
                    key = nm.lstrip(":").replace("%(", "").replace(")s", "")
                    pv = s_.params.get(key)
                    mm = re.search(r"WorkflowStatus\.(\w+)", str(pv)) if pv is not None else None
                    if nm.startswith("'"):
                        vals.add(nm.strip("'").upper())
                    elif mm:
                        vals.add(mm.group(1))
                    else:
                        vals = None
                        break
                allowed = frozenset(vals) if vals is not None else None
        backend = "sqlite" if sqlshape.is_sqlite(s_) else "postgres"
        if allowed is None:
            rep.fail("C06.R3", f"pause_execution ({backend}) is conditioned on the current status", f"where: {s_.where} - PAUSED is written whatever the current status is: a SUCCEEDED / CANCELED workflow becomes PAUSED and resume() then makes it RUNNING for good",
                     s_.file, s_.line, disc=f"pause-guard:{backend}")
            continue
        fin = sorted(allowed & COMPLETED)
        rep.check(not fin, "C06.R3", f"pause_execution ({backend}) never overwrites a completed status", f"pauses from {sorted(allowed)}" + ("" if not fin else f": {fin} are final"), s_.file, s_.line, disc=f"pause-guard:{backend}")
        extra = sorted(allowed - into_paused - COMPLETED)
        rep.check(not extra, "C06.R3", f"pause_execution ({backend}) pauses only from statuses with a legal transition to PAUSED", f"pauses from {sorted(allowed)}; the table allows PAUSED from {sorted(into_paused)}" + ("" if not extra else
                  f": {extra} -> PAUSED is not in VALID_TRANSITIONS"), s_.file, s_.line, disc=f"pause-sources:{backend}:{'+'.join(extra)}")
    rs = [s for s in sqlshape.statements(prog) if s.func.qualname == "resume_execution" and sqlshape.is_sqlite(s)]
    rep.check(bool(rs) and any("status = 'paused'" in c for c in rs[0].where), "C06.R3", "resume_execution only leaves PAUSED", f"where: {rs[0].where if rs else None}", rs[0].file if rs else "", rs[0].line if rs else 0, disc="resume-guard")
