"""T-BOOL - the dedup guard of QueueProcessorMixin._handle_message as a boolean function.

The condition under which `handler.handle(message)` is reached is extracted as a formula over
opaque atoms (calls / attribute reads) from the if-structure of the function and decided by
truth table. Nothing is executed.
"""
from __future__ import annotations

import ast
import itertools

from .model import AnalysisError, norm


def _atoms_of(test: ast.expr, aliases: dict) -> list[str]:
    out: list[str] = []

    def walk(e):
        if isinstance(e, ast.BoolOp):
            for v in e.values:
                walk(v)
        elif isinstance(e, ast.UnaryOp) and isinstance(e.op, ast.Not):
            walk(e.operand)
        else:
            t = _canon(e, aliases)
            if t not in out:
                out.append(t)

    walk(test)
    return out


def _canon(e: ast.expr, aliases: dict) -> str:
    class R(ast.NodeTransformer):
        def visit_Name(self, n):
            if n.id in aliases:
                return ast.parse(aliases[n.id], mode="eval").body
            return n

    import copy

    return norm(R().visit(copy.deepcopy(e)))


def _eval(test: ast.expr, env: dict, aliases: dict) -> bool:
    if isinstance(test, ast.BoolOp):
        vals = [_eval(v, env, aliases) for v in test.values]
        return all(vals) if isinstance(test.op, ast.And) else any(vals)
    if isinstance(test, ast.UnaryOp) and isinstance(test.op, ast.Not):
        return not _eval(test.operand, env, aliases)
    return env[_canon(test, aliases)]


class GuardModel:
    """Path condition of reaching a target call inside a function made of nested ifs with early returns."""

    def __init__(self, fnode: ast.FunctionDef, target_pred) -> None:
        self.fnode = fnode
        self.aliases: dict[str, str] = {}
        self.atoms: list[str] = []
        self.target_pred = target_pred
        self.found = False
        # single-assignment locals become aliases (dedup = get_deduplicator(); trust_negative = getattr(...))
        counts: dict[str, int] = {}
        for n in ast.walk(fnode):
            if isinstance(n, ast.Assign) and len(n.targets) == 1 and isinstance(n.targets[0], ast.Name):
                counts[n.targets[0].id] = counts.get(n.targets[0].id, 0) + 1
        for n in ast.walk(fnode):
            if isinstance(n, ast.Assign) and len(n.targets) == 1 and isinstance(n.targets[0], ast.Name):
                name = n.targets[0].id
                # re-assignments with identical text are still one alias
                txt = norm(n.value)
                if name in self.aliases and self.aliases[name] != txt:
                    self.aliases.pop(name)
                    counts[name] = 99
                elif counts.get(name, 0) < 99:
                    self.aliases[name] = txt
        for n in ast.walk(fnode):
            if isinstance(n, ast.If):
                for a in _atoms_of(n.test, self.aliases):
                    if a not in self.atoms:
                        self.atoms.append(a)

    def reaches(self, env: dict) -> bool:
        """Does control reach the target under the truth assignment env (atom text -> bool)?"""
        self.found = False

        def block(stmts) -> str:
            for s in stmts:
                r = stmt(s)
                if r != "next":
                    return r
            return "next"

        def contains_target(s) -> bool:
            return any(isinstance(c, ast.Call) and self.target_pred(c) for c in ast.walk(s))

        def stmt(s) -> str:
            if isinstance(s, ast.If):
                taken = s.body if _eval(s.test, env, self.aliases) else s.orelse
                return block(taken)
            if isinstance(s, ast.Return):
                return "return"
            if isinstance(s, ast.Raise):
                return "raise"
            if isinstance(s, (ast.For, ast.While, ast.Try, ast.With)):
                if contains_target(s):
                    raise AnalysisError("target call inside a loop/try/with: guard model does not apply")
                return "next"
            if contains_target(s):
                self.found = True
                return "hit"
            return "next"

        return block(self.fnode.body) == "hit"

    def table(self):
        for bits in itertools.product([False, True], repeat=len(self.atoms)):
            env = dict(zip(self.atoms, bits))
            yield env, self.reaches(env)


def dedup_guard_rule(ctx, rep, rid: str) -> None:
    """C09.R1 / C02.R1: handler.handle is reached only if the durable store was consulted and said 'not processed',
    unless the in-memory filter is trusted AND authoritative AND negative."""
    prog = ctx.prog
    fi = prog.func("stabilize.queue.processor.mixins", "QueueProcessorMixin._handle_message")

    def is_handle(c: ast.Call) -> bool:
        return isinstance(c.func, ast.Attribute) and c.func.attr == "handle" and len(c.args) == 1

    gm = GuardModel(fi.node, is_handle)

    def find(sub: str) -> str | None:
        hits = [a for a in gm.atoms if sub in a]
        return hits[0] if len(hits) >= 1 else None

    a_seen = find("maybe_seen(")
    a_auth = find(".authoritative")
    a_dup = find("is_message_processed(")
    a_enabled = find("enable_deduplication")
    a_id = next((a for a in gm.atoms if "message_id" in a and a.endswith("is not None") and "_store" not in a), None)
    a_trust = None
    for a in gm.atoms:
        if "dedup_trust_negative_cache" in a:
            a_trust = a
    missing = [n for n, a in (("maybe_seen", a_seen), ("authoritative", a_auth), ("is_message_processed", a_dup), ("enable_deduplication", a_enabled), ("trust flag", a_trust)) if a is None]
    if missing:
        rep.fail(rid, "_handle_message dedup guard", f"guard atoms not found: {missing} (atoms: {gm.atoms})", fi.file, fi.node.lineno, disc="atoms")
        return
    rows = 0
    bad = []
    reach_any = False
    for env, reaches in gm.table():
        rows += 1
        # environment constraints: dedup on, id present, store configured, handler registered
        if not env.get(a_enabled, True):
            continue
        if a_id is not None and not env.get(a_id, True):
            continue
        skip = False
        for a in gm.atoms:
            if "_handlers" in a and a.endswith("is None") and env[a]:
                skip = True
            if "_store is not None" in a and not env[a]:
                skip = True
        if skip:
            continue
        if reaches:
            reach_any = True
            allowed = (not env[a_seen] and env[a_trust] and env[a_auth]) or (not env[a_dup])
            if not allowed:
                bad.append({k: v for k, v in env.items() if k in (a_seen, a_trust, a_auth, a_dup)})
    rep.count(truth_table_rows=rows, guard_atoms=len(gm.atoms))
    rep.check(reach_any, rid, "_handle_message reaches handler.handle", "dispatch reachable under some assignment", fi.file, fi.node.lineno, disc="reach")
    rep.check(not bad, rid, "_handle_message dedup guard", "handler.handle is reached only when the store said 'not processed' or the filter is trusted, authoritative and negative"
              if not bad else f"handler.handle reachable although the message is durably processed: {bad[:2]}", fi.file, fi.node.lineno, disc="implication")
    # a positive answer returns before dispatch: covered by the table (dup=True never reaches unless fast path)
    # the store consultation must precede dispatch textually in the same function
    handle_line = min((c.lineno for c in ast.walk(fi.node) if isinstance(c, ast.Call) and is_handle(c)), default=0)
    dup_line = min((c.lineno for c in ast.walk(fi.node) if isinstance(c, ast.Call) and isinstance(c.func, ast.Attribute) and c.func.attr == "is_message_processed"), default=0)
    rep.check(0 < dup_line < handle_line, rid, "store consulted before dispatch", f"is_message_processed at line {dup_line}, handle at line {handle_line}", fi.file, handle_line, disc="order")
    # unregistered type raises (never acked silently)
    raises = [n for n in ast.walk(fi.node) if isinstance(n, ast.If) and any("_handlers" in a and a.endswith("is None") for a in _atoms_of(n.test, gm.aliases))
              and any(isinstance(s, ast.Raise) for s in n.body)]
    rep.check(bool(raises), rid, "unregistered message type raises", "no handler -> raise (message is retried into the DLQ, never consumed silently)", fi.file, raises[0].lineno if raises else fi.node.lineno, disc="no-handler")


def post_mark_rule(ctx, rep, rid: str) -> None:
    """After the handler returned, the processor's own durable mark is reached whenever dedup is on, the message has an id and a
    store is configured - independent of the handler's kind. (Handler paths that commit without a mark rely on it: re-queue,
    re-poll, transient retry, several error branches.)"""
    prog = ctx.prog
    fi = prog.func("stabilize.queue.processor.mixins", "QueueProcessorMixin._handle_message")
    handle_line = min((c.lineno for c in ast.walk(fi.node) if isinstance(c, ast.Call) and isinstance(c.func, ast.Attribute) and c.func.attr == "handle" and len(c.args) == 1), default=0)

    def is_post_mark(c: ast.Call) -> bool:
        return isinstance(c.func, ast.Attribute) and c.func.attr == "mark_message_processed" and c.lineno > handle_line

    # model only the statements after the dispatch
    tail = [s_ for s_ in fi.node.body if s_.lineno > handle_line]
    if not tail or not handle_line:
        rep.fail(rid, "processor post-mark", "statements after handler.handle not found", fi.file, fi.node.lineno, disc="post-mark-shape")
        return
    fake = ast.FunctionDef(name="tail", args=fi.node.args, body=tail, decorator_list=[], lineno=tail[0].lineno)
    # aliases must come from the whole function
    gm_full = GuardModel(fi.node, is_post_mark)
    gm = GuardModel(fake, is_post_mark)
    gm.aliases = gm_full.aliases
    gm.atoms = []
    for n in ast.walk(fake):
        if isinstance(n, ast.If):
            for a in _atoms_of(n.test, gm.aliases):
                if a not in gm.atoms:
                    gm.atoms.append(a)
    env_req = {}
    for a in gm.atoms:
        if "enable_deduplication" in a or ("message_id" in a and a.endswith("is not None")) or ("_store" in a and a.endswith("is not None")):
            env_req[a] = True
    free = [a for a in gm.atoms if a not in env_req]
    bad = []
    rows = 0
    try:
        for bits in itertools.product([False, True], repeat=len(free)):
            env = dict(env_req)
            env.update(dict(zip(free, bits)))
            rows += 1
            if not gm.reaches(env):
                bad.append({k: v for k, v in env.items() if k in free})
    except AnalysisError as e:
        rep.fail(rid, "processor post-mark", f"guard model: {e}", fi.file, handle_line, disc="post-mark-model")
        return
    rep.count(post_mark_rows=rows)
    rep.check(not bad, rid, "processor marks every handled message", "after handler.handle the durable mark is written whenever dedup is on, the id is known and a store exists"
              if not bad else f"the processor's mark is skipped under {bad[:2]}: handler paths that commit without their own mark (re-poll, retry, re-queue) are re-executed on redelivery",
              fi.file, handle_line, disc="post-mark")
