"""E1 - resolved program model of /repo/src/stabilize (stdlib ast only).

Parses every file under <repo>/src/stabilize on every run, indexes modules,
classes (with a linearised MRO through imports), functions (methods, module
functions, nested closures) and import aliases. Nothing is imported or run.
"""
from __future__ import annotations

import ast
import hashlib
import os
from dataclasses import dataclass, field

from . import canon


class AnalysisError(Exception):
    """The analysis itself cannot proceed (anchor vanished, idiom unknown)."""


@dataclass
class FuncInfo:
    name: str
    qualname: str            # module-relative: Class.method / func / func.inner
    module: "Module"
    node: ast.FunctionDef
    cls: "ClassInfo | None" = None
    parent: "FuncInfo | None" = None

    @property
    def file(self) -> str:
        return self.module.relpath

    @property
    def fq(self) -> str:
        return f"{self.module.name}:{self.qualname}"

    def __hash__(self) -> int:
        return id(self)

    def __eq__(self, other: object) -> bool:
        return self is other

    def __repr__(self) -> str:
        return f"<{type(self).__name__} {getattr(self, 'fq', None) or self.name}>"


@dataclass
class ClassInfo:
    name: str
    module: "Module"
    node: ast.ClassDef
    methods: dict[str, FuncInfo] = field(default_factory=dict)
    base_exprs: list[ast.expr] = field(default_factory=list)

    @property
    def fq(self) -> str:
        return f"{self.module.name}:{self.name}"

    def __hash__(self) -> int:
        return id(self)

    def __eq__(self, other: object) -> bool:
        return self is other

    def __repr__(self) -> str:
        return f"<{type(self).__name__} {getattr(self, 'fq', None) or self.name}>"


@dataclass
class Module:
    name: str                # dotted, e.g. stabilize.handlers.base
    path: str                # absolute
    relpath: str             # relative to repo root
    tree: ast.Module
    source: str
    is_package: bool
    imports: dict[str, tuple[str, str | None]] = field(default_factory=dict)
    functions: dict[str, FuncInfo] = field(default_factory=dict)
    classes: dict[str, ClassInfo] = field(default_factory=dict)
    assigns: dict[str, ast.expr] = field(default_factory=dict)  # module-level NAME = expr

    def __hash__(self) -> int:
        return id(self)

    def __eq__(self, other: object) -> bool:
        return self is other

    def __repr__(self) -> str:
        return f"<{type(self).__name__} {getattr(self, 'fq', None) or self.name}>"


class Program:
    def __init__(self, repo: str = "/repo", package: str = "stabilize") -> None:
        self.repo = os.path.abspath(repo)
        self.pkg_root = os.path.join(self.repo, "src", package)
        self.package = package
        self.modules: dict[str, Module] = {}
        self.by_relpath: dict[str, Module] = {}
        self.parse_failures: list[str] = []
        self._load()

    # ------------------------------------------------------------------ load
    def _load(self) -> None:
        if not os.path.isdir(self.pkg_root):
            raise AnalysisError(f"package root missing: {self.pkg_root}")
        h = hashlib.sha256()
        for dirpath, dirnames, filenames in os.walk(self.pkg_root):
            dirnames.sort()
            dirnames[:] = [d for d in dirnames if d != "__pycache__"]
            for fn in sorted(filenames):
                if not fn.endswith(".py"):
                    continue
                path = os.path.join(dirpath, fn)
                rel = os.path.relpath(path, self.repo)
                with open(path, encoding="utf-8") as fh:
                    src = fh.read()
                h.update(rel.encode())
                h.update(src.encode())
                try:
                    tree = ast.parse(src, filename=path)
                except SyntaxError as e:  # a file that does not parse fails the run
                    self.parse_failures.append(f"{rel}: {e}")
                    continue
                sub = os.path.relpath(path, os.path.join(self.repo, "src"))[:-3]
                parts = sub.split(os.sep)
                is_pkg = parts[-1] == "__init__"
                if is_pkg:
                    parts = parts[:-1]
                name = ".".join(parts)
                # locals are alpha-renamed to the reviewed tree's names (sa/canon.py): a renamed variable changes no verdict
                canon.normalise_comparisons(tree)   # not (a in b) == a not in b, ...
                canon.normalise_ifs(tree)   # canonical if/else form: no else after a leaving branch, positive tests
                canon.canonicalise(tree, name)
                canon.assign_order(tree)
                mod = Module(name, path, rel, tree, src, is_pkg)
                self.modules[name] = mod
                self.by_relpath[rel] = mod
        self.digest = h.hexdigest()
        if self.parse_failures:
            raise AnalysisError("files do not parse: " + "; ".join(self.parse_failures))
        for mod in self.modules.values():
            self._index(mod)

    def _index(self, mod: Module) -> None:
        def abs_module(level: int, module: str | None) -> str:
            if level == 0:
                return module or ""
            base = mod.name.split(".")
            if not mod.is_package:
                base = base[:-1]
            if level > 1:
                base = base[: len(base) - (level - 1)]
            return ".".join(base + ([module] if module else []))

        def visit_imports(stmts: list[ast.stmt]) -> None:
            for st in stmts:
                if isinstance(st, ast.Import):
                    for a in st.names:
                        mod.imports[a.asname or a.name.split(".")[0]] = (a.name if a.asname else a.name.split(".")[0], None)
                elif isinstance(st, ast.ImportFrom):
                    m = abs_module(st.level, st.module)
                    for a in st.names:
                        mod.imports[a.asname or a.name] = (m, a.name)
                elif isinstance(st, ast.If):
                    visit_imports(st.body)
                    visit_imports(st.orelse)
                elif isinstance(st, ast.Try):
                    visit_imports(st.body)

        visit_imports(mod.tree.body)

        def index_func(node: ast.FunctionDef, qual: str, cls: ClassInfo | None, parent: FuncInfo | None) -> FuncInfo:
            fi = FuncInfo(node.name, qual, mod, node, cls, parent)
            return fi

        for st in mod.tree.body:
            if isinstance(st, (ast.FunctionDef, ast.AsyncFunctionDef)):
                mod.functions[st.name] = index_func(st, st.name, None, None)
            elif isinstance(st, ast.ClassDef):
                ci = ClassInfo(st.name, mod, st, {}, list(st.bases))
                for b in self._class_body(st):
                    if isinstance(b, (ast.FunctionDef, ast.AsyncFunctionDef)):
                        # keep the last definition; for properties keep the getter
                        decs = [ast.unparse(d) for d in b.decorator_list]
                        if any(d.endswith(".setter") or d.endswith(".deleter") for d in decs):
                            continue
                        ci.methods[b.name] = index_func(b, f"{st.name}.{b.name}", ci, None)
                mod.classes[st.name] = ci
            elif isinstance(st, ast.Assign) and len(st.targets) == 1 and isinstance(st.targets[0], ast.Name):
                mod.assigns[st.targets[0].id] = st.value
            elif isinstance(st, ast.AnnAssign) and isinstance(st.target, ast.Name) and st.value is not None:
                mod.assigns[st.target.id] = st.value

    @staticmethod
    def _class_body(node: ast.ClassDef) -> list[ast.stmt]:
        out: list[ast.stmt] = []
        for b in node.body:
            if isinstance(b, ast.If):  # `if TYPE_CHECKING:` stubs are not behaviour
                continue
            out.append(b)
        return out

    # --------------------------------------------------------------- resolve
    def module(self, name: str) -> Module:
        if name not in self.modules:
            raise AnalysisError(f"module not found: {name}")
        return self.modules[name]

    def file(self, relpath: str) -> Module:
        rel = relpath if relpath.startswith("src/") else os.path.join("src", self.package, relpath)
        if rel not in self.by_relpath:
            raise AnalysisError(f"file not found: {rel}")
        return self.by_relpath[rel]

    def resolve(self, mod: Module, name: str, _seen: frozenset = frozenset()) -> ClassInfo | FuncInfo | Module | None:
        """Resolve a module-level name to what it denotes, following imports/re-exports."""
        key = (mod.name, name)
        if key in _seen:
            return None
        _seen = _seen | {key}
        if name in mod.classes:
            return mod.classes[name]
        if name in mod.functions:
            return mod.functions[name]
        if name in mod.imports:
            m, attr = mod.imports[name]
            if attr is None:
                return self.modules.get(m)
            target = self.modules.get(m)
            if target is None:
                return None
            sub = self.modules.get(f"{m}.{attr}")
            r = self.resolve(target, attr, _seen)
            if r is not None:
                return r
            return sub
        return None

    def resolve_expr(self, mod: Module, expr: ast.expr) -> ClassInfo | FuncInfo | Module | None:
        if isinstance(expr, ast.Name):
            return self.resolve(mod, expr.id)
        if isinstance(expr, ast.Attribute):
            base = self.resolve_expr(mod, expr.value)
            if isinstance(base, Module):
                return self.resolve(base, expr.attr)
            if isinstance(base, ClassInfo):
                return self.find_method(base, expr.attr)
        if isinstance(expr, ast.Subscript):  # Generic[...] bases
            return self.resolve_expr(mod, expr.value)
        return None

    def mro(self, cls: ClassInfo) -> list[ClassInfo]:
        out: list[ClassInfo] = []
        seen: set[int] = set()

        def walk(c: ClassInfo) -> None:
            if id(c) in seen:
                return
            seen.add(id(c))
            out.append(c)
            for b in c.base_exprs:
                r = self.resolve_expr(c.module, b)
                if isinstance(r, ClassInfo):
                    walk(r)

        walk(cls)
        return out

    def find_method(self, cls: ClassInfo, name: str) -> FuncInfo | None:
        for c in self.mro(cls):
            if name in c.methods:
                return c.methods[name]
        return None

    def subclasses_of(self, base_name: str) -> list[ClassInfo]:
        out = []
        for m in self.modules.values():
            for c in m.classes.values():
                if c.name != base_name and any(x.name == base_name for x in self.mro(c)):
                    out.append(c)
        return out

    def cls(self, modname: str, clsname: str) -> ClassInfo:
        m = self.module(modname)
        if clsname not in m.classes:
            raise AnalysisError(f"class {clsname} not found in {modname}")
        return m.classes[clsname]

    def func(self, modname: str, qual: str) -> FuncInfo:
        """module function `f`, method `C.m`, or nested `C.m.inner` / `f.inner`."""
        m = self.module(modname)
        parts = qual.split(".")
        cur: FuncInfo | None = None
        if parts[0] in m.classes:
            ci = m.classes[parts[0]]
            if len(parts) == 1:
                raise AnalysisError(f"{qual} is a class")
            cur = ci.methods.get(parts[1])
            rest = parts[2:]
        else:
            cur = m.functions.get(parts[0])
            rest = parts[1:]
        if cur is None:
            raise AnalysisError(f"function {qual} not found in {modname}")
        for p in rest:
            nxt = None
            for n in ast.walk(cur.node):
                if isinstance(n, (ast.FunctionDef, ast.AsyncFunctionDef)) and n.name == p and n is not cur.node:
                    nxt = FuncInfo(p, f"{cur.qualname}.{p}", m, n, cur.cls, cur)
                    break
            if nxt is None:
                raise AnalysisError(f"nested function {p} not found in {modname}:{cur.qualname}")
            cur = nxt
        return cur

    def all_functions(self):
        """Yield every FuncInfo (module functions, methods); nested defs are reached via their parents."""
        for m in self.modules.values():
            yield from m.functions.values()
            for c in m.classes.values():
                yield from c.methods.values()


def loc(fi_or_mod, node: ast.AST) -> str:
    rel = fi_or_mod.file if isinstance(fi_or_mod, FuncInfo) else fi_or_mod.relpath
    return f"{rel}:{getattr(node, 'lineno', 0)}"


def norm(node: ast.AST | str) -> str:
    """Normalised statement/expression text (line-number free key)."""
    s = node if isinstance(node, str) else ast.unparse(node)
    return " ".join(s.split())
