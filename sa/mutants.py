"""Seeded variants for ./check selftest: (id, property, kind, edits[(relpath, old, new)], expect_rule?)."""

H = "src/stabilize/handlers/"
CASES = []


def case(cid, prop, kind, edits, expect_rule=None, patch=None):
    CASES.append({"id": cid, "property": prop, "kind": kind, "edits": edits, "expect_rule": expect_rule, "patch": patch})


# ------------------------------------------------------------------ C01
case("c01-push-outside-txn", "C01", "mutant", [(H + "start_task.py", """                txn.push_message(
                    RunTask(
                        execution_type=message.execution_type,
                        execution_id=message.execution_id,
                        stage_id=message.stage_id,
                        task_id=message.task_id,
                        task_type=task_model.implementing_class,
                    )
                )
                # Recorded inside the transaction""", """                pass
            self.queue.push(
                RunTask(
                    execution_type=message.execution_type,
                    execution_id=message.execution_id,
                    stage_id=message.stage_id,
                    task_id=message.task_id,
                    task_type=task_model.implementing_class,
                )
            )
            if True:
                # Recorded inside the transaction""")], "C01.R1")
case("c01-mark-in-claim-txn", "C01", "mutant", [(H + "start_stage/handler.py", """                txn.store_stage(stage, expected_phase=claim_expected_phase)
""", """                txn.store_stage(stage, expected_phase=claim_expected_phase)
                txn.mark_message_processed(message_id=message.message_id, handler_type="StartStage", execution_id=message.execution_id)
""")], "C01.R1.SEQ1")
case("c01-autocommit-inside-txn", "C01", "mutant", [(H + "skip_stage.py", """            with self.repository.transaction(self.queue) as txn:
                txn.store_stage(stage)

                # Recorded inside the transaction""", """            with self.repository.transaction(self.queue) as txn:
                txn.store_stage(stage)
                self.repository.store_stage(stage)

                # Recorded inside the transaction""")], "C01.R2")
case("c01-commit-in-atomic-push", "C01", "mutant", [("src/stabilize/persistence/sqlite/transaction.py", """                "max_attempts": getattr(message, "max_attempts", 10),
            },
        )
""", """                "max_attempts": getattr(message, "max_attempts", 10),
            },
        )
        self._conn.commit()
""")], "C01.R2.SEQ4")
case("c01-recovery-drop-starttask-branch", "C01", "mutant", [("src/stabilize/recovery.py", """                elif not_started_tasks and stage.start_time is not None:""", """                elif False and not_started_tasks and stage.start_time is not None:""")], None)
case("c01-expected-phase-hardwired", "C01", "mutant", [(H + "start_stage/handler.py", """            claim_expected_phase = "RUNNING"
""", """            claim_expected_phase = "NOT_STARTED"
""")], "C01.R4")
case("c01-lock-conjunct-dropped", "C01", "mutant", [("src/stabilize/queue/sqlite/queue.py", """            AND (locked_until IS NULL OR datetime(locked_until) < datetime('now', 'utc'))
            AND attempts < :max_attempts""", """            AND locked_until IS NULL
            AND attempts < :max_attempts""")], "C01.R5")
case("c01-complete-stage-mark-deleted-afterstages", "C01", "mutant", [(H + "complete_stage/handler.py", """                            txn.store_stage(stage)
                            if message.message_id:
                                txn.mark_message_processed(
                                    message_id=message.message_id,
                                    handler_type="CompleteStage",
                                    execution_id=message.execution_id,
                                )
                            for s in not_started:""", """                            txn.store_stage(stage)
                            for s in not_started:""")], "C01.R1.SEQ5")
case("c01-refactor-txn-body-helper", "C01", "refactor", [(H + "cancel_stage.py", """                # Message deduplication
                if message.message_id:
                    txn.mark_message_processed(
                        message_id=message.message_id,
                        handler_type="CancelStage",
                        execution_id=message.execution_id,
                    )

            if self.event_recorder:""", """                def _mark(t):
                    if message.message_id:
                        t.mark_message_processed(
                            message_id=message.message_id,
                            handler_type="CancelStage",
                            execution_id=message.execution_id,
                        )

                _mark(txn)

            if self.event_recorder:""")])
case("c01-refactor-reorder-in-txn", "C01", "refactor", [(H + "skip_stage.py", """            with self.repository.transaction(self.queue) as txn:
                txn.store_stage(stage)

                # Recorded inside the transaction""", """            with self.repository.transaction(self.queue) as txn:
                if message.message_id:
                    txn.mark_message_processed(
                        message_id=message.message_id,
                        handler_type="SkipStage",
                        execution_id=message.execution_id,
                    )
                txn.store_stage(stage)

                # Recorded inside the transaction"""), (H + "skip_stage.py", """                # Message deduplication
                if message.message_id:
                    txn.mark_message_processed(
                        message_id=message.message_id,
                        handler_type="SkipStage",
                        execution_id=message.execution_id,
                    )

                if downstream_stages:""", """                if downstream_stages:""")])
case("c01-refactor-alias-queue", "C01", "refactor", [(H + "complete_workflow.py", """        self.queue.push(new_message, self.retry_delay)
        return None""", """        q = self.queue
        q.push(new_message, self.retry_delay)
        return None""")])

# ------------------------------------------------------------------ C02
case("c02-guard-inverted-starttask", "C02", "mutant", [(H + "start_task.py", "if task_model.status != WorkflowStatus.NOT_STARTED:", "if task_model.status == WorkflowStatus.NOT_STARTED:")], "C02.R2")
case("c02-guard-deleted-completetask", "C02", "mutant", [(H + "complete_task.py", "if task.status != WorkflowStatus.RUNNING:", "if False:")], "C02.R2")
case("c02-runtask-guard-weakened", "C02", "mutant", [(H + "run_task/handler.py", "            if task_model.status != WorkflowStatus.RUNNING:\n                if task_model.status.is_complete:", "            if task_model.status.is_complete:\n                if task_model.status.is_complete:")], "C02.R2")
case("c02-dedup-check-skipped-when-seen", "C02", "mutant", [("src/stabilize/queue/processor/mixins.py", "if dedup.maybe_seen(message_id) or not (trust_negative and dedup.authoritative):", "if dedup.maybe_seen(message_id) and not (trust_negative and dedup.authoritative):")], "C02.R1")
case("c02-second-dispatcher", "C02", "mutant", [("src/stabilize/queue/processor/processor.py", """            try:
                self._handle_message(message)
                self.queue.ack(message)
                return True""", """            try:
                self._handlers[type(message)].handle(message)
                self.queue.ack(message)
                return True""")], "C02.R1")
case("c02-skipstage-guard-notin", "C02", "refactor", [(H + "skip_stage.py", "if stage.status != WorkflowStatus.NOT_STARTED:", "if stage.status not in {WorkflowStatus.NOT_STARTED}:")])
case("c02-completetask-guard-demorgan", "C02", "refactor", [(H + "complete_task.py", "if task.status != WorkflowStatus.RUNNING:", "if not (task.status == WorkflowStatus.RUNNING):")])

# ------------------------------------------------------------------ C09
case("c09-bloom-skip-last-position", "C09", "mutant", [("src/stabilize/queue/dedup.py", """        with self._lock:
            for pos in positions:
                self._set_bit(pos)
            self._items_added += 1

    def reset""", """        with self._lock:
            for pos in positions[:-1]:
                self._set_bit(pos)
            self._items_added += 1

    def reset""")], "C09.R2")
case("c09-reset-keeps-authority", "C09", "mutant", [("src/stabilize/queue/dedup.py", """            self._creation_time = time.monotonic()
            self._authoritative = False
""", """            self._creation_time = time.monotonic()
""")], "C09.R3")
case("c09-truncation-guard-off-by-one", "C09", "mutant", [("src/stabilize/queue/processor/mixins.py", "ids = self._store.get_processed_message_ids(limit=capacity + 1)", "ids = self._store.get_processed_message_ids(limit=capacity)")], "C09.R3")
case("c09-trust-without-authority", "C09", "mutant", [("src/stabilize/queue/processor/mixins.py", "or not (trust_negative and dedup.authoritative):", "or not trust_negative:")], "C09.R1")
case("c09-time-salted-hash", "C09", "mutant", [("src/stabilize/queue/dedup.py", "h1 = int(hashlib.md5(item_bytes).hexdigest(), 16)", "h1 = int(hashlib.md5(item_bytes).hexdigest(), 16) + int(self._creation_time)")], "C09.R2")
case("c09-refactor-rename-pos", "C09", "refactor", [("src/stabilize/queue/dedup.py", """        with self._lock:
            for pos in positions:
                self._set_bit(pos)
            self._items_added += 1

    def reset""", """        with self._lock:
            for p in positions:
                self._set_bit(p)
            self._items_added += 1

    def reset""")])

# ------------------------------------------------------------------ C07
P = "src/stabilize/persistence/sqlite/"
case("c07-version-conjunct-dropped", "C07", "mutant", [(P + "transaction.py", """                        version = version + 1
                    WHERE id = :id AND version = :version
                    \"\"\",""", """                        version = version + 1
                    WHERE id = :id
                    \"\"\",""")], "C07.R1")
case("c07-rowcount-check-returns", "C07", "mutant", [(P + "store/stage_ops.py", """                raise ConcurrencyError(f"Optimistic lock failed for stage {stage.id} (version {stage.version})")""", """                return""")], "C07.R1")
case("c07-task-integrity-swallowed", "C07", "mutant", [(P + "helpers.py", """            raise ConcurrencyError(f"Task {task.id} was modified concurrently (expected version {task.version})")""", """            pass""")], "C07.R1")
case("c07-join-tracking-swallow", "C07", "mutant", [(H + "complete_stage/split_logic.py", """                    except ConcurrencyError:
                        if attempt == max_retries - 1:
                            raise

            elif downstream.join_type == JoinType.N_OF_M:""", """                    except ConcurrencyError:
                        pass

            elif downstream.join_type == JoinType.N_OF_M:""")], "C07.R4")
case("c07-stale-object-in-retry", "C07", "mutant", [(H + "run_task/error.py", """        # Atomic: store stage + mark processed + push CompleteTask together
        txn_helper.execute_atomic_critical(
            stage=fresh_stage,
            source_message=message,
            messages_to_push=[
                (
                    CompleteTask(
                        execution_type=message.execution_type,
                        execution_id=message.execution_id,
                        stage_id=message.stage_id,
                        task_id=message.task_id,
                        status=WorkflowStatus.TERMINAL,
                    ),""", """        # Atomic: store stage + mark processed + push CompleteTask together
        txn_helper.execute_atomic_critical(
            stage=stage,
            source_message=message,
            messages_to_push=[
                (
                    CompleteTask(
                        execution_type=message.execution_type,
                        execution_id=message.execution_id,
                        stage_id=message.stage_id,
                        task_id=message.task_id,
                        status=WorkflowStatus.TERMINAL,
                    ),""")], "C07.R3")
case("c07-new-writer-of-stage-table", "C07", "mutant", [(P + "operations.py", """    conn.commit()


def is_message_processed(""", """    conn.execute("UPDATE stage_executions SET status = 'CANCELED' WHERE execution_id = :id", {"id": execution_id})
    conn.commit()


def is_message_processed(""")], "C07.R")
case("c07-rollback-versions-not-called", "C07", "mutant", [(P + "store/store.py", """            txn.rollback_versions()
""", """            pass
""")], "C07.R5")
case("c07-refactor-rename-cursor", "C07", "refactor", [(P + "helpers.py", """    cursor = conn.execute(
        \"\"\"
        UPDATE task_executions SET""", """    cur_ = conn.execute(
        \"\"\"
        UPDATE task_executions SET"""), (P + "helpers.py", "    if cursor.rowcount == 0:\n        # Row doesn't exist", "    if cur_.rowcount == 0:\n        # Row doesn't exist")])
case("c07-refactor-sql-whitespace-case", "C07", "refactor", [(P + "store/stage_ops.py", """                    WHERE id = :id AND version = :version
                    \"\"\",
                    {
                        "id": stage.id,
                        "status": stage.status.name,
                        "context": json.dumps(stage.context, default=str),
                        "outputs": json.dumps(stage.outputs, default=str),
                        "start_time": stage.start_time,
                        "end_time": stage.end_time,
                        "version": stage.version,
                    },""", """                    where  id=:id
                      and version=:version
                    \"\"\",
                    {
                        "id": stage.id,
                        "status": stage.status.name,
                        "context": json.dumps(stage.context, default=str),
                        "outputs": json.dumps(stage.outputs, default=str),
                        "start_time": stage.start_time,
                        "end_time": stage.end_time,
                        "version": stage.version,
                    },""")])

# ------------------------------------------------------------------ C08
QS = "src/stabilize/queue/sqlite/"
case("c08-claim-version-conjunct-dropped", "C08", "mutant", [(QS + "queue.py", "            WHERE id = :id AND version = :version\n            \"\"\",\n            {\n                \"id\": msg_id,", "            WHERE id = :id\n            \"\"\",\n            {\n                \"id\": msg_id,")], "C08.R1")
case("c08-lost-race-continues", "C08", "mutant", [(QS + "queue.py", """            logger.debug("Lost race for message %s, will retry", msg_id)
            return None""", """            logger.debug("Lost race for message %s, will retry", msg_id)""")], "C08.R1")
case("c08-dlq-move-two-commits", "C08", "mutant", [(QS + "dlq.py", """        row = cursor.fetchone()

        if not row:
            logger.warning("Message %s not found for DLQ move", msg_id)""", """        row = cursor.fetchone()
        conn.commit()

        if not row:
            logger.warning("Message %s not found for DLQ move", msg_id)""")], "C08.R2")
case("c08-ack-in-finally", "C08", "mutant", [("src/stabilize/queue/processor/processor.py", """            finally:
                if heartbeat_stop is not None:
                    heartbeat_stop.set()""", """            finally:
                self.queue.ack(message)
                if heartbeat_stop is not None:
                    heartbeat_stop.set()""")], "C08.R3")
case("c08-reschedule-resets-attempts", "C08", "mutant", [(QS + "queue.py", """            SET deliver_at = :deliver_at,
                locked_until = NULL""", """            SET deliver_at = :deliver_at,
                attempts = 0,
                locked_until = NULL""")], "C08.R3")
case("c08-corrupt-message-acked", "C08", "mutant", [(QS + "queue.py", """            self.move_to_dlq(
                msg_id,
                error=f"Deserialization failed for message type: {msg_type}",
            )
            return None""", """            conn.execute(f"DELETE FROM {self.table_name} WHERE id = :id", {"id": msg_id})
            conn.commit()
            return None""")], "C08.R")
case("c08-sweep-not-called-from-poll-loop", "C08", "mutant", [("src/stabilize/queue/processor/processor.py", """                    last_dlq_check = time.monotonic()
                    self._check_dlq()""", """                    last_dlq_check = time.monotonic()""")], "C08.R4")
case("c08-sweep-uses-column-only", "C08", "mutant", [(QS + "dlq.py", "WHERE attempts >= max_attempts OR attempts >= :queue_max_attempts", "WHERE attempts >= max_attempts")], "C08.R5")
case("c08-unhandled-type-returns", "C08", "mutant", [("src/stabilize/queue/processor/mixins.py", """            raise RuntimeError(f"No handler registered for {get_message_type_name(message)}")""", """            logger.error("No handler registered for %s", get_message_type_name(message))
            return""")], "C08.R6")
case("c08-replay-alters-payload", "C08", "mutant", [(QS + "dlq.py", """                "message_type": row["message_type"],
                "payload": row["payload"],
            },
        )
        conn.commit()

        logger.info("Replayed""", """                "message_type": row["message_type"],
                "payload": "{}",
            },
        )
        conn.commit()

        logger.info("Replayed""")], "C08.R2")

# ------------------------------------------------------------------ C06
case("c06-direct-write-bypasses-validation", "C06", "mutant", [(H + "cancel_stage.py", "            self.set_stage_status(stage, WorkflowStatus.CANCELED)", "            stage.status = WorkflowStatus.CANCELED"),
                                                                 (H + "cancel_stage.py", "            if stage.status.is_complete:", "            if stage.status.is_halt:")], "C06.R2")
case("c06-suspend-guard-removed", "C06", "mutant", [(H + "run_task/result.py", "    if task_model.status != WorkflowStatus.RUNNING or stage.status != WorkflowStatus.RUNNING:", "    if False:")], "C06.R2")
case("c06-completed-gets-successor", "C06", "mutant", [("src/stabilize/models/status.py", "    WorkflowStatus.SUCCEEDED: frozenset(),", "    WorkflowStatus.SUCCEEDED: frozenset({WorkflowStatus.RUNNING}),")], "C06.R1")
case("c06-setter-assigns-before-validate", "C06", "mutant", [(H + "base.py", """        validate_transition(
            task.status,
            new_status,
            entity_type="task",
            entity_id=task.id,
        )
        task.status = new_status""", """        task.status = new_status""")], "C06.R")
case("c06-new-status-writer-sql", "C06", "mutant", [("src/stabilize/persistence/sqlite/operations.py", """            is_canceled = 1,
            canceled_by = :canceled_by,""", """            is_canceled = 1,
            status = 'CANCELED',
            canceled_by = :canceled_by,""")], "C06.R3")
case("c06-rearm-from-other-handler", "C06", "mutant", [(H + "signal_stage.py", """                # WCP-24: Buffer the signal for later consumption""", """                from stabilize.handlers.jump_to_stage.reset import reset_stage_for_retry
                reset_stage_for_retry(stage)
                # WCP-24: Buffer the signal for later consumption""")], "C06.R2")
case("c06-refactor-direct-write-under-guard", "C06", "refactor", [(H + "signal_stage.py", "                self.set_stage_status(stage, WorkflowStatus.RUNNING)", "                stage.status = WorkflowStatus.RUNNING")])

# ------------------------------------------------------------------ C04 / C11
SS = H + "start_stage/handler.py"
case("c04-plan-before-claim", "C04", "mutant", [(SS, """        if stage.status == WorkflowStatus.RUNNING:
            claim_expected_phase = "RUNNING"
        else:""", """        self._plan_stage(stage)
        if stage.status == WorkflowStatus.RUNNING:
            claim_expected_phase = "RUNNING"
        else:""")], "C04.R1")
case("c04-claim-without-expected-phase", "C04", "mutant", [(SS, "txn.store_stage(stage, expected_phase=claim_expected_phase)", "txn.store_stage(stage)")], "C04.R")
case("c04-loser-falls-through", "C04", "mutant", [(SS, """            logger.debug(
                "Ignoring duplicate StartStage for %s (concurrent claim)",
                stage.name,
            )
            return
""", """            logger.debug(
                "Ignoring duplicate StartStage for %s (concurrent claim)",
                stage.name,
            )
""")], "C04.R")
case("c04-phase-conjunct-dropped", "C04", "mutant", [("src/stabilize/persistence/sqlite/transaction.py", "WHERE id = :id AND version = :version AND status = :expected_phase", "WHERE id = :id AND version = :version")], "C04.R3")
case("c04-join-fired-not-set-nofm", "C04", "mutant", [(SS, """        if stage.join_type == JoinType.N_OF_M:
            stage.context["_join_fired"] = True""", """        if stage.join_type == JoinType.N_OF_M:
            pass""")], "C04.R4")
case("c04-fired-discriminator-ready-again", "C04", "mutant", [("src/stabilize/dag/readiness.py", """        return ReadinessResult(
            phase=PredicatePhase.NOT_READY,
            reason="Discriminator already fired, ignoring subsequent completions",
        )""", """        pass""")], "C04.R4")
case("c04-refactor-rename-claim-var", "C04", "refactor", [(SS, """            claim_expected_phase = "RUNNING"
        else:
            claim_expected_phase = "NOT_STARTED\"""", """            phase_ = "RUNNING"
        else:
            phase_ = "NOT_STARTED\""""), (SS, "txn.store_stage(stage, expected_phase=claim_expected_phase)", "txn.store_stage(stage, expected_phase=phase_)")])
case("c11-mutex-claim-outside-txn", "C11", "mutant", [(SS, """                if stage.mutex_key and not txn.acquire_claim(
                    message.execution_id,
                    f"mutex:{stage.mutex_key}",
                    stage.id,
                    steal_if_owner_terminal=True,
                ):
                    raise _ClaimBlockedError("mutex")
""", """                pass
""")], "C11.R")
case("c11-claim-after-store", "C11", "mutant", [(SS, """                txn.store_stage(stage, expected_phase=claim_expected_phase)
        except _ClaimBlockedError as blocked:""", """                txn.store_stage(stage, expected_phase=claim_expected_phase)
                txn.acquire_claim(message.execution_id, f"choice:{stage.deferred_choice_group}x", stage.id)
        except _ClaimBlockedError as blocked:""")], "C11.R1")
case("c11-steal-unconditional-update", "C11", "mutant", [("src/stabilize/persistence/sqlite/transaction.py", """                      AND claim_key = :claim_key
                      AND stage_id = :owner_id""", """                      AND claim_key = :claim_key""")], "C11.R3")
case("c11-steal-from-live-owner", "C11", "mutant", [("src/stabilize/persistence/sqlite/transaction.py", "            if owner_gone or owner_terminal:", "            if True:")], "C11.R3")
case("c11-sweep-all-claims", "C11", "mutant", [("src/stabilize/persistence/sqlite/operations.py", "    terminal = [s.name for s in WorkflowStatus if s.is_complete]", "    terminal = [s.name for s in WorkflowStatus]")], "C11.R4")
case("c11-choice-loser-plans", "C11", "mutant", [(SS, """                    txn.push_message(
                        CancelStage(
                            execution_type=message.execution_type,
                            execution_id=message.execution_id,
                            stage_id=message.stage_id,
                        )
                    )
            return
        except ConcurrencyError:""", """                    txn.push_message(
                        CancelStage(
                            execution_type=message.execution_type,
                            execution_id=message.execution_id,
                            stage_id=message.stage_id,
                        )
                    )
        except ConcurrencyError:""")], "C11.R2")
case("c11-siblings-not-cancelled", "C11", "mutant", [(SS, """        if stage.deferred_choice_group:
            self._cancel_deferred_choice_siblings(stage, message)""", """        if stage.deferred_choice_group and False:
            self._cancel_deferred_choice_siblings(stage, message)""")], "C11.R5")
case("c11-migration-loses-pk", "C11", "mutant", [("src/stabilize/persistence/sqlite/migrations.py", """                claimed_at TEXT NOT NULL DEFAULT (datetime('now', 'utc')),
                PRIMARY KEY (execution_id, claim_key)""", """                claimed_at TEXT NOT NULL DEFAULT (datetime('now', 'utc'))""")], "C11.R3")

# ------------------------------------------------------------------ C13
case("c13-event-before-txn-skipstage", "C13", "mutant", [(H + "skip_stage.py", """            execution = stage.execution
            downstream_stages = self.repository.get_downstream_stages(execution.id, stage.ref_id)""", """            if self.event_recorder:
                self.event_recorder.record_stage_skipped(stage, reason="Stage skipped", source_handler="SkipStageHandler")
            execution = stage.execution
            downstream_stages = self.repository.get_downstream_stages(execution.id, stage.ref_id)""")], "C13.R6")
case("c13-completetask-event-outside", "C13", "mutant", [(H + "complete_task.py", """            with self.repository.transaction(self.queue) as txn:
                txn.store_stage(stage)
                record_completion_event()

                # Atomic deduplication""", """            record_completion_event()
            with self.repository.transaction(self.queue) as txn:
                txn.store_stage(stage)

                # Atomic deduplication""")], "C13.R")
case("c13-completestage-branch-loses-event", "C13", "mutant", [(H + "complete_stage/handler.py", """                    with self.repository.transaction(self.queue) as txn:
                        txn.store_stage(stage)
                        self._record_completion_event(stage, status)

                        # Message deduplication""", """                    with self.repository.transaction(self.queue) as txn:
                        txn.store_stage(stage)

                        # Message deduplication""")], "C13.R5")
case("c13-publish-inside-scope", "C13", "mutant", [("src/stabilize/events/recorder/base.py", """                scope.pending.append(recorded)
            else:
                try:
                    get_event_bus().publish(recorded)""", """                scope.pending.append(recorded)
                get_event_bus().publish(recorded)
            else:
                try:
                    get_event_bus().publish(recorded)""")], "C13.R1")
case("c13-commit-scope-in-finally", "C13", "mutant", [("src/stabilize/persistence/sqlite/store/store.py", """            abort_store_transaction()
            raise
        commit_store_transaction()""", """            raise
        finally:
            commit_store_transaction()""")], "C13.R2")
case("c13-abort-publishes", "C13", "mutant", [("src/stabilize/events/txn_scope.py", """        logger.debug(
            "Dropped %d deferred event publication(s) after transaction rollback",
            len(scope.pending),
        )""", """        from stabilize.events.bus import get_event_bus
        for event in scope.pending:
            get_event_bus().publish(event)""")], "C13.R3")
case("c13-eventstore-always-commits", "C13", "mutant", [("src/stabilize/events/store/sqlite/events.py", """            if should_commit:
                conn.commit()

            return result_events""", """            conn.commit()

            return result_events""")], "C13.R4")
case("c13-refactor-event-after-mark", "C13", "refactor", [(H + "complete_stage/handler.py", """                        txn.store_stage(stage)
                        self._record_completion_event(stage, status)

                        # Message deduplication
                        if message.message_id:
                            txn.mark_message_processed(
                                message_id=message.message_id,
                                handler_type="CompleteStage",
                                execution_id=message.execution_id,
                            )
""", """                        txn.store_stage(stage)

                        # Message deduplication
                        if message.message_id:
                            txn.mark_message_processed(
                                message_id=message.message_id,
                                handler_type="CompleteStage",
                                execution_id=message.execution_id,
                            )
                        self._record_completion_event(stage, status)
""")])

# ------------------------------------------------------------------ C14
E14 = H + "run_task/error.py"
case("c14-counter-back-to-attempts", "C14", "mutant", [(E14, "current_attempts = message.retry_count or 0", "current_attempts = message.attempts or 0")], "C14.R")
case("c14-retry-not-incremented", "C14", "mutant", [(E14, "    retry_message.retry_count = next_attempt\n", "    retry_message.retry_count = current_attempts\n")], "C14.R2")
case("c14-guard-off-by-limit", "C14", "mutant", [(E14, "        if current_attempts + 1 < max_attempts:", "        if current_attempts + 1 < max_attempts or True:")], "C14.R1")
case("c14-retry-count-discarded", "C14", "mutant", [("src/stabilize/queue/sqlite/serialization.py", """    data.pop("max_attempts", None)
""", """    data.pop("max_attempts", None)
    data.pop("retry_count", None)
""")], "C14.R3")
case("c14-non-transient-retried", "C14", "mutant", [(E14, "    if is_transient(exception):\n        logger.info(", "    if is_transient(exception) or True:\n        logger.info(")], "C14.R1")
case("c14-progress-stored-separately", "C14", "mutant", [(E14, """            # Atomic: store stage with context update + push retry message
            txn_helper.execute_atomic(
                stage=fresh_stage,
                messages_to_push=[(retry_message, delay.total_seconds())],
                handler_name="RunTask",
            )""", """            repository.store_stage(fresh_stage)
            txn_helper.execute_atomic(
                messages_to_push=[(retry_message, delay.total_seconds())],
                handler_name="RunTask",
            )""")], "C14.R4")
case("c14-default-limit-changed", "C14", "mutant", [(E14, "max_attempts = message.max_attempts or 10", "max_attempts = message.max_attempts or 1000")], "C14.R1")
case("c14-refactor-rename-counter", "C14", "refactor", [(E14, "        current_attempts = message.retry_count or 0", "        failures = message.retry_count or 0"), (E14, "        if current_attempts + 1 < max_attempts:", "        if failures + 1 < max_attempts:"),
                                                          (E14, """                message,
                exception,
                current_attempts,
                max_attempts,""", """                message,
                exception,
                failures,
                max_attempts,""")])

# ------------------------------------------------------------------ C17 / C18 / C15
RT = H + "run_task/handler.py"
case("c17-cancel-check-after-execute-guard-removed", "C17", "mutant", [(RT, """            if execution.is_canceled:
                handle_cancellation(""", """            if False and execution.is_canceled:
                handle_cancellation(""")], "C17.R")
case("c17-cancelworkflow-flag-after-fanout", "C17", "mutant", [(H + "workflow_control.py", """            self.repository.cancel(execution.id, user, reason)
            execution.cancel(user, reason)
""", """            execution.cancel(user, reason)
"""), (H + "workflow_control.py", """            logger.info(
                "Canceling execution %s (%d stage(s)) by %s: %s",""", """            self.repository.cancel(execution.id, user, reason)
            logger.info(
                "Canceling execution %s (%d stage(s)) by %s: %s",""")], "C17.R2")
case("c17-cancelstage-skips-not-started-tasks", "C17", "mutant", [(H + "cancel_stage.py", "if task.status in {WorkflowStatus.NOT_STARTED, WorkflowStatus.RUNNING}:", "if task.status in {WorkflowStatus.RUNNING}:")], "C17.R3")
case("c17-completeworkflow-not-pushed", "C17", "mutant", [(H + "workflow_control.py", """                txn.push_message(
                    CompleteWorkflow(
                        execution_type=message.execution_type,
                        execution_id=message.execution_id,
                    )
                )

            logger.info(
                "Canceling execution""", """                pass

            logger.info(
                "Canceling execution""")], "C17.R2")
case("c17-canceled-checked-after-terminal-removed", "C17", "mutant", [(H + "complete_workflow.py", """        if WorkflowStatus.CANCELED in statuses:
            return WorkflowStatus.CANCELED
""", """        if WorkflowStatus.CANCELED in statuses and retry_count_ok:
            return WorkflowStatus.CANCELED
"""), (H + "complete_workflow.py", """        stages = execution.top_level_stages()
        statuses = [s.status for s in stages]
""", """        stages = execution.top_level_stages()
        statuses = [s.status for s in stages]
        retry_count_ok = bool(getattr(message, "retry_count", 0))
""")], "C17.R5")
case("c17-only-running-stages-cancelled", "C17", "mutant", [(H + "workflow_control.py", "to_cancel = [s for s in execution.stages if not s.status.is_complete]", "to_cancel = [s for s in execution.stages if s.status == WorkflowStatus.RUNNING]")], "C17.R2")
case("c17-only-top-level-stages-cancelled", "C17", "mutant", [(H + "workflow_control.py", "to_cancel = [s for s in execution.stages if not s.status.is_complete]", "to_cancel = [s for s in execution.top_level_stages() if not s.status.is_complete]")], "C17.R2")
case("c17-refactor-fanout-active-set", "C17", "refactor", [(H + "workflow_control.py", "to_cancel = [s for s in execution.stages if not s.status.is_complete]", "to_cancel = [st for st in execution.stages if st.status not in COMPLETED_STATUSES]"), (H + "workflow_control.py", "from stabilize.models.status import WorkflowStatus", "from stabilize.models.status import COMPLETED_STATUSES, WorkflowStatus")])
case("c18-transient-signal-buffered", "C18", "mutant", [(H + "signal_stage.py", "            if message.persistent:", "            if message.persistent or message.signal_data:")], "C18.R1")
case("c18-buffer-not-stored", "C18", "mutant", [(H + "signal_stage.py", """                stage.context["_buffered_signals"] = buffered

                with self.repository.transaction(self.queue) as txn:
                    txn.store_stage(stage)
""", """                stage.context["_buffered_signals"] = buffered

                with self.repository.transaction(self.queue) as txn:
""")], "C18.R1")
case("c18-buffer-not-written-back", "C18", "mutant", [(H + "run_task/result.py", """        stage.context["_buffered_signals"] = buffered
        stage.context["_signal_name\"""", """        stage.context["_signal_name\"""")], "C18.R2")
case("c18-consume-without-runtask", "C18", "mutant", [(H + "run_task/result.py", """            messages_to_push=[
                (
                    RunTaskMsg(
                        execution_type=message.execution_type,
                        execution_id=message.execution_id,
                        stage_id=message.stage_id,
                        task_id=task_model.id,
                    ),
                    None,
                )
            ],""", """            messages_to_push=[],""")], "C18.R2")
case("c18-rearm-clears-mailbox", "C18", "mutant", [(H + "jump_to_stage/reset.py", """    for key in ("_join_fired", "_completed_branches", "_activated_branches"):""", """    for key in ("_join_fired", "_completed_branches", "_activated_branches", "_buffered_signals"):""")], "C18.R4")
case("c18-resume-without-mark", "C18", "mutant", [(H + "signal_stage.py", """                    txn.store_stage(stage)
                    if message.message_id:
                        txn.mark_message_processed(
                            message_id=message.message_id,
                            handler_type="SignalStage",
                            execution_id=message.execution_id,
                        )
                    if suspended_task:""", """                    txn.store_stage(stage)
                    if suspended_task:""")], "C18.R1")
case("c15-budget-check-skipped", "C15", "mutant", [(H + "jump_to_stage/handler.py", """            if not self._check_jump_count(message, execution, source_stage):
                return
""", """            self._check_jump_count(message, execution, source_stage)
""")], "C15.R1")
case("c15-limit-off-by-comparison", "C15", "mutant", [(H + "jump_to_stage/handler.py", "        if jump_count >= max_jumps:", "        if jump_count > max_jumps + max_jumps:")], "C15.R2")
case("c15-count-not-incremented", "C15", "mutant", [(H + "jump_to_stage/handler.py", "            new_jump_count = jump_count + 1", "            new_jump_count = jump_count")], "C15.R2")
case("c15-rearm-drops-counter", "C15", "mutant", [(H + "jump_to_stage/reset.py", """    for key in ("_join_fired", "_completed_branches", "_activated_branches"):""", """    for key in ("_join_fired", "_completed_branches", "_activated_branches", "_jump_count"):""")], "C15.R3")
case("c15-fanin-any-instead-of-all", "C15", "mutant", [(H + "jump_to_stage/traversal.py", """            if has_upstream_in_scope and all_upstreams_in_scope:
                resettable_ref_ids.add(stage.ref_id)""", """            if has_upstream_in_scope:
                resettable_ref_ids.add(stage.ref_id)""")], "C15.R5")
case("c15-jump-stage-by-stage", "C15", "mutant", [(H + "jump_to_stage/handler.py", """                    mutate(fresh)
                    txn.store_stage(fresh)""", """                    mutate(fresh)
                    self.repository.store_stage(fresh)""")], "C15.R4")
case("c15-join-fired-not-cleared", "C15", "mutant", [(H + "jump_to_stage/reset.py", """    for key in ("_join_fired", "_completed_branches", "_activated_branches"):""", """    for key in ("_completed_branches", "_activated_branches"):""")], "C15.R6")
case("c15-default-max-jumps", "C15", "mutant", [(H + "jump_to_stage/handler.py", "DEFAULT_MAX_JUMPS = 10", "DEFAULT_MAX_JUMPS = 10_000")], "C15.R2")

# a CORRECT bounded retry loop in poll_one (the seeded c08-2 change plus the missing `else: return None`) must stay silent
case("c08-refactor-retry-loop-with-else", "C08", "refactor", [("src/stabilize/queue/sqlite/queue.py", """            logger.debug("Lost race for message %s, retrying", msg_id)
""", """            logger.debug("Lost race for message %s, retrying", msg_id)
        else:
            return None
""")], None, patch="seeded/c08-2/patch.diff")

# ------------------------------------------------------------------ C05
case("c05-starttask-skip-dead-on-arrival", "C05", "mutant", [(H + "start_task.py", """                    self.set_task_status(task_model, WorkflowStatus.RUNNING)
                    task_model.start_time = self.current_time_millis()
                    with self.repository.transaction(self.queue) as txn:""", """                    self.set_task_status(task_model, WorkflowStatus.SKIPPED)
                    with self.repository.transaction(self.queue) as txn:""")], "C05.R3")
case("c05-completestage-no-continuation-branch", "C05", "mutant", [(H + "complete_stage/handler.py", """                        elif not downstream_stages:
                            # Terminal stage - complete workflow
                            txn.push_message(
                                CompleteWorkflow(
                                    execution_type=execution.type.value,
                                    execution_id=execution.id,
                                )
                            )""", """                        elif not downstream_stages:
                            # Terminal stage - complete workflow
                            pass""")], "C05.R2")
case("c05-skipstage-no-downstream-trigger", "C05", "mutant", [(H + "skip_stage.py", """                if downstream_stages:
                    # Start all downstream stages
                    for downstream in downstream_stages:""", """                if downstream_stages and phase is None:
                    # Start all downstream stages
                    for downstream in downstream_stages:""")], "C05.R")
case("c05-succeeded-with-canceled-stage", "C05", "mutant", [(H + "complete_workflow.py", """        if all(s in CONTINUABLE_STATUSES for s in statuses):
            return WorkflowStatus.SUCCEEDED""", """        if all(s in CONTINUABLE_STATUSES or s == WorkflowStatus.CANCELED for s in statuses):
            return WorkflowStatus.SUCCEEDED""")], "C05.R1")
case("c05-terminal-check-after-canceled", "C05", "mutant", [(H + "complete_workflow.py", """        if WorkflowStatus.TERMINAL in statuses:
            return WorkflowStatus.TERMINAL

        # Any CANCELED -> CANCELED
        if WorkflowStatus.CANCELED in statuses:
            return WorkflowStatus.CANCELED
""", """        if WorkflowStatus.CANCELED in statuses:
            return WorkflowStatus.CANCELED

        # Any CANCELED -> CANCELED
        if WorkflowStatus.TERMINAL in statuses:
            return WorkflowStatus.TERMINAL
""")], "C05.R1")
case("c05-unbounded-completeworkflow-requeue", "C05", "mutant", [(H + "complete_workflow.py", "        if retry_count >= max_retries:", "        if False and retry_count >= max_retries:")], "C05.R1")
case("c05-running-stages-not-cancelled", "C05", "mutant", [(H + "complete_workflow.py", "            if status != WorkflowStatus.SUCCEEDED:\n                # Also stages that are parked", "            if status == WorkflowStatus.TERMINAL:\n                # Also stages that are parked")], "C05.R4")
case("c05-parked-stages-not-cancelled", "C05", "mutant", [(H + "complete_workflow.py", "                    if s.status in (WorkflowStatus.RUNNING, WorkflowStatus.SUSPENDED, WorkflowStatus.PAUSED)", "                    if s.status == WorkflowStatus.RUNNING")], "C05.R4")
case("c05-signal-resume-without-continuation", "C05", "mutant", [(H + "signal_stage.py", """                    else:
                        # No suspended task found - re-start the stage
                        txn.push_message(
                            StartStage(
                                execution_type=message.execution_type,
                                execution_id=message.execution_id,
                                stage_id=message.stage_id,
                            )
                        )""", """                    else:
                        pass""")], "C05.R5")

# ------------------------------------------------------------------ C19
PC = "src/stabilize/persistence/sqlite/"
case("c19-field-not-restored", "C19", "mutant", [(PC + "converters.py", """        mutex_key=_safe_get("mutex_key"),
""", "")], "C19.R1")
case("c19-new-field-not-persisted", "C19", "mutant", [("src/stabilize/models/stage/stage.py", """    cancel_region: str | None = None
""", """    cancel_region: str | None = None
    retry_budget: int = 0
""")], "C19.R1")
case("c19-restored-from-wrong-column", "C19", "mutant", [(PC + "converters.py", """        start_time_expiry=row["start_time_expiry"],
        scheduled_time=row["scheduled_time"],
        version=row["version"],""", """        start_time_expiry=row["start_time_expiry"],
        scheduled_time=row["start_time_expiry"],
        version=row["version"],""")], "C19.R1")
case("c19-enum-codec-mismatch", "C19", "mutant", [(PC + "helpers.py", """            "join_type": stage.join_type.value,""", """            "join_type": stage.join_type.name,""")], "C19.R2")
case("c19-update-writes-extra-column", "C19", "mutant", [(PC + "store/stage_ops.py", """                        end_time = :end_time,
                        version = version + 1
                    WHERE id = :id AND version = :version
                    \"\"\",""", """                        end_time = :end_time,
                        name = 'x',
                        version = version + 1
                    WHERE id = :id AND version = :version
                    \"\"\",""")], "C19.R3")
case("c19-update-context-from-outputs", "C19", "mutant", [(PC + "store/stage_ops.py", """                        "context": json.dumps(stage.context, default=str),
                        "outputs": json.dumps(stage.outputs, default=str),
                        "start_time": stage.start_time,
                        "end_time": stage.end_time,
                        "version": stage.version,
                    },
                )

            if cursor.rowcount""", """                        "context": json.dumps(stage.outputs, default=str),
                        "outputs": json.dumps(stage.outputs, default=str),
                        "start_time": stage.start_time,
                        "end_time": stage.end_time,
                        "version": stage.version,
                    },
                )

            if cursor.rowcount""")], "C19.R3")
case("c19-task-order-dropped", "C19", "mutant", [(PC + "store/stage_ops.py", """            WHERE stage_id = :stage_id
            ORDER BY id ASC""", """            WHERE stage_id = :stage_id""")], "C19.R4")
case("c19-serialisers-diverge", "C19", "mutant", [(PC + "transaction.py", """            elif isinstance(value, Enum):
                data[key] = value.name""", """            elif isinstance(value, Enum):
                data[key] = value.value""")], "C19.R5")
case("c19-message-not-registered", "C19", "mutant", [("src/stabilize/queue/messages.py", """    "PauseTask": PauseTask,
""", "")], "C19.R5")
case("c19-payload-field-discarded", "C19", "mutant", [("src/stabilize/queue/sqlite/serialization.py", """    data.pop("max_attempts", None)
""", """    data.pop("max_attempts", None)
    data.pop("original_status", None)
""")], "C19.R5")
case("c19-refactor-rename-local", "C19", "refactor", [(PC + "converters.py", """    requisite_ids = json.loads(row["requisite_stage_ref_ids"] or "[]")""", """    req_ = json.loads(row["requisite_stage_ref_ids"] or "[]")"""), (PC + "converters.py", "        requisite_stage_ref_ids=set(requisite_ids),", "        requisite_stage_ref_ids=set(req_),")])

# ---------------------------------------------------------------- C12
case("c12-cancelstage-task-event-dropped", "C12", "mutant", [("src/stabilize/handlers/cancel_stage.py", """                    for task in canceled_tasks:
                        self.event_recorder.record_task_completed(
                            task, workflow_id=workflow_id, source_handler="CancelStageHandler"
                        )
""", """                    pass
""")], "C12.R1")
case("c12-success-recorded-as-canceled", "C12", "mutant", [("src/stabilize/handlers/complete_workflow.py", """                    if status == WorkflowStatus.SUCCEEDED:
                        self.event_recorder.record_workflow_completed(""", """                    if status == WorkflowStatus.SUCCEEDED:
                        self.event_recorder.record_workflow_canceled(""")], "C12.R1")
case("c12-apply-case-wrong-status", "C12", "mutant", [("src/stabilize/events/replay.py", """            state.end_time = event.timestamp
            state.status = "CANCELED\"""", """            state.end_time = event.timestamp
            state.status = "TERMINAL\"""")], "C12.R1")
case("c12-as-of-strict", "C12", "mutant", [("src/stabilize/events/replay.py", """                if e.sequence <= as_of_sequence
""", """                if e.sequence < as_of_sequence
""")], "C12.R3")
case("c12-snapshot-beyond-as-of", "C12", "mutant", [("src/stabilize/events/replay.py", """            if snapshot and (as_of_sequence is None or snapshot.sequence <= as_of_sequence):""", """            if snapshot:""")], "C12.R3")
case("c12-start-sequence-not-advanced", "C12", "mutant", [("src/stabilize/events/replay.py", """                state = self._load_state_from_snapshot(snapshot)
                start_sequence = snapshot.sequence
""", """                state = self._load_state_from_snapshot(snapshot)
""")], "C12.R3")
case("c12-snapshot-key-dropped", "C12", "mutant", [("src/stabilize/events/replay.py", """            end_time=_parse_time(state_dict.get("end_time")),
""", "")], "C12.R4")
case("c12-refactor-rename-state-var", "C12", "refactor", [("src/stabilize/events/replay.py", """                state = self._load_state_from_snapshot(snapshot)
                start_sequence = snapshot.sequence
""", """                state = self._load_state_from_snapshot(snapshot)
                start_sequence = int(snapshot.sequence)
""")])

# ---- C15 additions (seed-derived)
case("c15-refactor-resolve-helper", "C15", "refactor", [(H + "jump_to_stage/handler.py", """
        jump_count = source_stage.context.get("_jump_count", 0)
        # Use explicit None checks to allow max_jumps=0 (disables jumps)
        max_jumps = execution.context.get("_max_jumps")
        if max_jumps is None:
            max_jumps = source_stage.context.get("_max_jumps")
        if max_jumps is None:
            max_jumps = DEFAULT_MAX_JUMPS
""", """
        jump_count = source_stage.context.get("_jump_count", 0)
        max_jumps = self._resolve_max_jumps(execution, source_stage)
"""), (H + "jump_to_stage/handler.py", """    def _check_jump_count(
""", """    @staticmethod
    def _resolve_max_jumps(execution, source_stage):
        limit = execution.context.get("_max_jumps")
        if limit is None:
            limit = source_stage.context.get("_max_jumps")
        if limit is None:
            limit = DEFAULT_MAX_JUMPS
        return int(limit)

    def _check_jump_count(
""")])
case("c15-helper-falsy-fallback", "C15", "mutant", [(H + "jump_to_stage/handler.py", """
        jump_count = source_stage.context.get("_jump_count", 0)
        # Use explicit None checks to allow max_jumps=0 (disables jumps)
        max_jumps = execution.context.get("_max_jumps")
        if max_jumps is None:
            max_jumps = source_stage.context.get("_max_jumps")
        if max_jumps is None:
            max_jumps = DEFAULT_MAX_JUMPS
""", """
        jump_count = source_stage.context.get("_jump_count", 0)
        max_jumps = execution.context.get("_max_jumps") or source_stage.context.get("_max_jumps") or DEFAULT_MAX_JUMPS
""")], "C15.R2")
case("c15-single-sweep", "C15", "mutant", [("src/stabilize/handlers/jump_to_stage/traversal.py", """    resettable_stages: list[StageExecution] = []

    changed = True
    while changed:
        changed = False
""", """    resettable_stages: list[StageExecution] = []

    changed = True
    if changed:
        changed = False
""")], "C15.R5")

# ---------------------------------------------------------------- C10
REC_ = "src/stabilize/recovery.py"
case("c10-starttask-guard-dropped", "C10", "mutant", [(REC_, """                    if not self.queue.has_pending_message_for_task(first_task.id):
                        recovery_messages.append(""", """                    if first_task.id:
                        recovery_messages.append(""")], "C10.R2")
case("c10-runtask-guard-on-other-task", "C10", "mutant", [(REC_, """                        if self.queue.has_pending_message_for_task(task.id):""", """                        if self.queue.has_pending_message_for_task(stage.id):""")], "C10.R2")
case("c10-pending-ignores-locked", "C10", "mutant", [("src/stabilize/queue/sqlite/queue.py", """            WHERE json_extract(payload, '$.task_id') = :task_id
            LIMIT 1""", """            WHERE json_extract(payload, '$.task_id') = :task_id
              AND locked_until IS NULL
            LIMIT 1""")], "C10.R3")
case("c10-push-outside-transaction", "C10", "mutant", [(REC_, """            with self.store.transaction(self.queue) as txn:
                for msg in recovery_messages:
                    txn.push_message(msg)
""", """            for msg in recovery_messages:
                self.queue.push(msg)
""")], "C10.R4")
case("c10-sweep-writes-status", "C10", "mutant", [(REC_, """            if stage.status == WorkflowStatus.RUNNING:
                stages_to_requeue.append(stage)
""", """            if stage.status == WorkflowStatus.RUNNING:
                stages_to_requeue.append(stage)
                if not stage.tasks:
                    stage.status = WorkflowStatus.NOT_STARTED
                    self.store.store_stage(stage)
""")], "C10.R1")
case("c10-refactor-rename-first-task", "C10", "refactor", [(REC_, """                    first_task = not_started_tasks[0]""", """                    nxt_task = not_started_tasks[0]"""),
     (REC_, """                    if not self.queue.has_pending_message_for_task(first_task.id):""", """                    if not self.queue.has_pending_message_for_task(nxt_task.id):"""),
     (REC_, """                                task_id=first_task.id,""", """                                task_id=nxt_task.id,""")])

# ---------------------------------------------------------------- C20
EX_ = "src/stabilize/expressions.py"
TP_ = "src/stabilize/dag/topological.py"
case("c20-call-node-allowed", "C20", "mutant", [(EX_, """    if isinstance(node, ast.List):
        return [_eval_node(elt, context) for elt in node.elts]
""", """    if isinstance(node, ast.List):
        return [_eval_node(elt, context) for elt in node.elts]

    if isinstance(node, ast.Call):
        fn = _eval_node(node.func, context)
        return fn(*[_eval_node(a, context) for a in node.args])
""")], "C20.R1")
case("c20-pow-operator", "C20", "mutant", [(EX_, """    ast.USub: operator.neg,
""", """    ast.USub: operator.neg,
    ast.Invert: operator.inv,
""")], "C20.R1")
case("c20-compare-try-removed", "C20", "mutant", [(EX_, """            try:
                if not op_func(left, right):
                    return False
            except (TypeError, ValueError) as e:
                # ValueError: e.g. `300 in b"abc"` (byte must be in range(0, 256))
                raise ExpressionError(
                    f"Cannot compare {type(left).__name__} and {type(right).__name__} with {type(op).__name__}: {e}"
                ) from e
""", """            if not op_func(left, right):
                return False
""")], "C20.R3")
case("c20-getattr-fallback", "C20", "mutant", [(EX_, """        if isinstance(value, dict):
            return value.get(node.attr)
        return None
""", """        if isinstance(value, dict):
            return value.get(node.attr)
        return getattr(value, node.attr, None)
""")], "C20.R1")
case("c20-context-cache-write", "C20", "mutant", [(EX_, """        if node.id in context:
            return context[node.id]
        return None  # Missing context keys evaluate to None""", """        if node.id in context:
            return context[node.id]
        context[node.id] = None
        return None  # Missing context keys evaluate to None""")], "C20.R2")
case("c20-caller-reraises", "C20", "mutant", [(H + "complete_stage/split_logic.py", """                skipped.append(downstream)

        # OR-split must activate""", """                skipped.append(downstream)
                raise

        # OR-split must activate""")], "C20.R4")
case("c20-topo-any-requisite", "C20", "mutant", [(TP_, """        sortable = [
            stage_by_id[sid] for sid in unsorted_ids if ref_ids.issuperset(stage_by_id[sid].requisite_stage_ref_ids)
        ]

        if not sortable:
            # No progress possible - circular dependency""", """        sortable = [
            stage_by_id[sid] for sid in unsorted_ids if not stage_by_id[sid].requisite_stage_ref_ids or ref_ids & set(stage_by_id[sid].requisite_stage_ref_ids)
        ]

        if not sortable:
            # No progress possible - circular dependency""")], "C20.R5")
case("c20-unknown-ref-against-prefix", "C20", "mutant", [(TP_, """            raise InvalidStageGraphError(f"duplicate_ref: ref_id '{stage.ref_id}' is used by more than one stage")
        seen.add(stage.ref_id)
""", """            raise InvalidStageGraphError(f"duplicate_ref: ref_id '{stage.ref_id}' is used by more than one stage")
        seen.add(stage.ref_id)
        unknown = set(stage.requisite_stage_ref_ids) - seen
        if unknown:
            raise InvalidStageGraphError(f"unknown_ref: stage '{stage.ref_id}' requires nonexistent stage(s) {sorted(unknown)}")
"""), (TP_, """        unknown = set(stage.requisite_stage_ref_ids) - seen
        if unknown:
            raise InvalidStageGraphError(
                f"unknown_ref: stage '{stage.ref_id}' requires nonexistent stage(s) {sorted(unknown)}"
            )
""", "")], "C20.R5")
case("c20-create-skips-validation", "C20", "mutant", [("src/stabilize/models/workflow.py", """        validate_stage_graph(stages)

        execution = cls(
            application=application,""", """        execution = cls(
            application=application,""")], "C20.R5")
case("c20-refactor-rename-opfunc", "C20", "refactor", [(EX_, """            op_func = _SAFE_OPERATORS.get(type(op))
            if op_func is None:""", """            cmp_ = _SAFE_OPERATORS.get(type(op))
            if cmp_ is None:"""), (EX_, """                if not op_func(left, right):""", """                if not cmp_(left, right):""")])
case("c20-refactor-catch-exception", "C20", "refactor", [(EX_, """            except (TypeError, ValueError) as e:
                # ValueError: e.g. `300 in b"abc"` (byte must be in range(0, 256))
                raise ExpressionError(
                    f"Cannot compare""", """            except Exception as e:
                raise ExpressionError(
                    f"Cannot compare""")])
case("c12-refactor-fetch-then-trim", "C12", "refactor", [("src/stabilize/events/replay.py", """        if as_of_sequence is not None:
            # Get events up to the specified sequence
            events = [
                e
                for e in self._event_store.get_events_for_workflow(workflow_id, start_sequence)
                if e.sequence <= as_of_sequence
            ]
        else:
            events = self._event_store.get_events_for_workflow(workflow_id, start_sequence)
""", """        events = self._event_store.get_events_for_workflow(workflow_id, start_sequence)
        if as_of_sequence is not None:
            events = [e for e in events if e.sequence <= as_of_sequence]
""")])
case("c12-cut-zero-is-no-cut", "C12", "mutant", [("src/stabilize/events/replay.py", """        if as_of_sequence is not None:
            # Get events up to the specified sequence""", """        if as_of_sequence:
            # Get events up to the specified sequence""")], "C12.R3")
case("c10-before-stage-guard-removed", "C10", "mutant", [(REC_, """                elif not_started_tasks and not self._before_stages_complete(stage, full_workflow):""", """                elif not_started_tasks and stage.start_time is None:""")], "C10.R6")
case("c10-before-complete-disagrees", "C10", "mutant", [(REC_, """            child.status in CONTINUABLE_STATUSES
            for child in workflow.stages""", """            child.status.is_complete
            for child in workflow.stages""")], "C10.R6")

# ---------------------------------------------------------------- seeded changes produced by independent agents
# (each /verif/seeded/<id>/patch.diff compiles, passes the repository's test suite and breaks the property named by
# its directory; see seeded/<id>/meta.json). They are permanent regression cases for the checkers.
import os as _os

_SEED_DIR = _os.path.join(_os.path.dirname(_os.path.dirname(_os.path.abspath(__file__))), "seeded")
for _d in sorted(_os.listdir(_SEED_DIR)) if _os.path.isdir(_SEED_DIR) else []:
    if _os.path.exists(_os.path.join(_SEED_DIR, _d, "patch.diff")):
        case(f"seed-{_d}", _d.split("-")[0].upper(), "mutant", [], None, patch=f"seeded/{_d}/patch.diff")

# ---------------------------------------------------------------- C16
Q_ = "src/stabilize/persistence/sqlite/queries.py"
PL_ = H + "start_stage/planner.py"
case("c16-direct-requisites-only", "C16", "mutant", [(Q_, """            if req not in visited:
                visited.add(req)
                ancestors.add(req)
                queue.append(req)
""", """            if req not in visited:
                visited.add(req)
                ancestors.add(req)
""")], "C16.R1")
case("c16-self-included", "C16", "mutant", [(Q_, """    ancestors = set()
    queue = [stage_ref_id]""", """    ancestors = {stage_ref_id}
    queue = [stage_ref_id]""")], "C16.R1")
case("c16-edge-direction-reversed", "C16", "mutant", [(Q_, """            if req in ancestors:
                graph[req].append(aid)
                in_degree[aid] += 1
""", """            if req in ancestors:
                graph[aid].append(req)
                in_degree[req] += 1
""")], "C16.R2")
case("c16-first-writer-wins", "C16", "mutant", [(Q_, """            else:
                merged_result[key] = value

    return merged_result""", """            elif key not in merged_result:
                merged_result[key] = value

    return merged_result""")], "C16.R2")
case("c16-ancestors-override-own", "C16", "mutant", [(PL_, """            else:
                merged[key] = value

""", """            elif key not in merged:
                merged[key] = value

""")], "C16.R2")
case("c16-reducers-after-own", "C16", "mutant", [(PL_, """            if key in reducers:
                # A reducer produced the authoritative value for this key;
                # do not let the join stage's own context override it.
                continue
""", "")], "C16.R3")
case("c16-outputs-kept-on-rearm", "C16", "mutant", [(H + "jump_to_stage/reset.py", """    stage.outputs = {}
    # Re-arm join/split tracking""", """    # Re-arm join/split tracking""")], "C16.R4")
case("c16-sum-drops-first", "C16", "mutant", [("src/stabilize/reducers.py", """    total: Any = 0
    for v in values:
        if v is not None:
            total = total + v
    return total""", """    total: Any = 0
    for v in values[1:]:
        if v is not None:
            total = total + v
    return total + (values[0] or 0)""")], "C16.R5")
case("c16-max-of-last-two", "C16", "mutant", [("src/stabilize/reducers.py", """    "max": lambda values: max(v for v in values if v is not None),""", """    "max": lambda values: max(v for v in values[-2:] if v is not None),""")], "C16.R5")
case("c16-refactor-rename-merged", "C16", "refactor", [(Q_, """    merged_result: dict[str, Any] = {}
    for aid in sorted_ancestors:
        outputs = nodes[aid]["outputs"]
        for key, value in outputs.items():
            if key in merged_result and isinstance(merged_result[key], list) and isinstance(value, list):
                # Concatenate lists
                existing = merged_result[key]
                for item in value:
                    if item not in existing:
                        existing.append(item)
            else:
                merged_result[key] = value

    return merged_result""", """    acc: dict[str, Any] = {}
    for aid in sorted_ancestors:
        outs = nodes[aid]["outputs"]
        for k, val in outs.items():
            if k in acc and isinstance(acc[k], list) and isinstance(val, list):
                have = acc[k]
                for it in val:
                    if it not in have:
                        have.append(it)
            else:
                acc[k] = val

    return acc""")])

# ---------------------------------------------------------------- C03
RD_ = "src/stabilize/dag/readiness.py"
SH_ = H + "start_stage/handler.py"
case("c03-and-ready-when-no-active", "C03", "mutant", [(RD_, """    if not not_complete_ids:
        return ReadinessResult(
            phase=PredicatePhase.READY,
            reason="All upstream stages complete",
        )
""", """    if not active_ids:
        return ReadinessResult(
            phase=PredicatePhase.READY,
            reason="All upstream stages complete",
        )
""")], "C03.R1")
case("c03-and-incomplete-set-shrunk", "C03", "mutant", [(RD_, """        if upstream.status not in CONTINUABLE_STATUSES:
            not_complete_ids.append(upstream.id)
            if upstream.status in ACTIVE_STATUSES:
                active_ids.append(upstream.id)

    if not not_complete_ids:
        return ReadinessResult(
            phase=PredicatePhase.READY,
            reason="All upstream stages complete",""", """        if not upstream.status.is_complete:
            not_complete_ids.append(upstream.id)
            if upstream.status in ACTIVE_STATUSES:
                active_ids.append(upstream.id)

    if not not_complete_ids:
        return ReadinessResult(
            phase=PredicatePhase.READY,
            reason="All upstream stages complete",""")], "C03.R1")
case("c03-or-ignores-activation", "C03", "mutant", [(RD_, """    relevant_upstreams = [u for u in upstream_stages if u is not None and u.ref_id in activated_set]""", """    relevant_upstreams = [u for u in upstream_stages if u is not None and u.ref_id not in activated_set]""")], "C03.R2")
case("c03-discriminator-fires-on-complete", "C03", "mutant", [(RD_, """        if upstream.status in CONTINUABLE_STATUSES:
            return ReadinessResult(
                phase=PredicatePhase.READY,
                reason=f"Discriminator: first upstream {upstream.id} completed",""", """        if upstream.status.is_complete:
            return ReadinessResult(
                phase=PredicatePhase.READY,
                reason=f"Discriminator: first upstream {upstream.id} completed",""")], "C03.R3")
case("c03-discriminator-refires", "C03", "mutant", [(RD_, """    if join_fired:
        # Already fired - check if all upstreams are done (reset condition)""", """    if join_fired and stage.context.get("_join_blocking"):
        # Already fired - check if all upstreams are done (reset condition)""")], "C03.R3")
case("c03-nofm-counts-halted", "C03", "mutant", [(RD_, """        if upstream.status in CONTINUABLE_STATUSES:
            completed_ids.append(upstream.id)
        elif upstream.status in HALT_STATUSES:
            failed_ids.append(upstream.id)""", """        if upstream.status.is_complete:
            completed_ids.append(upstream.id)
        elif upstream.status in HALT_STATUSES:
            failed_ids.append(upstream.id)""")], "C03.R4")
case("c03-nofm-threshold-off-by-one", "C03", "mutant", [(RD_, """    if len(completed_ids) >= threshold:""", """    if len(completed_ids) >= threshold - 1:""")], "C03.R4")
case("c03-dispatch-discriminator-as-multimerge", "C03", "mutant", [(RD_, """    elif join_type == JoinType.DISCRIMINATOR:
        return _evaluate_discriminator(stage, upstream_stages)""", """    elif join_type == JoinType.DISCRIMINATOR:
        return _evaluate_multi_merge(stage, upstream_stages)""")], "C03.R5")
case("c03-start-when-not-skip", "C03", "mutant", [(SH_, """                if readiness.phase == PredicatePhase.READY:
                    logger.debug(""", """                if readiness.phase != PredicatePhase.SKIP:
                    logger.debug(""")], "C03.R6")
case("c03-bypass-not-consumed", "C03", "mutant", [(SH_, """                if jump_bypass:
                    # Clear the bypass flag so it doesn't persist
                    del stage.context["_jump_bypass"]
""", """                if jump_bypass:
                    pass
""")], "C03.R6")
case("c03-refactor-rename-collector", "C03", "refactor", [(RD_, """    active_ids: list[str] = []
    not_complete_ids: list[str] = []

    for upstream in upstream_stages:
        if upstream is None:
            continue
        if upstream.status not in CONTINUABLE_STATUSES:
            not_complete_ids.append(upstream.id)
            if upstream.status in ACTIVE_STATUSES:
                active_ids.append(upstream.id)

    if not not_complete_ids:
        return ReadinessResult(
            phase=PredicatePhase.READY,
            reason="All upstream stages complete",""", """    active_ids: list[str] = []
    pending: list[str] = []

    for up in upstream_stages:
        if up is None:
            continue
        if up.status not in CONTINUABLE_STATUSES:
            pending.append(up.id)
            if up.status in ACTIVE_STATUSES:
                active_ids.append(up.id)
    not_complete_ids = pending

    if not pending:
        return ReadinessResult(
            phase=PredicatePhase.READY,
            reason="All upstream stages complete",""")])
case("c16-inherited-keys-overlaid", "C16", "mutant", [(PL_, """            if key in inherited or key == "_inherited_keys":
                continue
""", """            if key == "_inherited_keys":
                continue
""")], "C16.R4")
case("c03-refactor-nofm-comprehensions", "C03", "refactor", [(RD_, """    completed_ids: list[str] = []
    failed_ids: list[str] = []
    active_ids: list[str] = []

    for upstream in upstream_stages:
        if upstream is None:
            continue
        if upstream.status in CONTINUABLE_STATUSES:
            completed_ids.append(upstream.id)
        elif upstream.status in HALT_STATUSES:
            failed_ids.append(upstream.id)
        else:
            active_ids.append(upstream.id)
""", """    ups = [u for u in upstream_stages if u is not None]
    completed_ids = [u.id for u in ups if u.status in CONTINUABLE_STATUSES]
    failed_ids = [u.id for u in ups if u.status not in CONTINUABLE_STATUSES and u.status in HALT_STATUSES]
    active_ids = [u.id for u in ups if u.status not in CONTINUABLE_STATUSES and u.status not in HALT_STATUSES]
""")])

# ---------------------------------------------------------------- structural refactors (behaviour-preserving) for C05, C11, C17, C18
case("c18-refactor-mark-helper", "C18", "refactor", [(H + "signal_stage.py", """                with self.repository.transaction(self.queue) as txn:
                    txn.store_stage(stage)
                    if message.message_id:
                        txn.mark_message_processed(
                            message_id=message.message_id,
                            handler_type="SignalStage",
                            execution_id=message.execution_id,
                        )
            else:
                # WCP-23: Transient signal - discard""", """                def _store_and_mark(t):
                    t.store_stage(stage)
                    if message.message_id:
                        t.mark_message_processed(
                            message_id=message.message_id,
                            handler_type="SignalStage",
                            execution_id=message.execution_id,
                        )

                with self.repository.transaction(self.queue) as txn:
                    _store_and_mark(txn)
            else:
                # WCP-23: Transient signal - discard""")])
case("c18-refactor-push-order", "C18", "refactor", [(H + "signal_stage.py", """                with self.repository.transaction(self.queue) as txn:
                    txn.store_stage(stage)
                    if message.message_id:
                        txn.mark_message_processed(
                            message_id=message.message_id,
                            handler_type="SignalStage",
                            execution_id=message.execution_id,
                        )
                    if suspended_task:""", """                with self.repository.transaction(self.queue) as txn:
                    if message.message_id:
                        txn.mark_message_processed(
                            message_id=message.message_id,
                            handler_type="SignalStage",
                            execution_id=message.execution_id,
                        )
                    txn.store_stage(stage)
                    if suspended_task:""")])
case("c17-refactor-messages-list", "C17", "refactor", [(H + "workflow_control.py", """                for stage in to_cancel:
                    txn.push_message(
                        CancelStage(
                            execution_type=message.execution_type,
                            execution_id=message.execution_id,
                            stage_id=stage.id,
                        )
                    )
                txn.push_message(
                    CompleteWorkflow(
                        execution_type=message.execution_type,
                        execution_id=message.execution_id,
                    )
                )
""", """                fan_out = [
                    CancelStage(
                        execution_type=message.execution_type,
                        execution_id=message.execution_id,
                        stage_id=stage.id,
                    )
                    for stage in to_cancel
                ]
                for msg in fan_out:
                    txn.push_message(msg)
                txn.push_message(
                    CompleteWorkflow(
                        execution_type=message.execution_type,
                        execution_id=message.execution_id,
                    )
                )
""")])
case("c17-refactor-complete-first", "C17", "refactor", [(H + "workflow_control.py", """                for stage in to_cancel:
                    txn.push_message(
                        CancelStage(
                            execution_type=message.execution_type,
                            execution_id=message.execution_id,
                            stage_id=stage.id,
                        )
                    )
                txn.push_message(
                    CompleteWorkflow(
                        execution_type=message.execution_type,
                        execution_id=message.execution_id,
                    )
                )
""", """                completion = CompleteWorkflow(
                    execution_type=message.execution_type,
                    execution_id=message.execution_id,
                )
                for stage in to_cancel:
                    txn.push_message(
                        CancelStage(
                            execution_type=message.execution_type,
                            execution_id=message.execution_id,
                            stage_id=stage.id,
                        )
                    )
                txn.push_message(completion)
""")])
case("c05-refactor-requeue-helper", "C05", "refactor", [(H + "complete_workflow.py", """        # Create new message with incremented retry count
        new_message = CompleteWorkflow(
            execution_type=message.execution_type,
            execution_id=message.execution_id,
            retry_count=retry_count + 1,
        )
        self.queue.push(new_message, self.retry_delay)
        return None
""", """        self._requeue(message, retry_count)
        return None

    def _requeue(self, message: CompleteWorkflow, retry_count: int) -> None:
        new_message = CompleteWorkflow(
            execution_type=message.execution_type,
            execution_id=message.execution_id,
            retry_count=retry_count + 1,
        )
        self.queue.push(new_message, self.retry_delay)
""")])
case("c05-refactor-early-continuable", "C05", "refactor", [(H + "complete_workflow.py", """        # All succeeded/skipped/failed_continue -> SUCCEEDED
        if all(s in CONTINUABLE_STATUSES for s in statuses):
            return WorkflowStatus.SUCCEEDED
""", """        # All succeeded/skipped/failed_continue -> SUCCEEDED
        all_continuable = all(s in CONTINUABLE_STATUSES for s in statuses)
        if all_continuable:
            return WorkflowStatus.SUCCEEDED
""")])
case("c16-jump-keys-stay-inherited", "C16", "mutant", [(H + "jump_to_stage/handler.py", """                if inherited:
                    s.context["_inherited_keys"] = [k for k in inherited if k not in updates]
""", """                if inherited:
                    pass
""")], "C16.R4")
case("c10-sweeps-buffered-workflows", "C10", "mutant", [(REC_, """            statuses={WorkflowStatus.RUNNING, WorkflowStatus.NOT_STARTED},""", """            statuses={WorkflowStatus.RUNNING, WorkflowStatus.NOT_STARTED, WorkflowStatus.BUFFERED},""")], "C10.R8")

case("c20-membership-valueerror-dropped", "C20", "mutant", [(EX_, """            except (TypeError, ValueError) as e:""", """            except TypeError as e:""")], "C20.R3")
case("c13-refactor-try-else-baseexception", "C13", "refactor", [("src/stabilize/persistence/sqlite/store/store.py", """            abort_store_transaction()
            raise
        commit_store_transaction()
""", """            abort_store_transaction()
            raise
        else:
            commit_store_transaction()
""")])
_CLAIM_OLD = """                if stage.mutex_key and not txn.acquire_claim(
                    message.execution_id,
                    f"mutex:{stage.mutex_key}",
                    stage.id,
                    steal_if_owner_terminal=True,
                ):
                    raise _ClaimBlockedError("mutex")
                if stage.deferred_choice_group and not txn.acquire_claim(
                    message.execution_id,
                    f"choice:{stage.deferred_choice_group}",
                    stage.id,
                ):
                    raise _ClaimBlockedError("choice")
                txn.store_stage(stage, expected_phase=claim_expected_phase)
"""
_CLAIM_NEW = """                self._take_claims(txn, stage, message)
                txn.store_stage(stage, expected_phase=claim_expected_phase)
"""
_CLAIM_HELPER = """    def _take_claims(self, txn, stage, message) -> None:
        if stage.mutex_key and not txn.acquire_claim(
            message.execution_id,
            f"mutex:{stage.mutex_key}",
            stage.id,
            steal_if_owner_terminal=True,
        ):
            raise _ClaimBlockedError("mutex")
        if stage.deferred_choice_group and not txn.acquire_claim(
            message.execution_id,
            f"choice:{stage.deferred_choice_group}",
            stage.id,
        ):
            raise _ClaimBlockedError("choice")

    def _start_if_ready(
"""
for _p in ("C04", "C11", "C01"):
    case(f"{_p.lower()}-refactor-claims-helper", _p, "refactor", [(H + "start_stage/handler.py", _CLAIM_OLD, _CLAIM_NEW), (H + "start_stage/handler.py", "    def _start_if_ready(\n", _CLAIM_HELPER)])

# ------------------------------------------------------------------ round-3 rules: C05.R11/R12, C07 insert/decision-read/snapshot, C18.R6
_OBI_OLD = """        for stage in stages:
            # A SUSPENDED or PAUSED stage is parked, not finished: it resumes on
            # its signal / on resume, so the workflow must not be finalized yet.
            if stage.status in (
                WorkflowStatus.RUNNING,
                WorkflowStatus.SUSPENDED,
                WorkflowStatus.PAUSED,
            ):
                return True
            if stage.status == WorkflowStatus.NOT_STARTED and stage.all_upstream_stages_complete():
                return True
        return False
"""
case("c05-refactor-incomplete-any", "C05", "refactor", [(H + "complete_workflow.py", _OBI_OLD, """        parked = {WorkflowStatus.RUNNING, WorkflowStatus.SUSPENDED, WorkflowStatus.PAUSED}
        return any(
            st.status in parked or (st.status == WorkflowStatus.NOT_STARTED and st.all_upstream_stages_complete())
            for st in stages
        )
""")])
case("c05-refactor-incomplete-continue", "C05", "refactor", [(H + "complete_workflow.py", _OBI_OLD, """        for stage in stages:
            if stage.status.is_complete:
                continue
            if stage.status != WorkflowStatus.NOT_STARTED and stage.status in ACTIVE_STATUSES:
                return True
            if stage.status == WorkflowStatus.NOT_STARTED and stage.all_upstream_stages_complete():
                return True
        return False
"""), (H + "complete_workflow.py", "from stabilize.models.status import CONTINUABLE_STATUSES, WorkflowStatus", "from stabilize.models.status import ACTIVE_STATUSES, CONTINUABLE_STATUSES, WorkflowStatus")])
case("c05-incomplete-drops-suspended", "C05", "mutant", [(H + "complete_workflow.py", """                WorkflowStatus.SUSPENDED,
                WorkflowStatus.PAUSED,
            ):
                return True
            if stage.status == WorkflowStatus.NOT_STARTED""", """                WorkflowStatus.PAUSED,
            ):
                return True
            if stage.status == WorkflowStatus.NOT_STARTED""")], "C05.R11")
case("c05-incomplete-counts-finished", "C05", "mutant", [(H + "complete_workflow.py", """            if stage.status == WorkflowStatus.NOT_STARTED and stage.all_upstream_stages_complete():
                return True
        return False""", """            if stage.status == WorkflowStatus.NOT_STARTED and stage.all_upstream_stages_complete():
                return True
            if stage.status == WorkflowStatus.CANCELED:
                return True
        return False""")], "C05.R11")
_GATE_OLD = """                            if all_core and all(
                                s
                                in {
                                    WorkflowStatus.SUCCEEDED,
                                    WorkflowStatus.SKIPPED,
                                    WorkflowStatus.FAILED_CONTINUE,
                                }
                                for s in all_core
                            ):
"""
case("c05-refactor-gate-props", "C05", "refactor", [(H + "complete_stage/handler.py", _GATE_OLD, """                            if all_core and all(cs.is_complete and not cs.is_halt for cs in all_core):
""")])
case("c05-gate-accepts-running", "C05", "mutant", [(H + "complete_stage/handler.py", _GATE_OLD, """                            if all_core and all(not cs.is_halt for cs in all_core):
""")], "C05.R12")
case("c07-insert-stage-or-replace", "C07", "mutant", [("src/stabilize/persistence/sqlite/helpers.py", "        INSERT INTO stage_executions (", "        INSERT OR REPLACE INTO stage_executions (")], "C07.R1")
case("c07-refactor-reread-then-recheck", "C07", "refactor", [(H + "signal_stage.py", """                buffered = stage.context.get("_buffered_signals", [])
""", """                stage = self.repository.retrieve_stage(message.stage_id)
                if stage.status == WorkflowStatus.SUSPENDED:
                    raise ValueError("stage suspended while buffering the signal; redeliver")
                buffered = stage.context.get("_buffered_signals", [])
""")])
case("c07-snapshot-dict-inline", "C07", "mutant", [(H + "run_task/error.py", """            fresh_stage.context.update(context_update)
            # Atomic: store stage with context update + push retry message""", """            fresh_stage.context.update({**stage.context, **context_update})
            # Atomic: store stage with context update + push retry message""")], "C07.R3")
case("c18-refactor-approve-explicit-flag", "C18", "refactor", [("src/stabilize/hitl.py", """    send_signal(
        queue,
        execution_id,
        stage_id,
        APPROVE_SIGNAL,
        data,
        execution_type=execution_type,
    )""", """    queue.push(
        SignalStage(
            execution_type=execution_type,
            execution_id=execution_id,
            stage_id=stage_id,
            signal_name=APPROVE_SIGNAL,
            signal_data=data or {},
            persistent=True,
        )
    )""")])
case("c18-send-signal-default-transient", "C18", "mutant", [("src/stabilize/hitl.py", "    persistent: bool = True,", "    persistent: bool = False,")], "C18.R6")
case("c05-completetask-stops-at-skipped", "C05", "mutant", [(H + "complete_task.py", "            if message.status == WorkflowStatus.REDIRECT:", "            if message.status in (WorkflowStatus.REDIRECT, WorkflowStatus.SKIPPED):")], "C05.R13")
case("c05-refactor-redirect-branch-notin", "C05", "refactor", [(H + "complete_task.py", "            if message.status == WorkflowStatus.REDIRECT:", "            if message.status in {WorkflowStatus.REDIRECT}:")])
case("c10-not-started-workflow-stagewise", "C10", "mutant", [("src/stabilize/recovery.py", "        if full_workflow.status == WorkflowStatus.NOT_STARTED:\n            try:", "        if full_workflow.status == WorkflowStatus.NOT_STARTED and not full_workflow.stages:\n            try:")], "C10.R9")
case("c10-refactor-not-started-in-set", "C10", "refactor", [("src/stabilize/recovery.py", "        if full_workflow.status == WorkflowStatus.NOT_STARTED:\n            try:", "        if full_workflow.status in {WorkflowStatus.NOT_STARTED}:\n            try:")])
case("c12-started-event-after-commit", "C12", "mutant", [(H + "start_task.py", """                if self.event_recorder:
                    self.set_event_context(stage.execution.id)
                    self.event_recorder.record_task_started(
                        task_model, stage.execution.id, source_handler="StartTaskHandler"
                    )
""", """            if self.event_recorder:
                self.set_event_context(stage.execution.id)
                self.event_recorder.record_task_started(
                    task_model, stage.execution.id, source_handler="StartTaskHandler"
                )
""")], "C12.R5")
case("c12-cps-terminal-without-event", "C12", "mutant", [(H + "continue_parent_stage.py", """                handler_name="ContinueParentStage",
                in_transaction=lambda: self._record_parent_failed(stage),
            )
            return

        if not all_complete:
            # Not all before-stages complete yet""", """                handler_name="ContinueParentStage",
            )
            return

        if not all_complete:
            # Not all before-stages complete yet""")], "C12.R1")
case("c13-workflow-event-before-txn", "C13", "mutant", [(H + "complete_workflow.py", """            # Collect running stages to cancel if not successful
            running_stages = []""", """            if self.event_recorder and status == WorkflowStatus.SUCCEEDED:
                self.event_recorder.record_workflow_completed(execution, source_handler="CompleteWorkflowHandler")
            # Collect running stages to cancel if not successful
            running_stages = []""")], "C13.R6")
case("c13-scope-match-raw-strings", "C13", "mutant", [("src/stabilize/events/recorder/base.py", "        return bool(same_database(store_url) == same_database(scope.url))", "        return bool(store_url == scope.url)")], "C13.R1")
case("c13-refactor-scope-match-inline", "C13", "refactor", [("src/stabilize/events/recorder/base.py", """        same_database = get_connection_manager()._parse_sqlite_path
        return bool(same_database(store_url) == same_database(scope.url))""", """        mgr = get_connection_manager()
        return mgr._parse_sqlite_path(scope.url) == mgr._parse_sqlite_path(store_url)""")])
case("c13-txn-catches-exception-only", "C13", "mutant", [("src/stabilize/persistence/sqlite/store/store.py", "        except BaseException:", "        except Exception:")], "C13.R2")
case("c06-pause-unconditional", "C06", "mutant", [("src/stabilize/persistence/sqlite/operations.py", "        WHERE id = :id AND status IN (:running, :not_started)", "        WHERE id = :id")], "C06.R3")
case("c06-pause-also-from-succeeded", "C06", "mutant", [("src/stabilize/persistence/sqlite/operations.py", '            "not_started": WorkflowStatus.NOT_STARTED.name,', '            "not_started": WorkflowStatus.SUCCEEDED.name,')], "C06.R3")
case("c16-memoised-decoder", "C16", "mutant", [("src/stabilize/persistence/sqlite/queries.py", "def load_tasks_for_stages(", "import functools\n\n\n@functools.lru_cache(maxsize=None)\ndef _decode(raw: str) -> Any:\n    return json.loads(raw)\n\n\ndef load_tasks_for_stages("), ("src/stabilize/persistence/sqlite/queries.py", """        outputs = json.loads(row["outputs"] or "{}")""", """        outputs = _decode(row["outputs"] or "{}")""")], "C16.R2")
case("c16-refactor-decode-helper", "C16", "refactor", [("src/stabilize/persistence/sqlite/queries.py", "def load_tasks_for_stages(", "def _decode(raw: str) -> Any:\n    return json.loads(raw)\n\n\ndef load_tasks_for_stages("), ("src/stabilize/persistence/sqlite/queries.py", """        outputs = json.loads(row["outputs"] or "{}")""", """        outputs = _decode(row["outputs"] or "{}")""")])
case("c16-refactor-reducer-locals", "C16", "refactor", [("src/stabilize/reducers.py", """        values = [outputs[key] for outputs in branch_outputs if key in outputs]
        if values:
            result[key] = reducer(values)""", """        found = [bo[key] for bo in branch_outputs if key in bo]
        if not found:
            continue
        result[key] = reducer(found)""")])
case("c03-refactor-skip-branch-first", "C03", "refactor", [(H + "start_stage/handler.py", """                if readiness.phase == PredicatePhase.SKIP:
                    logger.warning(""", """                if readiness.phase is PredicatePhase.SKIP:
                    logger.warning(""")])
case("c01-queue-push-inherits-message-id", "C01", "mutant", [("src/stabilize/queue/sqlite/queue.py", "        message_id = str(uuid.uuid4())", "        message_id = message.message_id or str(uuid.uuid4())")], "C01.R5")
case("c01-refactor-row-id-helper", "C01", "refactor", [("src/stabilize/queue/sqlite/queue.py", "        message_id = str(uuid.uuid4())", "        row_identity = uuid.uuid4()\n        message_id = str(row_identity)")])
case("c06-jump-without-source-guard", "C06", "mutant", [(H + "jump_to_stage/handler.py", "            if source_stage.status != WorkflowStatus.RUNNING:", "            if source_stage.status.is_complete and False:")], "C06.R2")
case("c11-choice-claimed-by-any-left-sibling", "C11", "mutant", [(H + "start_stage/conditions.py", "            if s.status != WorkflowStatus.NOT_STARTED and s.start_time is not None:", "            if s.status != WorkflowStatus.NOT_STARTED:")], "C11.R6")
case("c11-refactor-choice-claimed-any", "C11", "refactor", [(H + "start_stage/conditions.py", """        for s in all_stages:
            if s.id == stage.id:
                continue
            if s.deferred_choice_group != stage.deferred_choice_group:
                continue""", """        for s in all_stages:
            if s.id == stage.id or s.deferred_choice_group != stage.deferred_choice_group:
                continue""")])
case("c04-trigger-only-last-upstream", "C04", "mutant", [(H + "complete_stage/handler.py", "                            for downstream in activated_downstreams:", "                            for downstream in [d for d in activated_downstreams if d.all_upstream_stages_complete()]:")], "C04.R5")
case("c09-sweep-string-compare", "C09", "mutant", [("src/stabilize/persistence/sqlite/operations.py", "WHERE datetime(processed_at) < datetime(:cutoff)", "WHERE processed_at < :cutoff")], "C09.R5")
case("c02-merge-reads-end-time", "C02", "mutant", [("src/stabilize/persistence/sqlite/queries.py", "        SELECT ref_id, requisite_stage_ref_ids, outputs\n", "        SELECT ref_id, requisite_stage_ref_ids, outputs, end_time\n")], "C02.R6")
case("c02-jump-leaves-redirect-task", "C02", "mutant", [(H + "jump_to_stage/reset.py", "        if task.status in (WorkflowStatus.RUNNING, WorkflowStatus.REDIRECT):", "        if task.status == WorkflowStatus.RUNNING:")], "C02.R7")
case("c08-poll-raw-deliver-at", "C08", "mutant", [("src/stabilize/queue/sqlite/queue.py", "datetime(deliver_at) <= datetime('now', 'utc')", "deliver_at <= datetime('now', 'utc')")], "C08.R1")
case("c10-starttask-while-task-running", "C10", "mutant", [("src/stabilize/recovery.py", "                elif not_started_tasks and not self._before_stages_complete(stage, full_workflow):", "                if not_started_tasks and not self._before_stages_complete(stage, full_workflow):")], None)
case("c16-refactor-overlay-prefiltered-own", "C16", "refactor", [(H + "start_stage/planner.py", """        merged = ancestor_outputs
        for key, value in stage.context.items():
            if key in reducers:
                # A reducer produced the authoritative value for this key;
                # do not let the join stage's own context override it.
                continue
            if key in inherited or key == "_inherited_keys":
                continue
""", """        own = {k: v for k, v in stage.context.items() if k not in inherited and k != "_inherited_keys"}
        merged = ancestor_outputs
        for key, value in own.items():
            if key in reducers:
                # A reducer produced the authoritative value for this key;
                # do not let the join stage's own context override it.
                continue
""")])
case("c15-rearm-keeps-delivered-signal", "C15", "mutant", [(H + "jump_to_stage/reset.py", '    for key in ("_signal_name", "_signal_data"):', '    for key in ("_signal_data",):')], "C15.R6")
case("c05-late-startstage-ignored-when-canceled", "C05", "mutant", [(H + "start_stage/handler.py", "                if stage.status.is_halt:\n                    # The stage was halted before it could start", "                if stage.status == WorkflowStatus.TERMINAL:\n                    # The stage was halted before it could start")], "C05.R15")
case("c05-refactor-late-startstage-halt-set", "C05", "refactor", [(H + "start_stage/handler.py", "                if stage.status.is_halt:\n                    # The stage was halted before it could start", "                if stage.status in (WorkflowStatus.TERMINAL, WorkflowStatus.CANCELED, WorkflowStatus.STOPPED):\n                    # The stage was halted before it could start")])
