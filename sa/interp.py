"""E2/E3/E4 - path enumeration with an abstract store and effect trace.

The interpreter walks the syntax tree of an entry function along every path,
inlining the repository's own helpers (handlers, TransactionHelper, recovery,
local closures, self-methods through the MRO) and summarising the store / queue /
transaction / recorder APIs as effect events. Nothing of the repository is
imported or executed: `ast` nodes are interpreted over abstract values.
"""
from __future__ import annotations

import ast
from dataclasses import replace

from .absval import (
    TOP, ClassV, Const, EnumV, Event, FuncV, ListV, MsgV, ObjData, Ref, State, StatusSetV, StatusV, Svc, SymV, TupleV, Txn,
    dedupe, ev,
)
from .model import AnalysisError, ClassInfo, FuncInfo, Module, Program

from .interp_cfg import *  # noqa: F401,F403
from .interp_cfg import STORED_ATTRS, PATH_CAP, DEPTH_CAP, INLINE_PREFIXES, PASS_DECORATORS, SELF_SERVICES, ANNOT_SERVICES, EXPLICIT_ONLY
from .interp_eval import EvalMixin, Outcome


import os
DEBUG = int(os.environ.get('SA_DEBUG', '0'))


class Interp(EvalMixin):
    def __init__(self, prog: Program, st_tables, assume_true: tuple[str, ...] = ("message.message_id", "hasattr(message, 'message_id')", "<recorder>"), watch: set[str] | None = None, guards: set[str] | None = None,
                 inline_prefixes: tuple[str, ...] = INLINE_PREFIXES, msg_field_sets: dict | None = None) -> None:
        self.prog = prog
        self.T = st_tables
        self.ALL = frozenset(st_tables.members)
        self.assume_true = set(assume_true)
        self.watch = watch or set()
        self.guards = guards or set()
        self.path_cap = PATH_CAP
        self.inline_prefixes = inline_prefixes
        self.msg_field_sets = msg_field_sets or {}
        self.paths_seen = 0
        self.infeasible = 0
        self.unresolved_sensitive: list[tuple] = []
        self.msg_classes = self._message_classes()
        self.constructed: list[MsgV] = []
        self._test_idx: dict = {}
        self._live_idx: dict = {}
        self._fact_last: dict = {}

    def _message_classes(self) -> dict[str, ClassInfo]:
        m = self.prog.module("stabilize.queue.messages")
        return dict(m.classes)

    # =================================================================== entry
    def run_function(self, fi: FuncInfo, self_cls: ClassInfo | None = None, args: dict | None = None, st: State | None = None) -> list[tuple[State, Outcome]]:
        """Enumerate all paths of `fi`. `args`: param name -> ('message', clsname) | ('stage',) | ... or AbsVal."""
        st = st or State()
        fid = self._push_frame(st, fi, None)
        params = [a.arg for a in fi.node.args.posonlyargs + fi.node.args.args + fi.node.args.kwonlyargs]
        for i, p in enumerate(params):
            spec = (args or {}).get(p)
            if p == "self" and i == 0 and (self_cls or fi.cls):
                st.frames[fid][p] = st.new_obj("self", "self", self_cls or fi.cls, ("param", "self"))
            elif spec is not None and not isinstance(spec, tuple):
                st.frames[fid][p] = spec
            elif isinstance(spec, tuple) and spec and isinstance(spec[0], str):
                kind = spec[0]
                cls = spec[1] if len(spec) > 1 else None
                st.frames[fid][p] = st.new_obj(p, kind, cls, ("param", p))
            else:
                st.frames[fid][p] = self._param_default(st, fi, p)
        st.stack = (fi,)
        res = self._run_body(fi.node.body, st)
        out: list[tuple[State, Outcome]] = []
        for s, o in res:
            out.append((s, o))
        self.paths_seen += len(out)
        return out

    def _param_default(self, st: State, fi: FuncInfo, p: str):
        ann = None
        for a in fi.node.args.posonlyargs + fi.node.args.args + fi.node.args.kwonlyargs:
            if a.arg == p and a.annotation is not None:
                ann = ast.unparse(a.annotation).strip("'\"")
        if ann:
            base = ann.split("|")[0].strip()
            if base in ANNOT_SERVICES:
                return Svc(ANNOT_SERVICES[base])
            if base == "TransactionHelper":
                return self._helper_obj(st)
            if base == "StageExecution":
                return st.new_obj(p, "stage", None, ("param", p))
            if base == "TaskExecution":
                return st.new_obj(p, "task", None, ("param", p))
            if base == "Workflow":
                return st.new_obj(p, "workflow", None, ("param", p))
            if base in self.msg_classes:
                return st.new_obj(p, "message", base, ("param", p))
        return TOP

    def _helper_obj(self, st: State) -> Ref:
        ci = self.prog.cls("stabilize.persistence.transaction", "TransactionHelper")
        if "txn_helper" not in st.objs:
            st.new_obj("txn_helper", "self", ci, ("helper",))
        return Ref("txn_helper")

    def mk(self, st: State, node, kind: str, cls=None, origin: tuple = (), maybe_none: bool = False, elem: str = "", tag: str = "") -> Ref:
        """Allocate an abstract object keyed by its creation site (position + call-site chain)."""
        fi = st.stack[-1] if st.stack else None
        pos = f"{getattr(node, 'lineno', 0)}:{getattr(node, 'col_offset', 0)}" if node is not None else "?"
        chain = "/".join(f"{a}.{b}" for a, b in st.calls)
        mod = fi.module.name.split(".")[-1] if fi else "?"
        key = f"{kind}@{mod}:{pos}{('~' + tag) if tag else ''}{('<' + chain) if chain else ''}"
        return st.new_obj(key, kind, cls, origin, maybe_none, elem)

    def _run_body(self, body, st: State) -> list[tuple[State, Outcome]]:
        normal, abrupt = self.exec_block(body, [st])
        out = [(s, Outcome("return", Const(None))) for s in normal]
        out.extend(abrupt)
        return out

    # ================================================================== frames
    def _push_frame(self, st: State, fi: FuncInfo | None, closure: int | None, module: Module | None = None) -> int:
        fid = st.next_fid
        st.next_fid += 1
        st.frames[fid] = {"__fi__": fi, "__parent__": closure, "__mod__": module or (fi.module if fi else None), "__caller__": st.cur,
                          "__objs0__": frozenset(st.objs)}
        st.cur = fid
        return fid

    def _pop_frame(self, st: State, fid: int) -> None:
        caller = st.frames[fid]["__caller__"]
        del st.frames[fid]
        st.cur = caller

    def lookup(self, st: State, name: str):
        fid: int | None = st.cur
        mod = None
        while fid is not None:
            fr = st.frames.get(fid)
            if fr is None:
                break
            mod = mod or fr["__mod__"]
            if name in fr:
                return fr[name]
            fid = fr["__parent__"]
        if mod is None and st.cur in st.frames:
            mod = st.frames[st.cur]["__mod__"]
        return self._module_name(mod, name)

    def _module_name(self, mod: Module | None, name: str):
        if mod is not None:
            r = self.prog.resolve(mod, name)
            if isinstance(r, ClassInfo):
                return ClassV(r)
            if isinstance(r, FuncInfo):
                return FuncV(r, r.node, None, None, (), r.module)
            # constants / status sets
            src = mod
            if name in mod.imports and mod.imports[name][1] is not None:
                src = self.prog.modules.get(mod.imports[name][0])
                name2 = mod.imports[name][1]
            else:
                name2 = name
            if src is not None and name2 in src.assigns:
                if src.name == "stabilize.models.status" and name2 in self.T.sets:
                    return StatusSetV(self.T.sets[name2])
                v = src.assigns[name2]
                if isinstance(v, ast.Constant):
                    return Const(v.value)
                return SymV(f"{src.name}.{name2}")
        if name in ("True", "False", "None"):
            return Const({"True": True, "False": False, "None": None}[name])
        return SymV(f"<global>{name}")

    def assign_name(self, st: State, name: str, val) -> None:
        # python scoping: assignment binds in the current frame
        fr = st.frames[st.cur]
        fr[name] = val
        key = f"f{st.cur}.{name}"
        if st.facts:
            for k in [k for k in st.facts if key in k]:
                del st.facts[k]

    # ============================================================ descriptions
    def desc(self, st: State, v) -> str:
        if isinstance(v, Ref):
            o = st.objs.get(v.oid)
            if o is None:
                return f"obj#{v.oid}"
            return str(v.oid)
        if isinstance(v, SymV):
            return v.text
        if isinstance(v, Const):
            return repr(v.value)
        if isinstance(v, EnumV):
            return f"{v.cls}.{v.member}"
        return type(v).__name__

    def canon(self, st: State, expr: ast.AST) -> str:
        """Canonical text of an expression for fact keys: locals replaced by the identity of their value."""
        interp = self

        class R(ast.NodeTransformer):
            def visit_Name(self, n: ast.Name):
                fid = st.cur
                while fid is not None and fid in st.frames:
                    fr = st.frames[fid]
                    if n.id in fr:
                        v = fr[n.id]
                        if isinstance(v, (Ref, SymV)):
                            return ast.Name(id=interp.desc(st, v).replace(" ", "_"), ctx=ast.Load())
                        if isinstance(v, Svc):
                            return ast.Name(id=f"<{v.kind}>", ctx=ast.Load())
                        return ast.Name(id=f"f{fid}.{n.id}", ctx=ast.Load())
                    fid = fr["__parent__"]
                return n

            def visit_Attribute(self, n: ast.Attribute):
                # self.repository -> <store>
                if isinstance(n.value, ast.Name) and n.attr in SELF_SERVICES:
                    v = interp.lookup(st, n.value.id)
                    if isinstance(v, Ref) and st.objs.get(v.oid) and st.objs[v.oid].kind == "self":
                        return ast.Name(id=f"<{SELF_SERVICES[n.attr]}>", ctx=ast.Load())
                return self.generic_visit(n)

        try:
            import copy

            t = R().visit(copy.deepcopy(expr))
            return " ".join(ast.unparse(t).split())
        except Exception:
            return " ".join(ast.unparse(expr).split())

    def site(self, st: State, node: ast.AST) -> tuple:
        fi = st.stack[-1] if st.stack else None
        rel = fi.file if fi else "?"
        return (rel, getattr(node, "lineno", 0))

    def ctx(self, st: State) -> str:
        return ">".join(f.qualname for f in st.stack)

    # ================================================================== blocks
    def exec_block(self, stmts, states: list[State]):
        abrupt: list[tuple[State, Outcome]] = []
        cur = states
        for stn in stmts:
            if not cur:
                break
            nxt: list[State] = []
            for s in cur:
                n, a = self.exec_stmt(stn, s)
                nxt.extend(n)
                abrupt.extend(a)
            self._expire_facts(nxt, stn)
            self._expire_locals(nxt, stn)
            if len(nxt) > 6:
                nxt = dedupe(nxt)
            if DEBUG and len(nxt) > DEBUG:
                print(f"[dbg] {self.site(cur[0], stn)} {type(stn).__name__}: {len(cur)} -> {len(nxt)} states, abrupt {len(abrupt)}")
            if len(abrupt) > 64:
                abrupt = _dedupe_abrupt(abrupt)
            if len(nxt) + len(abrupt) > self.path_cap:
                raise AnalysisError(f"path cap exceeded at {self.site(cur[0], stn)}")
            cur = nxt
        return cur, abrupt

    # fact liveness: a fact is dropped once its condition text cannot be tested again in its function
    def _test_index(self, fnode) -> dict:
        idx = self._test_idx.get(id(fnode))
        if idx is None:
            idx = {}

            def add(e, line):
                t = " ".join(ast.unparse(e).split())
                idx[t] = max(idx.get(t, 0), line)
                if isinstance(e, ast.BoolOp):
                    for v in e.values:
                        add(v, line)
                elif isinstance(e, ast.UnaryOp) and isinstance(e.op, ast.Not):
                    add(e.operand, line)

            for n in ast.walk(fnode):
                if isinstance(n, (ast.If, ast.While, ast.IfExp)):
                    add(n.test, _E(n))
                elif isinstance(n, ast.comprehension):
                    for c in n.ifs:
                        add(c, _E(c))
                elif isinstance(n, ast.Assert):
                    add(n.test, _L(n))
            self._test_idx[id(fnode)] = idx
        return idx

    def _note_fact(self, st: State, key: str, expr: ast.expr) -> None:
        fi = st.stack[-1] if st.stack else None
        if fi is None:
            return
        raw = " ".join(ast.unparse(expr).split())
        last = self._test_index(fi.node).get(raw, _E(expr))
        self._fact_last.setdefault(key, {})[id(fi.node)] = last

    def _live_index(self, fnode) -> dict:
        idx = self._live_idx.get(id(fnode))
        if idx is None:
            idx = {}
            INF = 1 << 30

            def walk(n, nested):
                for c in ast.iter_child_nodes(n):
                    if isinstance(c, (ast.FunctionDef, ast.AsyncFunctionDef, ast.Lambda)):
                        walk(c, True)
                        continue
                    if isinstance(c, ast.Name) and not isinstance(c.ctx, ast.Store):
                        idx[c.id] = max(idx.get(c.id, 0), INF if nested else _L(c))
                    elif isinstance(c, ast.Name) and nested:
                        idx[c.id] = INF
                    walk(c, nested)

            walk(fnode, False)
            # names used inside loops stay live until the loop ends
            for n in ast.walk(fnode):
                if isinstance(n, (ast.For, ast.While, ast.AsyncFor)):
                    end = _E(n) + 1
                    for c in ast.walk(n):
                        if isinstance(c, ast.Name) and idx.get(c.id, 0) < end:
                            idx[c.id] = end
                elif isinstance(n, ast.Try):
                    # a handler / finally may read anything read in its try statement
                    end = _E(n) + 1
                    for part in n.handlers + n.finalbody:
                        for c in ast.walk(part):
                            if isinstance(c, ast.Name) and idx.get(c.id, 0) < end:
                                idx[c.id] = end
            self._live_idx[id(fnode)] = idx
        return idx

    def _expire_locals(self, states: list, stn: ast.stmt) -> None:
        end = _E(stn) or None
        if end is None or isinstance(stn, (ast.FunctionDef, ast.AsyncFunctionDef)):
            return
        for s in states:
            if s.loop or not s.stack:
                continue
            fr = s.frames.get(s.cur)
            if fr is None or fr.get("__fi__") is not s.stack[-1]:
                continue
            idx = self._live_index(s.stack[-1].node)
            dead = [k for k in fr if not k.startswith("__") and idx.get(k, 0) <= end]
            if not dead:
                continue
            for k in dead:
                del fr[k]
            self.gc(s, None, fr.get("__objs0__", frozenset(s.objs)))

    def _expire_facts(self, states: list, stn: ast.stmt) -> None:
        end = _E(stn) or None
        if end is None:
            return
        for s in states:
            if not s.facts or s.loop or not s.stack:
                continue
            fid = id(s.stack[-1].node)
            dead = [k for k in s.facts if self._fact_last.get(k, {}).get(fid, 1 << 30) <= end]
            for k in dead:
                del s.facts[k]

    def exec_stmt(self, node: ast.stmt, st: State):
        meth = getattr(self, "s_" + type(node).__name__, None)
        if meth is None:
            raise AnalysisError(f"statement kind {type(node).__name__} not supported at {self.site(st, node)}")
        return meth(node, st)

    # -- simple statements
    def s_Pass(self, node, st):
        return [st], []

    s_Import = s_Global = s_Nonlocal = s_Pass

    def s_ImportFrom(self, node, st):
        # function-local import: bind what the program model can resolve
        mod = st.frames[st.cur]["__mod__"]
        if node.module and node.level == 0:
            target = self.prog.modules.get(node.module)
            for a in node.names:
                r = self.prog.resolve(target, a.name) if target is not None else None
                if isinstance(r, ClassInfo):
                    self.assign_name(st, a.asname or a.name, ClassV(r))
                elif isinstance(r, FuncInfo):
                    self.assign_name(st, a.asname or a.name, FuncV(r, r.node, None, None, (), r.module))
                elif target is not None and target.name == "stabilize.models.status" and a.name in self.T.sets:
                    self.assign_name(st, a.asname or a.name, StatusSetV(self.T.sets[a.name]))
        return [st], []

    def s_Assert(self, node, st):
        return [st], []

    def s_Expr(self, node, st):
        if isinstance(node.value, ast.Constant):
            return [st], []
        abrupt: list = []
        res = self.eval(node.value, st, abrupt)
        return [s for s, _ in res], abrupt

    def s_Delete(self, node, st):
        for t in node.targets:
            if isinstance(t, ast.Subscript):
                self._ctx_event(st, t, "delete", node)
        return [st], []

    def s_Return(self, node, st):
        if node.value is None:
            return [], [(st, Outcome("return", Const(None)))]
        abrupt: list = []
        res = self.eval(node.value, st, abrupt)
        return [], abrupt + [(s, Outcome("return", v)) for s, v in res]

    def s_Raise(self, node, st):
        if node.exc is None:
            cur = st.frames[st.cur].get("__exc__") or self._find_exc(st)
            return [], [(st, Outcome("raise", cur[1] if cur else TOP, cur[0] if cur else "Exception"))]
        abrupt: list = []
        out = []
        for s, v in self.eval(node.exc, st, abrupt):
            name = "Exception"
            if isinstance(v, Ref) and s.objs[v.oid].kind == "exc":
                c = s.objs[v.oid].cls
                name = c.name if isinstance(c, ClassInfo) else str(c)
            elif isinstance(v, ClassV):
                name = v.ci.name
            elif isinstance(node.exc, ast.Call):
                name = ast.unparse(node.exc.func).split(".")[-1]
            elif isinstance(node.exc, ast.Name):
                # `raise e` of a bound exception variable
                cur = self._find_exc(s)
                if cur:
                    name = cur[0]
            out.append((s, Outcome("raise", v, name)))
        return [], abrupt + out

    def _find_exc(self, st: State):
        fid = st.cur
        while fid is not None and fid in st.frames:
            fr = st.frames[fid]
            if "__exc__" in fr:
                return fr["__exc__"]
            fid = fr["__parent__"]
        return None

    def s_Break(self, node, st):
        return [], [(st, Outcome("break"))]

    def s_Continue(self, node, st):
        return [], [(st, Outcome("continue"))]

    def s_FunctionDef(self, node, st):
        for d in node.decorator_list:
            dn = ast.unparse(d).split("(")[0].split(".")[-1]
            if dn not in PASS_DECORATORS and isinstance(d, ast.Name) and st.stack:
                from .interp_cfg import PASS_DECORATOR_FACTORIES
                for a_ in ast.walk(st.stack[-1].node):
                    if isinstance(a_, ast.Assign) and len(a_.targets) == 1 and isinstance(a_.targets[0], ast.Name) and a_.targets[0].id == d.id and isinstance(a_.value, ast.Call) \
                            and ast.unparse(a_.value.func).split(".")[-1] in PASS_DECORATOR_FACTORIES:
                        dn = None
            if dn is not None and dn not in PASS_DECORATORS:
                raise AnalysisError(f"decorator {dn} on local function {node.name} not in the reviewed pass-through list at {self.site(st, node)}")
        fi = st.stack[-1] if st.stack else None
        sub = FuncInfo(node.name, f"{fi.qualname}.{node.name}" if fi else node.name, st.frames[st.cur]["__mod__"], node, fi.cls if fi else None, fi)
        self.assign_name(st, node.name, FuncV(sub, node, None, st.cur, (), sub.module))
        return [st], []

    s_AsyncFunctionDef = s_FunctionDef

    def s_ClassDef(self, node, st):
        self.assign_name(st, node.name, SymV(f"<localclass>{node.name}"))
        return [st], []

    def s_Assign(self, node, st):
        abrupt: list = []
        out = []
        for s, v in self.eval(node.value, st, abrupt):
            for t in node.targets:
                self.assign_target(t, v, s, node)
            out.append(s)
        return out, abrupt

    def s_AnnAssign(self, node, st):
        if node.value is None:
            return [st], []
        abrupt: list = []
        out = []
        for s, v in self.eval(node.value, st, abrupt):
            self.assign_target(node.target, v, s, node)
            out.append(s)
        return out, abrupt

    def s_AugAssign(self, node, st):
        abrupt: list = []
        out = []
        for s, _ in self.eval(node.value, st, abrupt):
            self.assign_target(node.target, TOP, s, node)
            out.append(s)
        return out, abrupt

    def assign_target(self, t, v, st: State, stmt) -> None:
        if isinstance(t, ast.Name):
            self.assign_name(st, t.id, v)
        elif isinstance(t, (ast.Tuple, ast.List)):
            elems = v.elems if isinstance(v, (TupleV, ListV)) and len(v.elems) == len(t.elts) else [TOP] * len(t.elts)
            for sub, sv in zip(t.elts, elems):
                self.assign_target(sub, sv, st, stmt)
        elif isinstance(t, ast.Attribute):
            tmp: list = []
            base = self.eval(t.value, st, tmp)
            if base and isinstance(base[0][1], Ref):
                ref = base[0][1]
                o = st.objs[ref.oid]
                if t.attr == "status" and o.kind in ("stage", "task", "workflow", "obj"):
                    cur = o.get("status")
                    frm = cur.members if isinstance(cur, StatusV) else self.ALL
                    to = v.members if isinstance(v, StatusV) else self.ALL
                    st.emit(ev("status_write", self.site(st, stmt), oid=ref.oid, okind=o.kind, origin=o.origin, frm=frm, to=to,
                               ctx=self.ctx(st), validated=self._validated(st, ref, to), own=self.is_own(st, ref), loop=st.lp(),
                               text=" ".join(ast.unparse(stmt).split())))
                    st.set_attr(ref, "status", v if isinstance(v, StatusV) else StatusV(self.ALL))
                else:
                    if t.attr == "context":
                        st.emit(ev("ctx", self.site(st, stmt), op="replace", oid=ref.oid, key="*", ctx=self.ctx(st)))
                    if t.attr in STORED_ATTRS or o.kind in ("exc", "self"):
                        st.set_attr(ref, t.attr, v)
        elif isinstance(t, ast.Subscript):
            self._ctx_event(st, t, "write", stmt, v)
        elif isinstance(t, ast.Starred):
            self.assign_target(t.value, TOP, st, stmt)

    def _validated(self, st: State, ref: Ref, to) -> bool:
        """True when the last trace event is a validate of exactly this object's transition."""
        lv = st.frames[st.cur].get("__validated__")
        return bool(lv) and lv[0] == ref.oid

    def _ctx_event(self, st: State, sub: ast.Subscript, op: str, stmt, val=None) -> None:
        # X.context[KEY] (=|del)
        tgt = sub.value
        if isinstance(tgt, ast.Attribute) and tgt.attr in ("context", "outputs"):
            tmp: list = []
            base = self.eval(tgt.value, st, tmp)
            if base and isinstance(base[0][1], Ref):
                key = sub.slice.value if isinstance(sub.slice, ast.Constant) else "?"
                vk = val.value if isinstance(val, Const) else None
                st.emit(ev("ctx", self.site(st, stmt), op=op, oid=base[0][1].oid, key=key, field=tgt.attr, value=vk, ctx=self.ctx(st)))

    # -- compound statements
    def s_If(self, node, st):
        abrupt: list = []
        normal: list[State] = []
        for s, truth in self.cond(node.test, st, abrupt):
            if truth:
                n, a = self.exec_block(node.body, [s])
            else:
                n, a = self.exec_block(node.orelse, [s])
            normal.extend(n)
            abrupt.extend(a)
        return normal, abrupt

    def s_With(self, node, st):
        abrupt: list = []
        states = [st]
        txns: list[int] = []
        for item in node.items:
            nxt = []
            for s in states:
                for s2, v in self.eval(item.context_expr, s, abrupt):
                    if isinstance(v, Txn):
                        s2.txn = s2.txn + (v.tid,)
                        s2.emit(ev("txn_begin", self.site(s2, node), tid=v.tid, ctx=self.ctx(s2), owns=self.own_statuses(s2)))
                        txns.append(v.tid)
                    if item.optional_vars is not None:
                        self.assign_target(item.optional_vars, v, s2, node)
                    nxt.append(s2)
            states = nxt
        is_txn = bool(txns)
        n, a = self.exec_block(node.body, states)
        if not is_txn:
            return n, abrupt + a
        out_n = []
        for s in n:
            self._txn_end(s, node, True)
            out_n.append(s)
        out_a = []
        for s, o in a:
            self._txn_end(s, node, o.kind != "raise")
            out_a.append((s, o))
        return out_n, abrupt + out_a

    def _txn_end(self, st: State, node, commit: bool) -> None:
        if not st.txn:
            return
        tid = st.txn[-1]
        st.txn = st.txn[:-1]
        if not commit:
            # nothing of a rolled-back transaction is durable: compact its events into one marker
            idx = None
            for i in range(len(st.trace) - 1, -1, -1):
                e = st.trace[i]
                if e.kind == "txn_begin" and e.get("tid") == tid:
                    idx = i
                    break
            if idx is not None:
                dropped = st.trace[idx:]
                kinds = tuple(sorted({e.kind + (":" + str(e.get("key"))[:12] if e.kind == "claim" else "") for e in dropped if e.kind not in ("txn_begin",)}))
                st.trace = st.trace[:idx]
                st.thash = 0
                for e in st.trace:
                    st.thash = hash((st.thash, e))
                st.emit(ev("txn_rollback", self.site(st, node), tid=tid, attempted=kinds))
                return
        st.emit(ev("txn_commit" if commit else "txn_rollback", self.site(st, node), tid=tid, owns=self.own_statuses(st) if commit else ()))

    def s_For(self, node, st):
        abrupt: list = []
        out: list[State] = []
        for s, it in self.eval(node.iter, st, abrupt):
            out_s, a = self._loop(node, s, it)
            out.extend(out_s)
            abrupt.extend(a)
        return out, abrupt

    s_AsyncFor = s_For

    def _iter_elems(self, st: State, it, node=None):
        """-> (list of element values to iterate, may_be_empty)"""
        if isinstance(it, (ListV, TupleV)):
            elems = list(it.elems)
            if isinstance(it, ListV) and it.open:
                if not elems:
                    elems = [TOP]
                return elems, not it.nonempty
            return elems, False
        if isinstance(it, Ref):
            o = st.objs[it.oid]
            if o.kind == "list":
                ne = o.get("__nonempty__")
                if ne == Const(False):
                    return [], True
                e = self.mk(st, node, o.elem or "obj", None, ("iter", it.oid, o.origin), tag="it:" + str(it.oid)[:40])
                return [e], ne != Const(True)
        return [TOP], True

    def _loop(self, node, st: State, it):
        elems, may_empty = self._iter_elems(st, it, node)
        unroll = isinstance(it, (ListV, TupleV)) and not (isinstance(it, ListV) and it.open)
        # elements of an open list may each occur zero times; a possibly-empty collection may not iterate at all
        opt = 1 if (may_empty or (isinstance(it, ListV) and it.open and len(it.elems) > 1)) else 0
        results: list[State] = []
        abrupt: list = []
        st_trace0 = st.trace
        if may_empty or not elems:
            s0 = st.copy()
            n0, a0 = self.exec_block(node.orelse, [s0]) if node.orelse else ([s0], [])
            results.extend(n0)
            abrupt.extend(a0)
        if not elems:
            return results, abrupt
        cur = [st]
        for e in elems:
            nxt: list[State] = []
            for s in cur:
                if not unroll:
                    s.loop += 1
                    s.loopopt += opt
                self.assign_target(node.target, e, s, node)
                n, a = self.exec_block(node.body, [s])
                for s2, o in a:
                    if o.kind == "continue":
                        n.append(s2)
                    elif o.kind == "break":
                        if not unroll:
                            s2.loop -= 1
                            s2.loopopt -= opt
                        results.append(s2)
                    else:
                        if not unroll:
                            s2.loop = max(0, s2.loop - 1)
                            s2.loopopt = max(0, s2.loopopt - opt)
                        abrupt.append((s2, o))
                for s2 in n:
                    if not unroll:
                        s2.loop -= 1
                        s2.loopopt -= opt
                nxt.extend(n)
            cur = dedupe(nxt)
        if node.orelse:
            n, a = self.exec_block(node.orelse, cur)
            results.extend(n)
            abrupt.extend(a)
        else:
            results.extend(cur)
        # a loop that only builds local values: the zero-iteration variant is subsumed by the
        # iterated one (lists built in a loop are "open": each element may occur 0..n times)
        if not unroll and len(results) > 1 and may_empty and not node.orelse:
            zero = results[0]
            if zero.trace == st_trace0:
                n0 = len(st_trace0)
                for other in results[1:]:
                    if other.trace[:n0] == st_trace0 and all(e.kind in _LOOP_OPTIONAL for e in other.trace[n0:]):
                        results = results[1:]
                        break
        return dedupe(results), abrupt

    def s_While(self, node, st):
        abrupt: list = []
        results: list[State] = []
        for s, truth in self.cond(node.test, st, abrupt):
            if not truth:
                results.append(s)
                continue
            s.loop += 1
            s.loopopt += 1
            n, a = self.exec_block(node.body, [s])
            for s2, o in a:
                if o.kind in ("continue",):
                    n.append(s2)
                elif o.kind == "break":
                    s2.loop -= 1
                    s2.loopopt -= 1
                    results.append(s2)
                else:
                    s2.loop = max(0, s2.loop - 1)
                    s2.loopopt = max(0, s2.loopopt - 1)
                    abrupt.append((s2, o))
            for s2 in n:
                s2.loop -= 1
                s2.loopopt -= 1
                # facts about the loop condition are stale after one iteration
                key = self.canon(s2, node.test)
                s2.facts.pop(key, None)
                results.append(s2)
        return dedupe(results), abrupt

    def s_Try(self, node, st):
        st0 = st.copy()
        body_n, body_a = self.exec_block(node.body, [st])
        normal: list[State] = []
        abrupt: list = []
        caught: list[tuple[State, Outcome, ast.ExceptHandler]] = []
        entered: set[int] = set()
        for s, o in body_a:
            if o.kind == "raise":
                if o.exc.endswith("?"):
                    # an exception of unknown type: every clause that is not explicit-only may catch it
                    cands = [h for h in node.handlers if not (self._handler_names(h) and all(n in EXPLICIT_ONLY for n in self._handler_names(h)))]
                    for h in cands:
                        caught.append((s.copy(), o, h))
                        entered.add(id(h))
                    if not any(not self._handler_names(h) or set(self._handler_names(h)) & {"Exception", "BaseException"} for h in cands):
                        abrupt.append((s, o))  # may also escape
                    continue
                h = self._match_handler(node.handlers, o.exc, s)
                if h is not None:
                    caught.append((s, o, h))
                    entered.add(id(h))
                    continue
            abrupt.append((s, o))
        # a clause no modelled source reaches is still analysed, entered from the try entry
        for h in node.handlers:
            names = self._handler_names(h)
            if id(h) in entered or (names and all(n in EXPLICIT_ONLY for n in names)):
                continue
            caught.append((st0.copy(), Outcome("raise", TOP, (names[0] if names else "Exception") + "?"), h))
        seen = set()
        for s, o, h in caught:
            if h.name:
                self.assign_name(s, h.name, o.val if o.val is not None else TOP)
            s.frames[s.cur]["__exc__"] = (o.exc.rstrip("?"), o.val)
            if o.exc.endswith("?"):
                s.emit(ev("synthetic", self.site(s, h), exc=o.exc, handler=",".join(self._handler_names(h)) or "bare"))
            self._expire_locals([s], _Line(_L(h) - 1))
            try:
                k = (s.sig(), id(h))
                hash(k)
            except TypeError:
                k = None
            if k is not None:
                if k in seen:
                    continue
                seen.add(k)
            n, a = self.exec_block(h.body, [s])
            for s2 in n:
                s2.frames[s2.cur].pop("__exc__", None)
            normal.extend(n)
            abrupt.extend(a)
        if node.orelse:
            n, a = self.exec_block(node.orelse, body_n)
            normal.extend(n)
            abrupt.extend(a)
        else:
            normal.extend(body_n)
        if node.finalbody:
            fn: list[State] = []
            fa: list = []
            n, a = self.exec_block(node.finalbody, dedupe(normal))
            fn.extend(n)
            fa.extend(a)
            for s, o in _dedupe_abrupt(abrupt):
                n, a = self.exec_block(node.finalbody, [s])
                fa.extend(a)
                fa.extend((s2, o) for s2 in n)
            return dedupe(fn), fa
        return dedupe(normal), _dedupe_abrupt(abrupt)

    s_TryStar = s_Try

    def _handler_names(self, h: ast.ExceptHandler) -> list[str]:
        if h.type is None:
            return []
        if isinstance(h.type, ast.Tuple):
            return [ast.unparse(e).split(".")[-1] for e in h.type.elts]
        return [ast.unparse(h.type).split(".")[-1]]

    def _exc_bases(self, name: str) -> set[str]:
        out = {name, "Exception", "BaseException"}
        for m in self.prog.modules.values():
            if name in m.classes:
                for c in self.prog.mro(m.classes[name]):
                    out.add(c.name)
                    for b in c.base_exprs:
                        out.add(ast.unparse(b).split(".")[-1])
                break
        return out

    def _match_handler(self, handlers, exc: str, st: State):
        bases = self._exc_bases(exc.rstrip("?"))
        for h in handlers:
            names = self._handler_names(h)
            if not names or any(n in bases for n in names):
                return h
        return None

    # ============================================================== conditions
    def cond(self, test: ast.expr, st: State, abrupt: list) -> list[tuple[State, bool]]:
        """Evaluate a branch condition; returns feasible (state, truth) pairs with refinements applied."""
        if isinstance(test, ast.UnaryOp) and isinstance(test.op, ast.Not):
            return [(s, not t) for s, t in self.cond(test.operand, st, abrupt)]
        if isinstance(test, ast.BoolOp):
            is_and = isinstance(test.op, ast.And)
            results: list[tuple[State, bool]] = []
            pending = [st]
            for i, v in enumerate(test.values):
                nxt = []
                for s in pending:
                    for s2, t in self.cond(v, s, abrupt):
                        if is_and and not t:
                            results.append((s2, False))
                        elif (not is_and) and t:
                            results.append((s2, True))
                        else:
                            nxt.append(s2)
                pending = nxt
            for s in pending:
                results.append((s, is_and))
            return results
        if isinstance(test, ast.NamedExpr):
            out = []
            for s, v in self.eval(test.value, st, abrupt):
                self.assign_target(test.target, v, s, test)
                out.extend(self._truth(test.target, v, s))
            return out
        # status comparisons with refinement
        r = self._status_cond(test, st, abrupt)
        if r is not None:
            if self.guards:
                raw = " ".join(ast.unparse(test).split())
                gm = self._guard_match(test, raw)
                if gm is not None:
                    for s2, t in r:
                        s2.emit(ev("guard", self.site(s2, test), text=gm[0], raw=gm[0], truth=(not t) if gm[1] else t))
            return r
        out = []
        for s, v in self.eval(test, st, abrupt):
            out.extend(self._truth(test, v, s))
        return out

    _FLIP = {ast.Is: ast.IsNot, ast.IsNot: ast.Is, ast.Eq: ast.NotEq, ast.NotEq: ast.Eq, ast.In: ast.NotIn, ast.NotIn: ast.In}

    def _guard_match(self, expr: ast.expr, raw: str, key: str | None = None):
        """(recorded text, flip) if this condition is one of the configured guards - in either polarity of a comparison"""
        if raw in self.guards or (key is not None and key in self.guards) or any(g.startswith("*") and raw.endswith(g[1:]) for g in self.guards):
            return raw, False
        if isinstance(expr, ast.Compare) and len(expr.ops) == 1 and type(expr.ops[0]) in self._FLIP:
            alt = " ".join(ast.unparse(ast.Compare(left=expr.left, ops=[self._FLIP[type(expr.ops[0])]()], comparators=expr.comparators)).split())
            if alt in self.guards or any(g.startswith("*") and alt.endswith(g[1:]) for g in self.guards):
                return alt, True
        return None

    def _truth(self, expr: ast.expr, v, st: State) -> list[tuple[State, bool]]:
        t = self.truthiness(v, st)
        if t is not None:
            return [(st, t)]
        key = self.canon(st, expr)
        raw = " ".join(ast.unparse(expr).split())
        gm = self._guard_match(expr, raw, key) if self.guards else None
        if key in st.facts:
            if gm is not None:
                st.emit(ev("guard", self.site(st, expr), text=key, raw=gm[0], truth=(not st.facts[key]) if gm[1] else st.facts[key]))
            return [(st, st.facts[key])]
        if raw in self.assume_true or key in self.assume_true:
            return [(st, True)]
        s_true = st
        s_false = st.copy()
        s_true.facts[key] = True
        s_false.facts[key] = False
        self._note_fact(st, key, expr)
        if gm is not None:
            s_true.emit(ev("guard", self.site(st, expr), text=key, raw=gm[0], truth=not gm[1]))
            s_false.emit(ev("guard", self.site(st, expr), text=key, raw=gm[0], truth=gm[1]))
        self._refine_truth(expr, v, s_true, True)
        self._refine_truth(expr, v, s_false, False)
        return [(s_true, True), (s_false, False)]

    def assign_name_keep_facts(self, st: State, name: str, val) -> None:
        fid = st.cur
        while fid is not None and fid in st.frames:
            if name in st.frames[fid]:
                st.frames[fid][name] = val
                return
            fid = st.frames[fid]["__parent__"]
        st.frames[st.cur][name] = val

    def truthiness(self, v, st: State):
        if isinstance(v, Const):
            return bool(v.value)
        if isinstance(v, Ref):
            o = st.objs[v.oid]
            if o.kind == "list":
                return None
            return None if o.maybe_none else True
        if isinstance(v, (FuncV, ClassV, Svc, Txn, MsgV, EnumV, StatusV)):
            if isinstance(v, Svc) and v.kind == "recorder":
                return None
            return True
        if isinstance(v, ListV):
            if v.nonempty or (v.elems and not v.open):
                return True
            if not v.elems and not v.open:
                return False
            return None
        if isinstance(v, TupleV):
            return bool(v.elems)
        return None

    # status-aware comparisons ------------------------------------------------
    def _status_operand(self, expr: ast.expr, st: State, abrupt: list):
        """If expr denotes a status value: returns (getter members, setter(members)) else None."""
        if isinstance(expr, ast.Attribute) and expr.attr == "status":
            tmp = self.eval(expr.value, st, abrupt)
            if len(tmp) == 1 and isinstance(tmp[0][1], Ref):
                ref = tmp[0][1]
                o = st.objs[ref.oid]
                cur = o.get("status")
                if o.kind in ("stage", "task", "workflow") or isinstance(cur, StatusV) or (o.kind == "message" and expr.attr == "status") or o.kind == "obj":
                    members = cur.members if isinstance(cur, StatusV) else self._default_status(st, o)
                    tok = cur.tok if isinstance(cur, StatusV) and cur.tok else f"{ref.oid}.status"
                    if not (isinstance(cur, StatusV) and cur.tok):
                        st.set_attr(ref, "status", StatusV(members, tok))

                    def setter(s: State, m: frozenset, ref=ref, tok=tok):
                        s.set_attr(ref, "status", StatusV(m, tok))
                        self._propagate(s, tok, m)

                    return members, setter
        if isinstance(expr, ast.Name):
            v = self.lookup(st, expr.id)
            if isinstance(v, StatusV):
                def setter2(s: State, m: frozenset, name=expr.id, tok=v.tok):
                    self.assign_name_keep_facts(s, name, StatusV(m, tok))
                    if tok:
                        self._propagate(s, tok, m)

                return v.members, setter2
        return None

    def _propagate(self, st: State, tok: str, m: frozenset) -> None:
        """Refine every other holder of the same runtime status value."""
        for fid, fr in st.frames.items():
            for k, v in fr.items():
                if isinstance(v, StatusV) and v.tok == tok and v.members != m:
                    fr[k] = StatusV(v.members & m or m, tok)
        for oid, o in list(st.objs.items()):
            sv = o.get("status")
            if isinstance(sv, StatusV) and sv.tok == tok and sv.members != m:
                st.objs[oid] = o.set("status", StatusV(sv.members & m or m, tok))

    def _default_status(self, st: State, o: ObjData) -> frozenset:
        if o.kind == "message":
            fs = self.msg_field_sets.get((o.cls if isinstance(o.cls, str) else getattr(o.cls, "name", ""), "status"))
            if fs:
                return frozenset(fs)
        return self.ALL

    def _status_const(self, expr: ast.expr, st: State):
        """-> frozenset of members when expr is a status constant or a set of them."""
        if isinstance(expr, ast.Attribute) and isinstance(expr.value, ast.Name) and expr.attr in self.T.members:
            v = self.lookup(st, expr.value.id)
            if isinstance(v, ClassV) and v.ci.name == "WorkflowStatus":
                return frozenset([expr.attr]), "one"
        if isinstance(expr, (ast.Set, ast.Tuple, ast.List)):
            ms = []
            for e in expr.elts:
                r = self._status_const(e, st)
                if r is None or r[1] != "one":
                    return None
                ms.extend(r[0])
            return frozenset(ms), "set"
        if isinstance(expr, ast.Name):
            v = self.lookup(st, expr.id)
            if isinstance(v, StatusSetV):
                return v.members, "set"
            if isinstance(v, StatusV) and len(v.members) == 1:
                return v.members, "one"
        return None

    def _status_cond(self, test: ast.expr, st: State, abrupt: list):
        # X.status.is_prop
        if isinstance(test, ast.Attribute) and test.attr in self.T.props:
            op = self._status_operand(test.value, st, abrupt)
            if op is not None:
                return self._split(st, op, self.T.props[test.attr])
        if isinstance(test, ast.Compare) and len(test.ops) == 1:
            o, left, right = test.ops[0], test.left, test.comparators[0]
            if isinstance(o, (ast.Eq, ast.NotEq, ast.In, ast.NotIn, ast.Is, ast.IsNot)):
                opnd = self._status_operand(left, st, abrupt)
                c = self._status_const(right, st)
                if opnd is None and isinstance(o, (ast.Eq, ast.NotEq)):
                    opnd = self._status_operand(right, st, abrupt)
                    c = self._status_const(left, st)
                if opnd is not None and c is not None:
                    members, kind = c
                    if isinstance(o, (ast.Eq, ast.NotEq, ast.Is, ast.IsNot)) and kind != "one":
                        return None
                    if isinstance(o, (ast.In, ast.NotIn)) and kind != "set":
                        return None
                    res = self._split(st, opnd, members)
                    if isinstance(o, (ast.NotEq, ast.NotIn, ast.IsNot)):
                        res = [(s, not t) for s, t in res]
                    return res
        return None

    def _split(self, st: State, opnd, members: frozenset):
        cur, setter = opnd
        yes = cur & members
        no = cur - members
        out = []
        if yes and no:
            s2 = st.copy()
            setter(st, frozenset(yes))
            setter(s2, frozenset(no))
            out = [(st, True), (s2, False)]
        elif yes:
            out = [(st, True)]
            self.infeasible += 1
        elif no:
            out = [(st, False)]
            self.infeasible += 1
        else:
            self.infeasible += 1
        return out


_LOOP_OPTIONAL = {"status_write", "ctx", "call"}
_COMMIT_KINDS = {"txn_begin", "txn_commit", "auto", "store_stage", "update_workflow_status", "push", "mark", "claim", "event"}


class _Line:
    def __init__(self, end_lineno: int) -> None:
        self.end_lineno = end_lineno
        self._endord = end_lineno


def _L(n) -> int:
    """order position of a node (canon.assign_order), falling back to the line number"""
    return getattr(n, "_ord", None) or getattr(n, "lineno", 0)


def _E(n) -> int:
    v = getattr(n, "_endord", None)
    if v:
        return v
    return getattr(n, "end_lineno", None) or _L(n)


def _dedupe_abrupt(abrupt: list) -> list:
    seen = set()
    out = []
    for s, o in abrupt:
        try:
            k = (s.sig(), o.kind, o.exc, o.val)
            hash(k)
        except TypeError:
            out.append((s, o))
            continue
        if k in seen:
            continue
        seen.add(k)
        out.append((s, o))
    return out


def _durable(events: tuple) -> tuple:
    """Drop the events of transactions that did not commit within `events`."""
    out = []
    buf = None
    for e in events:
        if e.kind == "txn_begin":
            buf = [e]
        elif e.kind == "txn_commit" and buf is not None:
            buf.append(e)
            out.extend(buf)
            buf = None
        elif e.kind == "txn_rollback":
            buf = None
        elif buf is not None:
            buf.append(e)
        else:
            out.append(e)
    return tuple(out)
