#!/usr/bin/env python
"""Experiment: a recovery sweep during a HEALTHY run starts a parent stage's
task before its STAGE_BEFORE synthetic stage has run.

Property: "Running the recovery sweep at any moment of a healthy run, any
number of times, changes no outcome and makes no task execute an extra time."

Usage:
    REPO_ROOT=/repo /venv/bin/python exp_recovery_before.py

Exit status:
    1  defect reproduced (parent's task executed before the before-stage's task
       in a run whose only perturbation is one recovery sweep)
    0  not reproduced (order preserved with and without the sweep)
    2  the experiment itself is broken (control run wrong / moment never seen)
"""

from __future__ import annotations

import logging
import os
import sys
import tempfile

REPO_ROOT = os.environ.get("REPO_ROOT", "/repo")
sys.path.insert(0, os.path.join(REPO_ROOT, "src"))

logging.disable(logging.CRITICAL)

from stabilize import (  # noqa: E402
    Orchestrator,
    QueueProcessor,
    SqliteQueue,
    SqliteWorkflowStore,
    StageExecution,
    Task,
    TaskRegistry,
    TaskResult,
)
from stabilize.models.stage import SyntheticStageOwner  # noqa: E402
from stabilize.models.status import WorkflowStatus  # noqa: E402
from stabilize.models.task import TaskExecution  # noqa: E402
from stabilize.models.workflow import Workflow  # noqa: E402
from stabilize.persistence.connection import ConnectionManager, SingletonMeta  # noqa: E402
from stabilize.recovery import WorkflowRecovery  # noqa: E402

import stabilize  # noqa: E402

# ---------------------------------------------------------------------------
# Tasks. ORDER is the shared execution log; RESOURCE is what the before-stage
# ("setup") prepares and the parent's task consumes.
# ---------------------------------------------------------------------------
ORDER: list[str] = []
RESOURCE: dict[str, object] = {}
# Set by build(): lets the parent's task observe the persisted status of its
# before-stage at the instant it executes (the ordering guarantee is "before
# stages COMPLETE before the parent's tasks start", not merely "task ran first").
PROBE: dict[str, object] = {}
BEFORE_STATUS_SEEN: list[str] = []


class SetupTask(Task):
    """Task of the STAGE_BEFORE child: prepares the resource."""

    def execute(self, stage: StageExecution) -> TaskResult:
        ORDER.append("before_task")
        RESOURCE["token"] = "prepared-by-before-stage"
        return TaskResult.success(outputs={"token": "prepared-by-before-stage"})


class MainTask(Task):
    """Task of the parent stage: needs what the before-stage prepared."""

    def execute(self, stage: StageExecution) -> TaskResult:
        ORDER.append("parent_task")
        seen = RESOURCE.get("token")
        _, _, before = snapshot(PROBE["store"], PROBE["wf_id"])
        BEFORE_STATUS_SEEN.append(before.status.name)
        return TaskResult.success(outputs={"token_seen_by_parent": seen})


def build(db_path: str):
    SingletonMeta.reset(ConnectionManager)
    conn = f"sqlite:///{db_path}"
    store = SqliteWorkflowStore(connection_string=conn, create_tables=True)
    queue = SqliteQueue(connection_string=conn, table_name="queue_messages")
    queue._create_table()
    registry = TaskRegistry()
    registry.register("setup", SetupTask)
    registry.register("main", MainTask)
    processor = QueueProcessor(queue, store=store, task_registry=registry)
    runner = Orchestrator(queue)

    parent = StageExecution(
        ref_id="parent",
        name="Parent",
        tasks=[TaskExecution.create(name="parent_task", implementing_class="main", stage_start=True, stage_end=True)],
    )
    before = StageExecution(
        ref_id="before",
        name="Before",
        synthetic_stage_owner=SyntheticStageOwner.STAGE_BEFORE,
        tasks=[TaskExecution.create(name="before_task", implementing_class="setup", stage_start=True, stage_end=True)],
    )
    wf = Workflow.create(application="exp", name="recovery-before", stages=[parent, before])
    before.parent_stage_id = parent.id
    store.store(wf)
    runner.start(wf)
    PROBE["store"] = store
    PROBE["wf_id"] = wf.id
    return store, queue, processor, wf


def snapshot(store, wf_id):
    wf = store.retrieve(wf_id)
    by_ref = {s.ref_id: s for s in wf.stages}
    return wf, by_ref["parent"], by_ref["before"]


def at_the_moment(parent, before) -> bool:
    """Parent RUNNING (start_time set, own task NOT_STARTED) while its before-stage
    has not finished and the before-stage's task has not executed yet."""
    return (
        parent.status == WorkflowStatus.RUNNING
        and parent.start_time is not None
        and all(t.status == WorkflowStatus.NOT_STARTED for t in parent.tasks)
        and not before.status.is_complete
        and "before_task" not in ORDER
    )


def queue_dump(queue) -> list[str]:
    conn = queue._get_connection()
    rows = conn.execute(f"SELECT message_type FROM {queue.table_name} ORDER BY deliver_at, id").fetchall()
    return [r[0] for r in rows]


def run(sweep_after: int | None, sweeps: int = 1, verbose: bool = False) -> dict:
    """Run the workflow. If sweep_after is k, run the recovery sweep after the
    k-th processed message (only if the state is 'the moment'); None = control."""
    ORDER.clear()
    RESOURCE.clear()
    BEFORE_STATUS_SEEN.clear()
    tmp = tempfile.mkdtemp(prefix="exp-rec-")
    store, queue, processor, wf = build(os.path.join(tmp, "exp.db"))
    swept_state = None
    sweep_results = None
    n = 0
    moments: list[int] = []
    try:
        while queue.size() > 0 and n < 200:
            if not processor.process_one():
                import time

                time.sleep(0.01)
                continue
            n += 1
            _, parent, before = snapshot(store, wf.id)
            if at_the_moment(parent, before):
                moments.append(n)
                if sweep_after == n:
                    swept_state = {
                        "parent": parent.status.name,
                        "parent.start_time_set": parent.start_time is not None,
                        "parent.tasks": [t.status.name for t in parent.tasks],
                        "before": before.status.name,
                        "before.tasks": [t.status.name for t in before.tasks],
                        "queue_before_sweep": queue_dump(queue),
                    }
                    for _ in range(sweeps):
                        rec = WorkflowRecovery(store=store, queue=queue, max_recovery_age_hours=24.0)
                        sweep_results = [(r.status, r.message) for r in rec.recover_pending_workflows()]
                    swept_state["queue_after_sweep"] = queue_dump(queue)
        final, parent, before = snapshot(store, wf.id)
        res = {
            "order": list(ORDER),
            "workflow": final.status.name,
            "parent": parent.status.name,
            "before": before.status.name,
            "parent.outputs": dict(parent.outputs),
            "parent.tasks": [t.status.name for t in parent.tasks],
            "before_status_seen_by_parent_task": list(BEFORE_STATUS_SEEN),
            "queue_left": queue_dump(queue),
            "messages": n,
            "moments": moments,
            "swept_state": swept_state,
            "sweep_results": sweep_results,
        }
        return res
    finally:
        try:
            queue.close()
            store.close()
        except Exception:
            pass
        SingletonMeta.reset(ConnectionManager)


def order_ok(r: dict) -> bool:
    """Each task ran exactly once, before-stage first, and the before-stage was
    already complete (SUCCEEDED) when the parent's task executed."""
    return r["order"] == ["before_task", "parent_task"] and r["before_status_seen_by_parent_task"] == ["SUCCEEDED"]


def show(r: dict) -> None:
    print(f"  execution order : {r['order']}")
    print(f"  before-stage status when parent_task executed: {r['before_status_seen_by_parent_task']}")
    print(
        f"  final statuses  : workflow={r['workflow']} parent={r['parent']} parent.tasks={r['parent.tasks']} "
        f"before={r['before']}  (messages handled={r['messages']}, left in queue={r['queue_left']})"
    )
    print(f"  parent outputs  : {r['parent.outputs']}")


def main() -> int:
    print(f"REPO_ROOT={REPO_ROOT}  stabilize={os.path.dirname(stabilize.__file__)}")

    # ---- control: no sweep --------------------------------------------------
    ctl = run(sweep_after=None)
    print("\n[control: no sweep]")
    show(ctl)
    print(f"  'moment' (parent RUNNING, own task NOT_STARTED, before-stage unfinished) holds after message #: {ctl['moments']}")
    if not order_ok(ctl) or ctl["workflow"] != "SUCCEEDED":
        print("EXPERIMENT BROKEN: control run is not healthy")
        return 2
    if not ctl["moments"]:
        print("EXPERIMENT BROKEN: never observed parent RUNNING with unfinished before-stage")
        return 2

    # ---- one sweep at each qualifying moment --------------------------------
    reproduced = False
    for k in ctl["moments"]:
        r = run(sweep_after=k)
        bad = not order_ok(r) or r["workflow"] != ctl["workflow"]
        reproduced |= bad
        print(f"\n[one sweep after message #{k}]  {'VIOLATION' if bad else 'ok'}")
        if r["swept_state"]:
            s = r["swept_state"]
            print(
                f"  state at sweep  : parent={s['parent']} start_time_set={s['parent.start_time_set']} "
                f"parent.tasks={s['parent.tasks']} before={s['before']} before.tasks={s['before.tasks']}"
            )
            print(f"  queue before    : {s['queue_before_sweep']}")
            print(f"  queue after     : {s['queue_after_sweep']}")
            print(f"  sweep result    : {r['sweep_results']}")
        show(r)

    print()
    if reproduced:
        print(
            "DEFECT REPRODUCED: a single recovery sweep during a healthy run made the parent's "
            "task execute before its STAGE_BEFORE stage's task."
        )
        return 1
    print("not reproduced: order before_task -> parent_task preserved with the sweep at every qualifying moment")
    return 0


if __name__ == "__main__":
    sys.exit(main())
