"""C16 experiment: what does a re-armed stage see on its second loop iteration?
a -> b ; b jumps back to a once. a outputs {"x": iteration}. b must see x=1 then x=2."""
import os, sys, tempfile
ROOT = os.environ.get("REPO_ROOT", "/repo")
sys.path.insert(0, ROOT + "/src")
from stabilize import TaskResult
from stabilize.models.stage import StageExecution
from stabilize.models.task import TaskExecution
from stabilize.models.workflow import Workflow
from stabilize.models.status import WorkflowStatus
from stabilize.persistence.sqlite import SqliteWorkflowStore
from stabilize.queue.sqlite import SqliteQueue
from stabilize.queue.processor import QueueProcessor
from stabilize.orchestrator import Orchestrator
from stabilize.tasks.registry import TaskRegistry
from stabilize.tasks.interface import Task

seen = []
class Producer(Task):
    n = 0
    def execute(self, stage):
        Producer.n += 1
        return TaskResult.success(outputs={"x": Producer.n, "xs": [Producer.n]})
class Consumer(Task):
    jumped = False
    def execute(self, stage):
        seen.append((stage.context.get("x"), list(stage.context.get("xs") or [])))
        if not Consumer.jumped:
            Consumer.jumped = True
            return TaskResult.jump_to("a")
        return TaskResult.success()

d = tempfile.mkdtemp()
db = f"sqlite:///{d}/t.db"
store = SqliteWorkflowStore(connection_string=db, create_tables=True)
q = SqliteQueue(connection_string=db, table_name="queue_messages"); q._create_table()
reg = TaskRegistry(); reg.register("prod", Producer); reg.register("cons", Consumer)
proc = QueueProcessor(q, store=store, task_registry=reg)
def t(impl): return [TaskExecution.create(name=impl, implementing_class=impl, stage_start=True, stage_end=True)]
wf = Workflow.create(application="t", name="loop", stages=[
    StageExecution(ref_id="a", tasks=t("prod")),
    StageExecution(ref_id="b", requisite_stage_ref_ids={"a"}, tasks=t("cons"), context={"_max_jumps": 3}),
])
store.store(wf); Orchestrator(q).start(wf); proc.process_all(timeout=20.0)
r = store.retrieve(wf.id)
print("workflow", r.status.name, "seen by b per iteration:", seen)
ok = len(seen) == 2 and seen[0][0] == 1 and seen[1][0] == 2
print("OK" if ok else "STALE: second iteration of b does not see a's current output")
sys.exit(0 if ok else 1)
