import sys, tempfile
sys.path.insert(0, "/repo/src")
from stabilize import *
from stabilize.models.workflow import Workflow
from stabilize.models.task import TaskExecution
from stabilize.models.status import WorkflowStatus
from stabilize.events import configure_event_sourcing, SqliteEventStore
from stabilize.events.replay import EventReplayer
from stabilize.events.snapshots import SnapshotStore
d=tempfile.mkdtemp(); cs=f"sqlite:///{d}/t.db"
store=SqliteWorkflowStore(cs, create_tables=True); q=SqliteQueue(cs); q._create_table()
es=SqliteEventStore(cs, create_tables=True); configure_event_sourcing(es)
orch=Orchestrator(q, store)
class Canc(Task):
    def execute(self, stage):
        orch.cancel(stage.execution, "u", "r")   # cancel arrives while the task runs
        return TaskResult.running()
class Ok(Task):
    def execute(self, stage): return TaskResult.success(outputs={"x":1})
reg=TaskRegistry(); reg.register("c", Canc); reg.register("ok", Ok)
p=QueueProcessor(q, store=store, task_registry=reg)
wf=Workflow.create(application="a", name="n", stages=[
  StageExecution(ref_id="a", type="test", name="a", tasks=[TaskExecution.create(name="t", implementing_class="ok", stage_start=True, stage_end=True)]),
  StageExecution(ref_id="s", type="test", name="s", requisite_stage_ref_ids={"a"}, tasks=[TaskExecution.create(name="t", implementing_class="c", stage_start=True, stage_end=True)])])
store.store(wf); orch.start(wf)
import os; os.environ["STABILIZE_TASK_BACKOFF_MIN_MS"]="1"
p.process_all(timeout=8)
r=store.retrieve(wf.id)
rep=EventReplayer(es).rebuild_workflow_state(wf.id)
print("store: wf", r.status.name, {s.ref_id:(s.status.name,[t.status.name for t in s.tasks]) for s in r.stages})
print("replay: wf", rep["status"], {v.get("ref_id"):v.get("status") for v in rep["stages"].values()}, {k[-4:]:v.get("status") for k,v in rep["tasks"].items()})
# snapshot
full=EventReplayer(es).rebuild_workflow_state(wf.id)
ss=SnapshotStore(es); seq=es.get_current_sequence()
ss.create_workflow_snapshot(full, wf.id, 1, seq)
snap=EventReplayer(es, ss).rebuild_workflow_state(wf.id)
print("full start_time", full["start_time"], "| from snapshot start_time", snap["start_time"], "end", full["end_time"], snap["end_time"])
