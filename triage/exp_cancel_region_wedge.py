"""CancelRegion cancels a downstream stage that has not started; when its upstream completes nothing finalises the workflow (C05).

U -> R (R is in cancel region "reg"). While U runs, CancelRegion("reg") cancels R (NOT_STARTED -> CANCELED). U completes and
pushes StartStage(R) - R is its only downstream, so no CompleteWorkflow - and StartStage ignores the already CANCELED stage.
Queue empty, workflow RUNNING for good.

exit 1 = wedge reproduced, exit 0 = the workflow reached a final status.
"""
import logging
import os
import sys

sys.path.insert(0, os.path.dirname(os.path.abspath(__file__)))
from tri5_rig import Rig  # noqa: E402

from stabilize.models.stage import StageExecution  # noqa: E402
from stabilize.models.task import TaskExecution  # noqa: E402
from stabilize.queue.messages import CancelRegion, CancelStage, RunTask  # noqa: E402
from stabilize.tasks.interface import Task  # noqa: E402
from stabilize.tasks.result import TaskResult  # noqa: E402

logging.disable(logging.CRITICAL)


class Ok(Task):
    def execute(self, stage):
        return TaskResult.success()


def st(ref, **kw):
    return StageExecution(ref_id=ref, type="demo", name=ref, tasks=[TaskExecution.create(name=ref + "-t", implementing_class="ok", stage_start=True, stage_end=True)], **kw)


def main() -> int:
    r = st("R", requisite_stage_ref_ids={"U"})
    r.cancel_region = "reg"
    rig = Rig([st("U"), r], {"ok": Ok})
    rig.drain_fifo(until=lambda: any(rig.is_for(m, RunTask, "U") for m in rig.pending()))
    rig.q.push(CancelRegion(execution_type="PIPELINE", execution_id=rig.wf.id, region="reg"))
    rig.deliver([m for m in rig.pending() if isinstance(m, CancelRegion)][0], "   <- region canceled while U is running")
    rig.deliver([m for m in rig.pending() if isinstance(m, CancelStage)][0])
    rig.drain_fifo()
    snap = rig.snapshot()
    print("\n".join("  " + t for t in rig.compact_trace()))
    print(snap["workflow"], snap["stages"], "queue left:", snap["queue_left"])
    if snap["workflow"] in ("RUNNING", "NOT_STARTED") and not snap["queue_left"]:
        print("WEDGE REPRODUCED: nothing queued, workflow not final")
        return 1
    print("ok: workflow ended", snap["workflow"])
    return 0


if __name__ == "__main__":
    sys.exit(main())
