import sys, tempfile, time
sys.path.insert(0, "/repo/src")
from datetime import timedelta
from stabilize import *
from stabilize.queue.messages import StartStage
d=tempfile.mkdtemp(); cs=f"sqlite:///{d}/t.db"
store=SqliteWorkflowStore(cs, create_tables=True); q=SqliteQueue(cs, max_attempts=2, lock_duration=timedelta(seconds=0.05)); q._create_table()
with store.transaction(q) as txn:
    txn.push_message(StartStage(execution_type="PIPELINE", execution_id="x", stage_id="nope"))
for i in range(4):
    m=q.poll_one(); print("(3) poll", i, bool(m), getattr(m,'attempts',None)); time.sleep(1.2)
print("(3) moved", q.check_and_move_expired(), "size", q.size(), "dlq", q.dlq_size())
c=q._get_connection(); print([tuple(r) for r in c.execute("select attempts,max_attempts from queue_messages")])
