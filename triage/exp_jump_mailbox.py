#!/usr/bin/env python
"""Candidate A1: a jump overwrites the target's mailbox (_buffered_signals).

Workflow:   wait (WaitTask, needs one NEW persistent signal per run)  ->  route
            `route` jumps back to `wait` once, then succeeds.

Run 1 of `wait` consumes persistent signal seq=1 (buffered before it suspended),
which leaves `_buffered_signals == []` in wait's context.  `route` then jumps
back to `wait`.  A second worker delivers persistent signal seq=2 for `wait`
AFTER JumpToStageHandler has read the workflow (repository.retrieve) and BEFORE
the jump transaction commits.  SignalStageHandler (real handler) buffers it in
the row: `_buffered_signals == [seq 2]`.  The jump then re-reads the row (fresh
version, so no ConcurrencyError) and does `context.update(<whole old context>)`
which puts the stale `_buffered_signals == []` back.

Expected (signal never lost): run 2 of `wait` consumes seq=2, workflow SUCCEEDED.
Defect: signal seq=2 is gone, `wait` stays SUSPENDED, queue empty, workflow RUNNING.

exit 1 = defect reproduced, 0 = not reproduced.
"""

from __future__ import annotations

import os
import sys
import tempfile

REPO_ROOT = os.environ.get("REPO_ROOT", "/repo")
sys.path.insert(0, os.path.join(REPO_ROOT, "src"))

import logging  # noqa: E402

logging.disable(logging.CRITICAL)

import stabilize  # noqa: E402
from stabilize import (  # noqa: E402
    Orchestrator,
    QueueProcessor,
    SqliteQueue,
    SqliteWorkflowStore,
    StageExecution,
    Task,
    TaskRegistry,
    TaskResult,
)
from stabilize.handlers.jump_to_stage.handler import JumpToStageHandler  # noqa: E402
from stabilize.models.status import WorkflowStatus  # noqa: E402
from stabilize.models.task import TaskExecution  # noqa: E402
from stabilize.models.workflow import Workflow  # noqa: E402
from stabilize.queue.messages import JumpToStage, SignalStage  # noqa: E402


class WaitTask(Task):
    """Needs a persistent signal with a seq it has not seen yet; else suspends."""

    def execute(self, stage: StageExecution) -> TaskResult:
        seen = stage.context.get("signals_seen", 0)
        data = stage.context.get("_signal_data") or {}
        if data.get("seq", 0) > seen:
            return TaskResult.success(context={"signals_seen": data["seq"]}, outputs={"got": data["seq"]})
        return TaskResult.suspend()


class RouteTask(Task):
    def execute(self, stage: StageExecution) -> TaskResult:
        if stage.context.get("_jump_count", 0) >= 1:
            return TaskResult.success()
        return TaskResult.jump_to("wait")


def build(db: str):
    store = SqliteWorkflowStore(connection_string=f"sqlite:///{db}", create_tables=True)
    queue = SqliteQueue(connection_string=f"sqlite:///{db}", table_name="queue_messages")
    queue._create_table()
    reg = TaskRegistry()
    reg.register("wait", WaitTask)
    reg.register("route", RouteTask)
    proc = QueueProcessor(queue, store=store, task_registry=reg)
    wf = Workflow.create(
        application="tri4",
        name="jump-mailbox",
        stages=[
            StageExecution(
                ref_id="wait",
                name="wait",
                context={},
                tasks=[TaskExecution.create("wait", "wait", stage_start=True, stage_end=True)],
            ),
            StageExecution(
                ref_id="route",
                name="route",
                requisite_stage_ref_ids={"wait"},
                context={},
                tasks=[TaskExecution.create("route", "route", stage_start=True, stage_end=True)],
            ),
        ],
    )
    store.store(wf)
    Orchestrator(queue).start(wf)
    return store, queue, proc, wf


def signal(wf: Workflow, stage_id: str, seq: int) -> SignalStage:
    return SignalStage(
        execution_type=wf.type.value,
        execution_id=wf.id,
        stage_id=stage_id,
        signal_name="go",
        signal_data={"seq": seq},
        persistent=True,
    )


def run(interleave: bool) -> bool:
    """Returns True when signal seq=2 was lost."""
    tmp = tempfile.mkdtemp(prefix="tri4-a1-")
    store, queue, proc, wf = build(os.path.join(tmp, "wf.db"))
    wait_id = store.retrieve(wf.id).stage_by_ref_id("wait").id
    signal_handler = proc._handlers[SignalStage]
    jump_handler = proc._handlers[JumpToStage]
    assert isinstance(jump_handler, JumpToStageHandler)

    # seq=1 is sent up-front: buffered while `wait` is NOT_STARTED, consumed by run 1.
    queue.push(signal(wf, wait_id, 1))

    state = {"in_jump": False, "fired": False}
    orig_handle = jump_handler.handle
    orig_retrieve = store.retrieve

    def handle(message):  # only marks "a JumpToStage is being handled"
        state["in_jump"] = True
        try:
            orig_handle(message)
        finally:
            state["in_jump"] = False

    def retrieve(execution_id):
        execution = orig_retrieve(execution_id)
        if interleave and state["in_jump"] and not state["fired"]:
            state["fired"] = True
            before = store.retrieve_stage(wait_id).context.get("_buffered_signals")
            # second worker: real SignalStageHandler delivers persistent signal seq=2
            signal_handler.handle(signal(wf, wait_id, 2))
            after = store.retrieve_stage(wait_id).context.get("_buffered_signals")
            print(f"  [worker-2] jump has read the workflow; wait._buffered_signals {before} -> {after}")
        return execution

    jump_handler.handle = handle  # type: ignore[method-assign]
    store.retrieve = retrieve  # type: ignore[method-assign]

    proc.process_all(timeout=15.0)

    if not interleave:
        # control: same signal, but delivered after the jump has committed
        store.retrieve = orig_retrieve  # type: ignore[method-assign]
        queue.push(signal(wf, wait_id, 2))
        proc.process_all(timeout=15.0)

    result = orig_retrieve(wf.id)
    wait = result.stage_by_ref_id("wait")
    route = result.stage_by_ref_id("route")
    buffered = wait.context.get("_buffered_signals")
    seen = wait.context.get("signals_seen")
    print(
        f"  workflow={result.status.name} wait={wait.status.name} route={route.status.name} "
        f"queue_size={queue.size()} wait.signals_seen={seen} wait._buffered_signals={buffered} "
        f"jump_count={wait.context.get('_jump_count')}"
    )
    consumed = seen == 2
    still_buffered = any((s.get("signal_data") or {}).get("seq") == 2 for s in (buffered or []))
    lost = not consumed and not still_buffered
    store.close()
    return lost


def main() -> int:
    print(f"stabilize from {os.path.dirname(stabilize.__file__)}")
    print("control (signal seq=2 delivered after the jump committed):")
    control_lost = run(interleave=False)
    print("race (signal seq=2 buffered between the jump's read and its commit):")
    lost = run(interleave=True)
    if control_lost:
        print("UNEXPECTED: control run lost the signal; demo construction is wrong")
        return 2
    if lost:
        print("DEFECT REPRODUCED: persistent signal seq=2 was acknowledged/buffered, then overwritten by the jump;")
        print("  wait is SUSPENDED with nothing buffered, queue is empty, workflow never finishes.")
        return 1
    print("not reproduced: signal seq=2 survived the jump")
    return 0


if __name__ == "__main__":
    sys.exit(main())
