#!/usr/bin/env python
"""Candidate 1: a stale first-iteration CompleteTask overtakes the second loop iteration.

Scenario A (the one asked for)   a -> b
    b's task returns TaskResult.jump_to("a") on its FIRST execution, success(outputs=...)
    afterwards.  RunTask(b) #1 commits  [JumpToStage(b->a), CompleteTask(b.t, REDIRECT)]
    together (handlers/run_task/result.py::_handle_redirect).  Neither message says which
    loop iteration it belongs to.
    FIFO control: JumpToStage first -> a and b re-armed (tasks NOT_STARTED) -> the
    CompleteTask(b.t, REDIRECT) finds the task NOT_STARTED and is dropped -> second
    iteration -> b's body runs again -> SUCCEEDED.
    Chosen order: hold CompleteTask(b.t, REDIRECT); deliver JumpToStage and the whole second
    iteration up to StartTask(b.t) #2 (b.t RUNNING again, RunTask(b.t) #2 pending); deliver
    the held message; then the rest in order.

Scenario B (same hazard, silent)   a -> (b, c)
    b jumps to a on its first execution; c is an ordinary sibling that is re-armed by the
    jump.  Hold iteration 1's CompleteTask(c.t, SUCCEEDED); deliver the jump and iteration 2
    up to StartTask(c.t) #2; deliver the held message; then the rest in order.

Exit 1 when any scenario's outcome differs from its FIFO control, 0 otherwise.
"""
from __future__ import annotations

import os
import sys

sys.path.insert(0, os.path.dirname(os.path.abspath(__file__)))
from tri5_rig import Rig  # noqa: E402  (puts REPO_ROOT/src at sys.path[0])

from stabilize import TaskResult  # noqa: E402
from stabilize.models.stage import StageExecution  # noqa: E402
from stabilize.models.status import WorkflowStatus  # noqa: E402
from stabilize.models.task import TaskExecution  # noqa: E402
from stabilize.queue.messages import CompleteTask, JumpToStage, RunTask  # noqa: E402
from stabilize.tasks.interface import Task  # noqa: E402

RUNS: dict[str, int] = {}


class ATask(Task):
    def execute(self, stage: StageExecution) -> TaskResult:
        RUNS["a"] = RUNS.get("a", 0) + 1
        return TaskResult.success(outputs={"a_run": RUNS["a"]})


class BTask(Task):
    def execute(self, stage: StageExecution) -> TaskResult:
        RUNS["b"] = RUNS.get("b", 0) + 1
        if RUNS["b"] == 1:
            return TaskResult.jump_to("a")
        return TaskResult.success(outputs={"b_done_in_run": RUNS["b"]})


class CTask(Task):
    def execute(self, stage: StageExecution) -> TaskResult:
        RUNS["c"] = RUNS.get("c", 0) + 1
        return TaskResult.success(outputs={"c_saw_a_run": stage.context.get("a_run"), "c_run": RUNS["c"]})


TASKS = {"a_task": ATask, "b_task": BTask, "c_task": CTask}


def t(impl: str) -> list[TaskExecution]:
    return [TaskExecution.create(name=impl, implementing_class=impl, stage_start=True, stage_end=True)]


def make(with_c: bool) -> Rig:
    RUNS.clear()
    stages = [
        StageExecution(ref_id="a", name="a", tasks=t("a_task")),
        StageExecution(ref_id="b", name="b", requisite_stage_ref_ids={"a"}, tasks=t("b_task")),
    ]
    if with_c:
        stages.append(StageExecution(ref_id="c", name="c", requisite_stage_ref_ids={"a"}, tasks=t("c_task")))
    return Rig(stages, TASKS)


def outcome(rig: Rig) -> dict:
    o = rig.snapshot()
    o["body_runs"] = dict(sorted(RUNS.items()))
    return o


def scenario(with_c: bool, victim: str, stale_status: WorkflowStatus) -> tuple[dict, dict, list[str]]:
    rig = make(with_c)
    rig.drain_fifo()
    fifo = outcome(rig)

    rig = make(with_c)
    # 1. in order until iteration 1 has produced the JumpToStage and the message we are going to hold
    def have_both() -> bool:
        p = rig.pending()
        return any(isinstance(m, JumpToStage) for m in p) and any(
            rig.is_for(m, CompleteTask, victim) and m.status == stale_status for m in p
        )

    rig.drain_fifo(hold=lambda m: isinstance(m, JumpToStage), until=have_both)
    stale = [m for m in rig.pending() if rig.is_for(m, CompleteTask, victim) and m.status == stale_status]
    assert len(stale) == 1, [rig.label(m) for m in rig.pending()]
    held = stale[0]
    rig.trace.append(f"   -- holding {rig.label(held)} (iteration 1)")
    runs_before = RUNS.get(victim, 0)
    # 2. JumpToStage + the second iteration until the victim task is RUNNING again
    #    (its RunTask #2 is pending, not delivered)
    rig.drain_fifo(
        hold=lambda m: m.message_id == held.message_id,
        until=lambda: not any(isinstance(m, JumpToStage) for m in rig.pending())
        and rig.task_status(victim) == WorkflowStatus.RUNNING
        and any(rig.is_for(m, RunTask, victim) for m in rig.pending()),
    )
    assert rig.task_status(victim) == WorkflowStatus.RUNNING and RUNS.get(victim, 0) == runs_before
    # 3. the stale first-iteration CompleteTask
    rig.deliver(held, f"   <== STALE (iteration 1), delivered while iteration 2's {victim}.t is RUNNING")
    rig.trace.append(f"   -- {victim}.t is now {rig.task_status(victim).name}; body runs so far {dict(RUNS)}")
    # 4. everything else in order
    rig.drain_fifo()
    return fifo, outcome(rig), rig.trace


def main() -> int:
    bad = 0
    for title, args in (
        ("A: a -> b, hold CompleteTask(b.t, REDIRECT)", (False, "b", WorkflowStatus.REDIRECT)),
        ("B: a -> (b, c), hold CompleteTask(c.t, SUCCEEDED)", (True, "c", WorkflowStatus.SUCCEEDED)),
    ):
        fifo, stale, trace = scenario(*args)
        print(f"=== Scenario {title}")
        print("chosen delivery order:")
        for line in trace:
            print("   ", line)
        print("FIFO  outcome:", fifo)
        print("STALE outcome:", stale)
        if fifo == stale:
            print("-> same outcome as in-order delivery\n")
        else:
            bad += 1
            print("-> DIFFERS from in-order delivery\n")
    if bad:
        print(
            "DEFECT reproduced: CompleteTaskHandler only checks task.status == RUNNING, so a CompleteTask of "
            "loop iteration 1 completes iteration 2's task before its body produced a result; the pending "
            "RunTask #2 is then dropped (task no longer RUNNING)."
        )
        return 1
    print("OK: stale CompleteTask had no effect")
    return 0


if __name__ == "__main__":
    sys.exit(main())
