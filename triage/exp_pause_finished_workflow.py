"""store.pause() (public store API, used by the monitor's pause key) writes status = PAUSED without looking at the current
status (C06): a SUCCEEDED workflow becomes PAUSED, resume() then makes it RUNNING - a finished workflow is RUNNING for good.
Also NOT_STARTED -> PAUSED, which the transition table does not allow either (only RUNNING -> PAUSED is legal).

exit 1 = an illegal transition was committed, exit 0 = pause() left the finished / not started workflow alone.
"""
import os
import sys
import tempfile

REPO_ROOT = os.environ.get("REPO_ROOT", "/repo")
sys.path.insert(0, os.path.join(REPO_ROOT, "src"))

from stabilize.models.stage import StageExecution  # noqa: E402
from stabilize.models.status import WorkflowStatus, can_transition  # noqa: E402
from stabilize.models.task import TaskExecution  # noqa: E402
from stabilize.models.workflow import Workflow  # noqa: E402
from stabilize.persistence.sqlite import SqliteWorkflowStore  # noqa: E402


def main() -> int:
    d = tempfile.mkdtemp(prefix="pause-fin-")
    store = SqliteWorkflowStore(f"sqlite:///{d}/t.db", create_tables=True)
    bad = []
    for start in (WorkflowStatus.SUCCEEDED, WorkflowStatus.CANCELED, WorkflowStatus.NOT_STARTED, WorkflowStatus.RUNNING):
        wf = Workflow.create(application="a", name="n", stages=[StageExecution(ref_id="s", type="t", name="s", tasks=[TaskExecution.create(name="t", implementing_class="t", stage_start=True, stage_end=True)])])
        wf.status = start
        store.store(wf)
        store.pause(wf.id, paused_by="monitor")
        after = store.retrieve(wf.id).status
        store.resume(wf.id)
        resumed = store.retrieve(wf.id).status
        legal = after == start or can_transition(start, after)
        print(f"{start.name:12s} -pause-> {after.name:12s} -resume-> {resumed.name:10s} {'' if legal else '<-- ILLEGAL transition committed'}")
        if not legal:
            bad.append(start.name)
    only = os.environ.get("ONLY", "finished")         # finished: exit 1 only when a FINISHED workflow was overwritten (repaired defect)
    fin = [b for b in bad if b not in ("NOT_STARTED",)]
    if fin or (only == "all" and bad):
        print("DEFECT REPRODUCED: pause() overwrote", bad)
        return 1
    if bad:
        print("note: NOT_STARTED -> PAUSED is not in the transition table either, but tests/test_repository.py::test_pause_and_resume and tests/test_status_edge_cases.py::test_running_to_paused_to_running pause a NOT_STARTED workflow and expect PAUSED (open finding; ONLY=all makes this exit 1)")
    print("ok: pause() never overwrites a finished workflow")
    return 0


if __name__ == "__main__":
    sys.exit(main())
