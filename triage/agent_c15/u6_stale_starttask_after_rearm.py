# U6: stale StartTask of the previous iteration reaches a re-armed side-branch stage
from h import *
runs = []
class Rec(Task):
    def execute(self, stage):
        runs.append(stage.ref_id); return TaskResult.success()
class JumpOnce(Task):
    n = 0
    def execute(self, stage):
        runs.append(stage.ref_id)
        JumpOnce.n += 1
        return TaskResult.jump_to("a") if JumpOnce.n <= 1 else TaskResult.success()
store, q, proc, orch = mk({"rec": Rec, "j": JumpOnce})
wf = Workflow.create(application="t", name="w", stages=[stage("a", "rec"), stage("b", "j", ["a"]), stage("s", "rec", ["a"], ntasks=2)])
store.store(wf); orch.start(wf)
w = store.retrieve(wf.id); ids = {x.ref_id: x.id for x in w.stages}
sc = Sched(q, proc)
sid = ids["s"]
s_t2 = w.stage_by_ref_id("s").tasks[1].id
is_t2 = lambda m: type(m).__name__ == "StartTask" and m.task_id == s_t2
def step(m):
    sc.pool.remove(m); sc.trace.append(type(m).__name__); proc._handle_message(m); q.ack(m)
# phase 1: prefer s's messages until StartTask(s.t2) is pending
while True:
    sc.fill()
    if any(is_t2(m) for m in sc.pool): break
    pref = [m for m in sc.pool if getattr(m, "stage_id", None) == sid]
    step((pref or sc.pool)[0])
# phase 2: hold StartTask(s.t2); run the rest until the jump was applied
while True:
    sc.fill()
    c = [m for m in sc.pool if not is_t2(m)]
    m = c[0]; step(m)
    if type(m).__name__ == "JumpToStage": break
print("after jump:", [(x.ref_id, x.status.name, [t.status.name for t in x.tasks]) for x in store.retrieve(wf.id).stages], "held:", [type(m).__name__ for m in sc.pool])
# now deliver the stale StartTask(s.t2) first, then everything else in order
sc.deliver(lambda m: type(m).__name__ == "StartTask" and m.task_id == s_t2)
sc.run(limit=300)
w = store.retrieve(wf.id)
print(w.status.name, [(x.ref_id, x.status.name, [t.status.name for t in x.tasks]) for x in w.stages], "runs of s tasks:", runs.count("s"), "queue:", q.size())
