import os, sys, tempfile, time
ROOT = os.environ.get("REPO_ROOT", "/tmp/wt-c15d")
sys.path.insert(0, os.path.join(ROOT, "src"))
from stabilize import (Orchestrator, QueueProcessor, SqliteQueue, SqliteWorkflowStore, StageExecution, Task, TaskRegistry, TaskResult)
from stabilize.models.task import TaskExecution
from stabilize.models.workflow import Workflow
from stabilize.models.status import WorkflowStatus
from stabilize.queue.messages import *

def mk(tasks):
    d = tempfile.mkdtemp()
    cs = f"sqlite:///{d}/t.db"
    store = SqliteWorkflowStore(connection_string=cs, create_tables=True)
    q = SqliteQueue(connection_string=cs, table_name="queue_messages")
    q._create_table()
    reg = TaskRegistry()
    for k, v in tasks.items():
        reg.register(k, v)
    proc = QueueProcessor(q, store=store, task_registry=reg)
    return store, q, proc, Orchestrator(q)

def stage(ref, impl, reqs=(), ctx=None, ntasks=1):
    return StageExecution(ref_id=ref, name=ref, requisite_stage_ref_ids=set(reqs), context=dict(ctx or {}),
        tasks=[TaskExecution.create(name=f"{ref}-t{i}", implementing_class=impl, stage_start=(i==0), stage_end=(i==ntasks-1)) for i in range(ntasks)])

def drain(q, proc, hold=lambda m: False, limit=2000, trace=None):
    """process messages in order, holding back those for which hold(m) is true. returns held list"""
    held = []
    n = 0
    while n < limit:
        m = q.poll_one()
        if m is None:
            if q.size() - len(held) <= 0:
                break
            time.sleep(0.01); continue
        if hold(m):
            held.append(m); continue
        if trace is not None: trace.append(type(m).__name__)
        proc._handle_message(m); q.ack(m); n += 1
    return held, n

class Sched:
    """Own the delivery order: pool of locked messages, chooser picks next."""
    def __init__(self, q, proc):
        self.q, self.proc, self.pool, self.trace = q, proc, [], []
    def fill(self):
        while True:
            m = self.q.poll_one()
            if m is None: break
            self.pool.append(m)
    def names(self):
        self.fill(); return [type(m).__name__ for m in self.pool]
    def deliver(self, pred):
        self.fill()
        for i, m in enumerate(self.pool):
            if pred(m):
                self.pool.pop(i)
                self.trace.append(type(m).__name__)
                self.proc._handle_message(m); self.q.ack(m)
                return m
        raise LookupError("no such message in pool: %s" % self.names())
    def by(self, cls, **kw):
        return self.deliver(lambda m: type(m).__name__ == cls and all(getattr(m, k) == v for k, v in kw.items()))
    def run(self, hold=lambda m: False, limit=3000, deadline=8.0):
        n = 0; t0 = time.time()
        while n < limit and time.time() - t0 < deadline:
            self.fill()
            c = [m for m in self.pool if not hold(m)]
            if not c:
                if self.q.size() - len(self.pool) > 0:
                    time.sleep(0.02); continue
                break
            m = c[0]; self.pool.remove(m)
            self.trace.append(type(m).__name__)
            self.proc._handle_message(m); self.q.ack(m); n += 1
        return n
