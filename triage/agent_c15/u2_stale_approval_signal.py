# U2: shipped ApprovalTask inside a jump loop: second iteration auto-approves from the stale _signal_name
from h import *
from stabilize.hitl import ApprovalTask, approve
runs = []
class Rec(Task):
    def execute(self, stage):
        runs.append(stage.ref_id); return TaskResult.success()
class JumpOnce(Task):
    n = 0
    def execute(self, stage):
        runs.append(stage.ref_id)
        JumpOnce.n += 1
        return TaskResult.jump_to("a") if JumpOnce.n <= 1 else TaskResult.success()
store, q, proc, orch = mk({"rec": Rec, "j": JumpOnce, "approval": ApprovalTask})
wf = Workflow.create(application="t", name="w", stages=[stage("a", "rec"), stage("gate", "approval", ["a"]), stage("c", "j", ["gate"])])
store.store(wf); orch.start(wf)
proc.process_all(timeout=5)
w = store.retrieve(wf.id); g = w.stage_by_ref_id("gate")
print("after start:", w.status.name, "gate:", g.status.name, runs)
approve(q, wf.id, g.id, {"user": "alice"})
proc.process_all(timeout=5)
w = store.retrieve(wf.id); g = w.stage_by_ref_id("gate")
print("after ONE approval:", w.status.name, "gate:", g.status.name, runs, "approval output:", g.outputs)

# exit code added when the script was kept as the demonstration of the repaired defect:
# one approval must let exactly one iteration of the gate through - the second iteration suspends again
import sys as _sys
_sys.exit(1 if g.status.name != "SUSPENDED" else 0)
