# U5: a stage that is both jump target and jump source gets its counter overwritten by the other jumper (count := source+1)
from h import *
ajumps = [0]; bjumps = [0]
class A(Task):
    per_visit = 0
    def execute(self, stage):
        if A.per_visit < 2:
            A.per_visit += 1; ajumps[0] += 1
            return TaskResult.jump_to("a")
        A.per_visit = 0
        return TaskResult.success()
class B(Task):
    def execute(self, stage):
        bjumps[0] += 1
        return TaskResult.jump_to("a")
store, q, proc, orch = mk({"a": A, "b": B})
wf = Workflow.create(application="t", name="w", context={"_max_jumps": 3}, stages=[stage("a", "a"), stage("b", "b", ["a"])])
store.store(wf); orch.start(wf)
proc.process_all(timeout=20)
w = store.retrieve(wf.id)
print(w.status.name, "jump requests by a:", ajumps[0], "by b:", bjumps[0], [(s.ref_id, s.status.name, s.context.get("_jump_count"), s.context.get("jump_error")) for s in w.stages])
