# U3: self loop; CompleteTask(REDIRECT) of iteration 1 delivered after StartTask of iteration 2 -> closes the new task, RunTask dropped, stage RUNNING for ever
from h import *
class Self(Task):
    n = 0
    def execute(self, stage):
        Self.n += 1
        if Self.n <= 2:
            return TaskResult.jump_to(stage.ref_id)
        return TaskResult.success()
store, q, proc, orch = mk({"self": Self})
wf = Workflow.create(application="t", name="w", stages=[stage("a", "self")])
store.store(wf); orch.start(wf)
s = Sched(q, proc)
for c in ["StartWorkflow", "StartStage", "StartTask", "RunTask"]:
    s.by(c)
print(s.names())
s.by("JumpToStage"); s.by("StartStage"); s.by("StartTask")
print(s.names())
s.by("CompleteTask")   # stale REDIRECT completion from iteration 1
print(s.names())
s.run()
w = store.retrieve(wf.id)
print(w.status, [(x.ref_id, x.status, [t.status for t in x.tasks]) for x in w.stages], Self.n, s.trace)
