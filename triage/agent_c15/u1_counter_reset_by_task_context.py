# unchanged-code finding U1: task writes _jump_count via its jump context -> source counter reset -> endless loop
from h import *
class J(Task):
    n = 0
    def execute(self, stage):
        J.n += 1
        return TaskResult.jump_to("a", context={"_jump_count": 0})
for shape in ("self", "cycle"):
    J.n = 0
    store, q, proc, orch = mk({"j": J, "p": type("P", (Task,), {"execute": lambda self, s: TaskResult.success()})})
    stages = [stage("a", "j")] if shape == "self" else [stage("a", "p"), stage("b", "j", ["a"])]
    wf = Workflow.create(application="t", name="w", context={"_max_jumps": 3}, stages=stages)
    store.store(wf); orch.start(wf)
    k = 0
    while q.size() > 0 and J.n < 40 and k < 5000:
        proc.process_one(); k += 1
    w = store.retrieve(wf.id)
    print(shape, "runs:", J.n, "workflow:", w.status.name, "queue:", q.size())
