# U4: t -> s <- x, s -> m -> e; e jumps back to t. s,m are not re-armed (fan-in), e is: e stays NOT_STARTED, workflow RUNNING for ever, queue empty
from h import *
runs = []
class Rec(Task):
    def execute(self, stage):
        runs.append(stage.ref_id); return TaskResult.success()
class JumpOnce(Task):
    n = 0
    def execute(self, stage):
        runs.append(stage.ref_id)
        JumpOnce.n += 1
        if JumpOnce.n <= 1:
            return TaskResult.jump_to("t")
        return TaskResult.success()
store, q, proc, orch = mk({"rec": Rec, "j": JumpOnce})
wf = Workflow.create(application="t", name="w", stages=[stage("t", "rec"), stage("x", "rec"), stage("s", "rec", ["t", "x"]), stage("m", "rec", ["s"]), stage("e", "j", ["m"])])
store.store(wf); orch.start(wf)
proc.process_all(timeout=5)
w = store.retrieve(wf.id)
print(w.status, [(x.ref_id, x.status.name) for x in w.stages], runs, q.size())
