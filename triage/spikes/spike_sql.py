import ast, sys, pathlib, re, collections
root = pathlib.Path("/repo/src/stabilize")
rows=[]
def sqltext(node):
    if isinstance(node, ast.Constant) and isinstance(node.value,str): return node.value
    if isinstance(node, ast.JoinedStr):
        out=""
        for v in node.values:
            if isinstance(v, ast.Constant): out+=v.value
            else: out+="«"+ast.unparse(v.value)+"»"
        return out
    return None
for p in sorted(root.rglob("*.py")):
    if "prompt_text" in str(p): continue
    t=ast.parse(p.read_text())
    # map node->enclosing function
    stack=[]
    class V(ast.NodeVisitor):
        def visit_FunctionDef(self,n):
            stack.append(n.name); self.generic_visit(n); stack.pop()
        visit_AsyncFunctionDef=visit_FunctionDef
        def visit_ClassDef(self,n):
            stack.append(n.name); self.generic_visit(n); stack.pop()
        def visit_Call(self,n):
            if isinstance(n.func, ast.Attribute) and n.func.attr in("execute","executemany") and n.args:
                s=sqltext(n.args[0])
                if s is None:
                    rows.append((str(p.relative_to(root)), ".".join(stack), n.lineno, "DYNAMIC", ast.unparse(n.args[0])[:50]))
                else:
                    s2=" ".join(s.split())
                    m=re.match(r"(?i)\s*(insert or ignore into|insert into|update|delete from|select|create table|create index|pragma|alter table|drop)\b\s*(?:if not exists\s*)?([\w«».{}]+)?", s2)
                    kind=m.group(1).upper() if m else "?"
                    tgt=m.group(2) if m else ""
                    if kind=="SELECT":
                        mm=re.search(r"(?i)\bfrom\s+([\w«».]+)", s2); tgt=mm.group(1) if mm else ""
                    rows.append((str(p.relative_to(root)), ".".join(stack), n.lineno, kind, tgt))
            self.generic_visit(n)
    V().visit(t)
c=collections.Counter((r[3]) for r in rows)
print(c)
for r in rows:
    if r[3] in ("UPDATE","DELETE FROM","INSERT INTO","INSERT OR IGNORE INTO","DYNAMIC") and ("sqlite" in r[0] or "persistence/transaction" in r[0] or r[3]=="DYNAMIC") and "postgres" not in r[0]:
        print(r)
