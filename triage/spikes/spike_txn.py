import ast, pathlib, collections
root = pathlib.Path("/repo/src/stabilize")
def is_txn_with(w):
    for it in w.items:
        c = it.context_expr
        if isinstance(c, ast.Call) and isinstance(c.func, ast.Attribute) and c.func.attr=="transaction":
            return it.optional_vars.id if isinstance(it.optional_vars, ast.Name) else "_"
    return None
out=collections.Counter()
for p in sorted(root.rglob("*.py")):
    if "prompt_text" in str(p): continue
    t=ast.parse(p.read_text())
    for w in ast.walk(t):
        if isinstance(w, ast.With):
            v=is_txn_with(w)
            if v is None: continue
            calls=[]
            for n in ast.walk(ast.Module(body=w.body, type_ignores=[])):
                if isinstance(n, ast.Call):
                    f=n.func
                    s=ast.unparse(f)
                    if s.startswith(v+"."): s="txn."+s.split(".",1)[1]
                    calls.append(s)
            key=tuple(c for c in calls if not c.startswith("logger") and c not in ("hasattr","getattr","len","bool"))
            print(f"{p.relative_to(root)}:{w.lineno}", [c for c in key if not c[0].isupper()])
