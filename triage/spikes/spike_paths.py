"""Throw-away spike: structured path enumeration + commit-sequence extraction.

Not framework code. Purpose: measure path counts and find idioms on the real
handlers before the engines are built.
"""
import ast, pathlib, sys, collections, itertools

ROOT = pathlib.Path("/repo/src/stabilize")

class Path:
    __slots__ = ("events", "exit")
    def __init__(self, events=(), exit=None):
        self.events = events; self.exit = exit
    def add(self, ev):
        return Path(self.events + (ev,), self.exit)

CAP = 200000

def txn_var(w):
    for it in w.items:
        c = it.context_expr
        if isinstance(c, ast.Call) and isinstance(c.func, ast.Attribute) and c.func.attr == "transaction":
            return it.optional_vars.id if isinstance(it.optional_vars, ast.Name) else "_"
    return None

def calls_in(expr):
    out = []
    for n in ast.walk(expr):
        if isinstance(n, ast.Call):
            out.append(n)
    return out

class Enum:
    def __init__(self, funcs):
        self.funcs = funcs  # name -> FunctionDef (local closures and methods)
        self.count = 0

    def block(self, stmts, paths):
        """paths: list of open Paths; returns (open, closed)."""
        closed = []
        for st in stmts:
            if not paths:
                break
            paths, c = self.stmt(st, paths)
            closed += c
            if len(paths) + len(closed) > CAP:
                raise RuntimeError("path cap")
        return paths, closed

    def expr_events(self, node, paths):
        # record calls in evaluation order (approx: ast.walk order reversed for nesting)
        evs = []
        for c in sorted(calls_in(node), key=lambda n: (n.end_lineno, n.end_col_offset)):
            evs.append(("call", c))
        for ev in evs:
            paths = [p.add(ev) for p in paths]
        return paths

    def stmt(self, st, paths):
        closed = []
        if isinstance(st, (ast.FunctionDef, ast.AsyncFunctionDef, ast.ClassDef, ast.Import, ast.ImportFrom, ast.Pass, ast.Global, ast.Nonlocal)):
            return paths, closed
        if isinstance(st, ast.Return):
            if st.value is not None:
                paths = self.expr_events(st.value, paths)
            return [], [Path(p.events, ("return", st.lineno)) for p in paths]
        if isinstance(st, ast.Raise):
            return [], [Path(p.events, ("raise", st.lineno)) for p in paths]
        if isinstance(st, ast.Continue):
            return [], [Path(p.events, ("continue", st.lineno)) for p in paths]
        if isinstance(st, ast.Break):
            return [], [Path(p.events, ("break", st.lineno)) for p in paths]
        if isinstance(st, ast.If):
            paths = self.expr_events(st.test, paths)
            t = [p.add(("if", st.test, True)) for p in paths]
            f = [p.add(("if", st.test, False)) for p in paths]
            to, tc = self.block(st.body, t)
            fo, fc = self.block(st.orelse, f)
            return to + fo, tc + fc
        if isinstance(st, (ast.For, ast.While)):
            head = st.iter if isinstance(st, ast.For) else st.test
            paths = self.expr_events(head, paths)
            zero = [p.add(("loop0", st.lineno)) for p in paths]
            one = [p.add(("loop1", st.lineno)) for p in paths]
            bo, bc = self.block(st.body, one)
            out = zero + bo
            still = []
            for p in bc:
                if p.exit[0] in ("continue", "break"):
                    out.append(Path(p.events, None))
                else:
                    still.append(p)
            return out, still
        if isinstance(st, ast.With):
            v = txn_var(st)
            for it in st.items:
                paths = self.expr_events(it.context_expr, paths)
            if v is not None:
                paths = [p.add(("txn_begin", st.lineno, v)) for p in paths]
            bo, bc = self.block(st.body, paths)
            if v is not None:
                bo = [p.add(("txn_commit", st.lineno)) for p in bo]
                bc2 = []
                for p in bc:
                    if p.exit[0] == "raise":
                        bc2.append(Path(p.events + (("txn_rollback", st.lineno),), p.exit))
                    else:  # return inside with -> commit
                        bc2.append(Path(p.events + (("txn_commit", st.lineno),), p.exit))
                bc = bc2
            return bo, bc
        if isinstance(st, ast.Try):
            bo, bc = self.block(st.body, paths)
            out, closed2 = list(bo), []
            # explicit raises inside body may be caught: route to handlers
            caught = []
            for p in bc:
                if p.exit[0] == "raise" and st.handlers:
                    caught.append(Path(p.events, None))
                else:
                    closed2.append(p)
            # implicit exception from a txn body: model one extra path per handler that enters
            # the handler right after try entry with body effects discarded if body had a txn
            for h in st.handlers:
                entry = [p.add(("except", h.lineno, ast.unparse(h.type) if h.type else "BaseException")) for p in paths] + \
                        [p.add(("except", h.lineno, ast.unparse(h.type) if h.type else "BaseException")) for p in caught]
                ho, hc = self.block(h.body, entry)
                out += ho; closed2 += hc
            if st.orelse:
                out2, c3 = self.block(st.orelse, bo)
                out = [p for p in out if p not in bo] + out2; closed2 += c3
            if st.finalbody:
                out, c4 = self.block(st.finalbody, out)
                closed2 += c4
            return out, closed2
        # simple statements
        for child in ast.iter_child_nodes(st):
            if isinstance(child, ast.expr):
                paths = self.expr_events(child, paths)
        return paths, closed


def find_func(tree, qual):
    parts = qual.split(".")
    node = tree
    for part in parts:
        for n in ast.walk(node):
            if isinstance(n, (ast.FunctionDef, ast.ClassDef)) and n.name == part and n is not node:
                node = n; break
        else:
            raise KeyError(qual)
    return node


def summarize(path):
    """commit sequence of a path"""
    seq = []; cur = None
    for ev in path.events:
        if ev[0] == "txn_begin":
            cur = {"v": ev[2], "eff": []}
        elif ev[0] == "txn_commit" and cur is not None:
            seq.append("TXN{" + ",".join(cur["eff"]) + "}"); cur = None
        elif ev[0] == "txn_rollback":
            cur = None
        elif ev[0] == "call":
            s = ast.unparse(ev[1].func)
            if cur is not None and s.startswith(cur["v"] + "."):
                m = s.split(".", 1)[1]
                if m == "push_message":
                    a = ev[1].args[0]
                    m = "push:" + (a.func.id if isinstance(a, ast.Call) and isinstance(a.func, ast.Name) else ast.unparse(a))
                elif m == "mark_message_processed": m = "mark"
                cur["eff"].append(m)
            elif s in ("self.queue.push", "queue.push"):
                a = ev[1].args[0]
                seq.append("AUTO push:" + (a.func.id if isinstance(a, ast.Call) and isinstance(a.func, ast.Name) else ast.unparse(a)))
            elif s.startswith("self.repository.") and s.split(".")[-1] in ("store_stage", "add_stage", "store", "update_status", "cancel", "pause", "resume"):
                seq.append("AUTO " + s.split(".")[-1])
            elif s.endswith("execute_atomic") or s.endswith("execute_atomic_critical"):
                kw = {k.arg: k.value for k in ev[1].keywords}
                eff = []
                if "stage" in kw: eff.append("store_stage")
                if "source_message" in kw: eff.append("mark")
                mp = kw.get("messages_to_push")
                if isinstance(mp, ast.List):
                    for e in mp.elts:
                        m0 = e.elts[0] if isinstance(e, ast.Tuple) else e
                        eff.append("push:" + (m0.func.id if isinstance(m0, ast.Call) and isinstance(m0.func, ast.Name) else ast.unparse(m0)))
                elif mp is not None:
                    eff.append("push:*" + ast.unparse(mp))
                seq.append("TXN{" + ",".join(eff) + "}")
            elif s.startswith("self.") and s.count(".") == 1:
                seq.append("CALL " + s)
            elif "event_recorder.record_" in s:
                (cur["eff"] if cur is not None else seq).append("event:" + s.split("record_")[1])
    return tuple(seq), path.exit[0] if path.exit else "fallthrough"


def run(file, qual):
    tree = ast.parse((ROOT / file).read_text())
    fn = find_func(tree, qual)
    e = Enum({})
    open_, closed = e.block(fn.body, [Path()])
    allp = closed + [Path(p.events, ("fallthrough", 0)) for p in open_]
    shapes = collections.Counter(summarize(p) for p in allp)
    print(f"== {file}:{qual}: {len(allp)} paths, {len(shapes)} shapes")
    for (seq, ex), n in sorted(shapes.items(), key=lambda kv: str(kv[0])):
        print(f"   {n:6d}  {ex:11s} {list(seq)}")

if __name__ == "__main__":
    targets = [
        ("handlers/complete_task.py", "CompleteTaskHandler._handle_with_retry.on_task"),
        ("handlers/skip_stage.py", "SkipStageHandler._handle_with_retry.on_stage"),
        ("handlers/start_stage/handler.py", "StartStageHandler._start_if_ready"),
        ("handlers/start_stage/handler.py", "StartStageHandler.handle.on_stage"),
        ("handlers/complete_stage/handler.py", "CompleteStageHandler._handle_with_retry.on_stage"),
        ("handlers/run_task/handler.py", "RunTaskHandler.handle.on_task"),
        ("handlers/run_task/result.py", "_handle_suspended"),
        ("handlers/signal_stage.py", "SignalStageHandler._handle_with_retry.on_stage"),
        ("handlers/add_multi_instance.py", "AddMultiInstanceHandler._handle_with_retry.on_stage"),
        ("handlers/workflow_control.py", "CancelWorkflowHandler._handle_with_retry.on_execution"),
        ("handlers/continue_parent_stage.py", "ContinueParentStageHandler._handle_before_phase"),
        ("recovery.py", "WorkflowRecovery._recover_workflow"),
    ]
    for f, q in targets:
        try:
            run(f, q)
        except Exception as ex:
            print("!!", f, q, type(ex).__name__, ex)
