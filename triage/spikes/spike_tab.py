import ast, pathlib, re
R=pathlib.Path("/repo/src/stabilize")
def fields(path, cls):
    t=ast.parse((R/path).read_text())
    for n in ast.walk(t):
        if isinstance(n, ast.ClassDef) and n.name==cls:
            return [s.target.id for s in n.body if isinstance(s, ast.AnnAssign) and isinstance(s.target, ast.Name)]
def func(path, name):
    t=ast.parse((R/path).read_text())
    for n in ast.walk(t):
        if isinstance(n, ast.FunctionDef) and n.name==name: return n
def dict_keys_in(fn):
    out=[]
    for n in ast.walk(fn):
        if isinstance(n, ast.Dict): out.append([k.value for k in n.keys if isinstance(k, ast.Constant)])
    return out
def ctor_kwargs(fn, cls):
    for n in ast.walk(fn):
        if isinstance(n, ast.Call) and isinstance(n.func, ast.Name) and n.func.id==cls:
            return [k.arg for k in n.keywords]
def row_reads(fn):
    out=set()
    for n in ast.walk(fn):
        if isinstance(n, ast.Subscript) and isinstance(n.value, ast.Name) and n.value.id=="row" and isinstance(n.slice, ast.Constant): out.add(n.slice.value)
        if isinstance(n, ast.Call) and isinstance(n.func, ast.Name) and n.func.id=="_safe_get" and n.args and isinstance(n.args[0], ast.Constant): out.add(n.args[0].value)
    return out
sf=fields("models/stage/stage.py","StageExecution")
ins=func("persistence/sqlite/helpers.py","insert_stage")
keys=max(dict_keys_in(ins), key=len)
rts=func("persistence/sqlite/converters.py","row_to_stage")
print("stage fields not in insert dict:", [f for f in sf if f not in keys])
print("insert keys not fields:", [k for k in keys if k not in sf])
print("ctor kwargs missing fields:", [f for f in sf if f not in ctor_kwargs(rts,"StageExecution")])
print("row reads vs keys:", set(keys)^row_reads(rts))
tf=fields("models/task.py","TaskExecution")
up=func("persistence/sqlite/helpers.py","upsert_task")
dk=dict_keys_in(up); print("task fields:", tf); print("upsert dict keys:", dk)
rtt=func("persistence/sqlite/converters.py","row_to_task"); print("row_to_task kwargs", ctor_kwargs(rtt,"TaskExecution"))
wf=fields("models/workflow.py","Workflow"); e2d=func("persistence/sqlite/converters.py","execution_to_dict")
k=max(dict_keys_in(e2d), key=len); print("wf fields not stored:", [f for f in wf if f not in k]); 
print("row_to_execution kwargs missing:", [f for f in wf if f not in ctor_kwargs(func("persistence/sqlite/converters.py","row_to_execution"),"Workflow")])
