"""TaskResult.redirect() (public API, no target stage) leaves the stage RUNNING for good.

Workflow: one stage, one task that returns TaskResult.redirect(context={"branch": "b"}).

RunTask: REDIRECT without target_stage_ref_id -> _handle_success_like -> CompleteTask(status=REDIRECT).
CompleteTask: `if message.status == REDIRECT:` stores the task as REDIRECT and pushes NOTHING ("flow handled by
JumpToStageHandler") - but no JumpToStage was ever pushed, because there is no target. The stage stays RUNNING with its only
task REDIRECT, the queue is empty, the workflow never reaches a final status.

exit 1 = wedge reproduced, exit 0 = not reproduced.
"""
import os
import sys
import tempfile

REPO_ROOT = os.environ.get("REPO_ROOT", "/repo")
sys.path.insert(0, os.path.join(REPO_ROOT, "src"))

from stabilize import (  # noqa: E402
    Orchestrator, QueueProcessor, SqliteQueue, SqliteWorkflowStore, StageExecution, Task, TaskExecution, TaskRegistry,
    TaskResult, Workflow,
)


class Decide(Task):
    def execute(self, stage):
        return TaskResult.redirect(context={"branch": "b"})


class Ok(Task):
    def execute(self, stage):
        return TaskResult.success()


def main() -> int:
    d = tempfile.mkdtemp(prefix="redir-")
    cs = f"sqlite:///{d}/t.db"
    store = SqliteWorkflowStore(cs, create_tables=True)
    queue = SqliteQueue(cs)
    queue._create_table()
    reg = TaskRegistry()
    reg.register("decide", Decide)
    reg.register("ok", Ok)
    wf = Workflow.create(application="demo", name="redir", stages=[
        StageExecution(ref_id="A", name="A", context={}, tasks=[TaskExecution.create("t", "decide", stage_start=True, stage_end=True)]),
        StageExecution(ref_id="B", name="B", context={}, requisite_stage_ref_ids={"A"}, tasks=[TaskExecution.create("t", "ok", stage_start=True, stage_end=True)]),
    ])
    store.store(wf)
    Orchestrator(queue).start(wf)
    QueueProcessor(queue, store=store, task_registry=reg).process_all(timeout=10.0)
    r = store.retrieve(wf.id)
    print("workflow", r.status.name, {s.ref_id: (s.status.name, [t.status.name for t in s.tasks]) for s in r.stages}, "queue size", queue.size())
    if not r.status.is_complete and queue.size() == 0:
        print("WEDGE REPRODUCED: stage RUNNING, task REDIRECT, nothing queued")
        return 1
    print("ok: workflow reached", r.status.name)
    return 0


if __name__ == "__main__":
    sys.exit(main())
