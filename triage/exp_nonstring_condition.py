#!/usr/bin/env python
"""Candidate 1: OR-split with a non-string split condition.

Property: a malformed condition can skip a branch but cannot crash a stage;
whenever the queue is drained each workflow is in a final status.

Workflow: a -> {b, c}, a is an OR-split with split_conditions
{"b": <non-string>, "c": "x > 1"}.  The real QueueProcessor drains the queue
the way the daemon loop does (handler exception -> logged, message
rescheduled, retried up to max_attempts, then moved to the DLQ).

Exit 1 when the outcome is a crashed / hung / failed stage, 0 when the
malformed condition only skips (or defaults) a branch.

REPO_ROOT env var selects the source tree (default /repo).
"""

from __future__ import annotations

import logging
import os
import sys
import tempfile
import time
from datetime import timedelta

REPO_ROOT = os.environ.get("REPO_ROOT", "/repo")
sys.path.insert(0, os.path.join(REPO_ROOT, "src"))

from stabilize import (  # noqa: E402
    Orchestrator,
    QueueProcessor,
    SqliteQueue,
    SqliteWorkflowStore,
    StageExecution,
    Task,
    TaskRegistry,
    TaskResult,
)
from stabilize.models.stage import SplitType  # noqa: E402
from stabilize.models.status import WorkflowStatus  # noqa: E402
from stabilize.models.task import TaskExecution  # noqa: E402
from stabilize.models.workflow import Workflow  # noqa: E402
from stabilize.persistence.connection import ConnectionManager, SingletonMeta  # noqa: E402
from stabilize.queue.processor.config import QueueProcessorConfig  # noqa: E402

import stabilize  # noqa: E402

logging.disable(logging.CRITICAL)

FINAL = {
    WorkflowStatus.SUCCEEDED,
    WorkflowStatus.FAILED_CONTINUE,
    WorkflowStatus.TERMINAL,
    WorkflowStatus.CANCELED,
    WorkflowStatus.STOPPED,
    WorkflowStatus.SKIPPED,
}


class XTask(Task):
    def execute(self, stage: StageExecution) -> TaskResult:
        return TaskResult.success(outputs={"x": 5})


class OkTask(Task):
    def execute(self, stage: StageExecution) -> TaskResult:
        return TaskResult.success(outputs={"ran": stage.ref_id})


def one(ref: str, impl: str, **kw) -> StageExecution:
    return StageExecution(
        ref_id=ref,
        name=ref,
        tasks=[TaskExecution.create(f"{ref}-task", impl, stage_start=True, stage_end=True)],
        **kw,
    )


def drain(processor: QueueProcessor, queue: SqliteQueue, budget: float = 20.0) -> list[str]:
    """Drain like the daemon: a handler exception is logged, the message is
    rescheduled (process_one does that before re-raising) and retried."""
    errors: list[str] = []
    start = time.monotonic()
    while time.monotonic() - start < budget:
        if queue.size() == 0:
            break
        try:
            if not processor.process_one():
                # nothing deliverable: either delayed, or past max_attempts
                moved = queue.check_and_move_expired()
                if moved == 0:
                    time.sleep(0.01)
        except Exception as e:  # noqa: BLE001
            errors.append(f"{type(e).__name__}: {e}")
    return errors


def run(label: str, bad_condition: object) -> bool:
    tmp = tempfile.mkdtemp(prefix="tri3-c1-")
    cs = f"sqlite:///{tmp}/wf.db"
    store = SqliteWorkflowStore(connection_string=cs, create_tables=True)
    queue = SqliteQueue(connection_string=cs, table_name="queue_messages", max_attempts=4)
    queue._create_table()
    reg = TaskRegistry()
    reg.register("xtask", XTask)
    reg.register("ok", OkTask)
    processor = QueueProcessor(
        queue,
        config=QueueProcessorConfig(retry_delay=timedelta(milliseconds=1)),
        store=store,
        task_registry=reg,
    )
    wf = Workflow.create(
        application="tri3",
        name=f"or-split-{label}",
        stages=[
            one("a", "xtask", split_type=SplitType.OR, split_conditions={"b": bad_condition, "c": "x > 1"}),
            one("b", "ok", requisite_stage_ref_ids={"a"}),
            one("c", "ok", requisite_stage_ref_ids={"a"}),
        ],
    )
    store.store(wf)
    Orchestrator(queue).start(wf)
    errors = drain(processor, queue)

    result = store.retrieve(wf.id)
    st = {s.ref_id: s.status for s in result.stages}
    dlq = queue.list_dlq()
    print(f"--- variant {label}: split_conditions['b'] = {bad_condition!r}")
    print(f"    workflow={result.status.name}  " + "  ".join(f"{k}={v.name}" for k, v in sorted(st.items())))
    print(f"    queue size={queue.size()}  dlq size={len(dlq)}  handler exceptions={len(errors)}")
    for e in sorted(set(errors)):
        print(f"    handler raised: {e}")
    for d in dlq:
        print(f"    DLQ: {d.get('message_type')}  error={str(d.get('error'))[:120]}")

    ok = (
        result.status == WorkflowStatus.SUCCEEDED
        and st["a"] == WorkflowStatus.SUCCEEDED
        and st["c"] == WorkflowStatus.SUCCEEDED
        and st["b"] in {WorkflowStatus.SKIPPED, WorkflowStatus.SUCCEEDED}
        and not errors
        and not dlq
    )
    if not ok:
        if result.status not in FINAL:
            print("    VIOLATION: queue drained but the workflow is not final (hung)")
        elif result.status != WorkflowStatus.SUCCEEDED:
            print("    VIOLATION: the malformed condition failed the stage/workflow instead of skipping a branch")
        else:
            print("    VIOLATION: handler crashed / messages dead-lettered")
    else:
        print("    ok: malformed condition only skipped/defaulted a branch")
    store.close()
    SingletonMeta.reset(ConnectionManager)
    return ok


def main() -> int:
    print(f"stabilize from {os.path.dirname(stabilize.__file__)}")
    results = [
        run("bool-True", True),
        run("int-7", 7),
        run("dict", {"expr": "x > 1"}),
        run("list", ["x > 1"]),
    ]
    # control: a malformed *string* must only skip the branch
    results.append(run("control-bad-string", "x >"))
    return 0 if all(results) else 1


if __name__ == "__main__":
    sys.exit(main())
