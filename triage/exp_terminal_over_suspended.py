"""A failing branch finalises the workflow TERMINAL while a sibling stage is SUSPENDED - and leaves it SUSPENDED (C05).

Two independent top-level stages: A suspends (waits for a signal), B fails. CompleteWorkflow stores TERMINAL and pushes
CancelStage for the RUNNING top-level stages only; A is SUSPENDED, gets no CancelStage and stays SUSPENDED for good inside a
finished workflow (a later signal 'resumes' a stage of a TERMINAL workflow).

exit 1 = a non-final stage remains in the finished workflow, exit 0 = every stage ended.
"""
import logging
import os
import sys
import tempfile

REPO_ROOT = os.environ.get("REPO_ROOT", "/repo")
sys.path.insert(0, os.path.join(REPO_ROOT, "src"))

from stabilize import Orchestrator, QueueProcessor, SqliteQueue, SqliteWorkflowStore, StageExecution, Task, TaskExecution, TaskRegistry, TaskResult, Workflow  # noqa: E402
from stabilize.models.status import WorkflowStatus  # noqa: E402

logging.disable(logging.CRITICAL)


class Susp(Task):
    def execute(self, stage):
        return TaskResult.success() if stage.context.get("_signal_name") else TaskResult(status=WorkflowStatus.SUSPENDED)


class Fail(Task):
    def execute(self, stage):
        return TaskResult.terminal("boom")


def main() -> int:
    d = tempfile.mkdtemp(prefix="term-susp-")
    url = f"sqlite:///{d}/t.db"
    store = SqliteWorkflowStore(url, create_tables=True)
    q = SqliteQueue(url)
    q._create_table()
    reg = TaskRegistry()
    reg.register("susp", Susp)
    reg.register("fail", Fail)
    wf = Workflow.create(application="a", name="n", stages=[
        StageExecution(ref_id="A", type="t", name="A", context={}, tasks=[TaskExecution.create("t", "susp", stage_start=True, stage_end=True)]),
        StageExecution(ref_id="B", type="t", name="B", context={}, tasks=[TaskExecution.create("t", "fail", stage_start=True, stage_end=True)]),
    ])
    store.store(wf)
    Orchestrator(q).start(wf)
    QueueProcessor(q, store=store, task_registry=reg).process_all(timeout=10.0)
    r = store.retrieve(wf.id)
    st = {s.ref_id: s.status.name for s in r.stages}
    print("workflow", r.status.name, st, "queue size", q.size())
    left = {k: v for k, v in st.items() if v in ("RUNNING", "SUSPENDED", "PAUSED")}
    if r.status.is_complete and left:
        print("DEFECT REPRODUCED: the workflow is", r.status.name, "but", left, "never ended")
        return 1
    print("ok")
    return 0


if __name__ == "__main__":
    sys.exit(main())
