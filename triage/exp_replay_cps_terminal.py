"""Replay vs store when ContinueParentStage is what fails the parent (C12, crash-free, one delivery order).

parent (one task) with two parallel STAGE_BEFORE children: b1 succeeds, b2 fails TERMINAL.
Delivery order: b1's ContinueParentStage(parent) is handled after b2 is stored TERMINAL but before the CompleteStage(parent)
that b2's completion pushed (e.g. the ContinueParentStage was re-queued with its delay while b2 was still running and comes due
first). ContinueParentStage's any-failed branch stores the parent TERMINAL without an event and pushes CompleteStage(parent);
both CompleteStage(parent) messages then find the stage already halted and record nothing.

exit 1 = store says parent TERMINAL, replay says RUNNING; exit 0 = they agree.
"""
import os
import sys

sys.path.insert(0, os.path.dirname(os.path.abspath(__file__)))
from tri5_rig import Rig  # noqa: E402

from stabilize.events import SqliteEventStore, configure_event_sourcing, reset_event_bus, reset_event_recorder  # noqa: E402
from stabilize.events.replay import EventReplayer  # noqa: E402
from stabilize.models.stage import StageExecution, SyntheticStageOwner  # noqa: E402
from stabilize.models.task import TaskExecution  # noqa: E402
from stabilize.queue.messages import CompleteStage, ContinueParentStage  # noqa: E402
from stabilize.tasks.interface import Task  # noqa: E402
from stabilize.tasks.result import TaskResult  # noqa: E402


class Ok(Task):
    def execute(self, stage):
        return TaskResult.success()


class Boom(Task):
    def execute(self, stage):
        return TaskResult.terminal("boom")


def st(ref, impl, **kw):
    return StageExecution(ref_id=ref, type="demo", name=ref, tasks=[TaskExecution.create(name=ref + "-t", implementing_class=impl, stage_start=True, stage_end=True)], **kw)


def main() -> int:
    reset_event_bus()
    reset_event_recorder()
    parent = st("parent", "ok")
    b1 = st("b1", "ok", synthetic_stage_owner=SyntheticStageOwner.STAGE_BEFORE)
    b2 = st("b2", "boom", synthetic_stage_owner=SyntheticStageOwner.STAGE_BEFORE)
    b1.parent_stage_id = parent.id
    b2.parent_stage_id = parent.id
    import tri5_rig
    orig_init = tri5_rig.SqliteWorkflowStore.__init__
    holder = {}

    def init(self, conn, *a, **kw):
        orig_init(self, conn, *a, **kw)
        holder["es"] = SqliteEventStore(conn, create_tables=True)
        configure_event_sourcing(holder["es"])

    tri5_rig.SqliteWorkflowStore.__init__ = init
    rig = Rig([parent, b1, b2], {"ok": Ok, "boom": Boom})
    es = holder["es"]
    held = lambda m: isinstance(m, ContinueParentStage) or rig.is_for(m, CompleteStage, "parent")  # noqa: E731
    rig.drain_fifo(hold=held)
    print("held:", [rig.label(m) for m in rig.pending()], "| b2 is", rig.stage("b2").status.name)
    cps = [m for m in rig.pending() if isinstance(m, ContinueParentStage)]
    if not cps:
        print("no ContinueParentStage pending - scenario not reached")
        return 0
    rig.deliver(cps[0], "   <- before CompleteStage(parent)")
    rig.drain_fifo()
    print("\n".join("  " + t for t in rig.compact_trace()[-8:]))
    live = rig.store.retrieve(rig.wf.id)
    rebuilt = EventReplayer(es).rebuild_workflow_state(rig.wf.id)
    for e in es.get_events_for_workflow(rig.wf.id):
        print(f"  {e.sequence:3d} {e.event_type.value:18s} {e.data.get('name') or ''} {e.data.get('status') or ''}")
    diffs = []
    for s in live.stages:
        r = rebuilt["stages"].get(s.id, {}).get("status")
        if r != s.status.name:
            diffs.append(f"stage {s.ref_id}: store={s.status.name} replay={r}")
    if rebuilt["status"] != live.status.name:
        diffs.append(f"workflow: store={live.status.name} replay={rebuilt['status']}")
    print("store :", live.status.name, [(s.ref_id, s.status.name) for s in live.stages])
    if diffs:
        print("DIVERGENCE REPRODUCED:\n  " + "\n  ".join(diffs))
        return 1
    print("ok: replay reproduces the stored state")
    return 0


if __name__ == "__main__":
    sys.exit(main())
