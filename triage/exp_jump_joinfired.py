#!/usr/bin/env python
"""Candidate A2 probe: does a jump put `_join_fired` / `_completed_branches` back on a
re-armed DISCRIMINATOR / N_OF_M join that is the jump target?

Workflow:  root -> (a, b) -> join (DISCRIMINATOR | N_OF_M 1-of-2) -> route
  route run 1: jump_to("join")   (join is the jump TARGET, it has fired: _join_fired=True)
  route run 2: jump_to("root")   (join is now re-armed as a DOWNSTREAM stage and must become
                                  READY again through normal readiness, WITHOUT _jump_bypass)
  route run 3: success

Observed at each jump commit: the keys of the `updates` dict that mutate_target writes onto
the fresh row, and the join tracking keys in the row right after the commit.

exit 1 = stale join tracking written back / workflow wedged, 0 = harmless.
"""

from __future__ import annotations

import os
import sys
import tempfile

REPO_ROOT = os.environ.get("REPO_ROOT", "/repo")
sys.path.insert(0, os.path.join(REPO_ROOT, "src"))

import logging  # noqa: E402

logging.disable(logging.CRITICAL)

import stabilize  # noqa: E402
from stabilize import (  # noqa: E402
    JoinType,
    Orchestrator,
    QueueProcessor,
    SqliteQueue,
    SqliteWorkflowStore,
    StageExecution,
    Task,
    TaskRegistry,
    TaskResult,
)
from stabilize.models.status import WorkflowStatus  # noqa: E402
from stabilize.models.task import TaskExecution  # noqa: E402
from stabilize.models.workflow import Workflow  # noqa: E402
from stabilize.queue.messages import JumpToStage  # noqa: E402

TRACK = ("_join_fired", "_completed_branches", "_activated_branches")
RUNS: dict[str, int] = {}


class Ok(Task):
    def execute(self, stage: StageExecution) -> TaskResult:
        RUNS[stage.ref_id] = RUNS.get(stage.ref_id, 0) + 1
        return TaskResult.success()


class Route(Task):
    def execute(self, stage: StageExecution) -> TaskResult:
        RUNS["route"] = RUNS.get("route", 0) + 1
        n = RUNS["route"]
        if n == 1:
            return TaskResult.jump_to("join")
        if n == 2:
            return TaskResult.jump_to("root")
        return TaskResult.success()


def st(ref: str, task: str, req: set[str] | None = None, **kw) -> StageExecution:
    return StageExecution(
        ref_id=ref,
        name=ref,
        requisite_stage_ref_ids=req or set(),
        context={},
        tasks=[TaskExecution.create(ref, task, stage_start=True, stage_end=True)],
        **kw,
    )


def run(join_type: JoinType) -> bool:
    RUNS.clear()
    tmp = tempfile.mkdtemp(prefix="tri4-a2-")
    db = os.path.join(tmp, "wf.db")
    store = SqliteWorkflowStore(connection_string=f"sqlite:///{db}", create_tables=True)
    queue = SqliteQueue(connection_string=f"sqlite:///{db}", table_name="queue_messages")
    queue._create_table()
    reg = TaskRegistry()
    reg.register("ok", Ok)
    reg.register("route", Route)
    proc = QueueProcessor(queue, store=store, task_registry=reg)
    kw = {"join_type": join_type}
    if join_type == JoinType.N_OF_M:
        kw["join_threshold"] = 1
    wf = Workflow.create(
        application="tri4",
        name="jump-joinfired",
        stages=[
            st("root", "ok"),
            st("a", "ok", {"root"}),
            st("b", "ok", {"root"}),
            st("join", "ok", {"a", "b"}, **kw),
            st("route", "route", {"join"}),
        ],
    )
    store.store(wf)
    Orchestrator(queue).start(wf)
    join_id = store.retrieve(wf.id).stage_by_ref_id("join").id

    jump_handler = proc._handlers[JumpToStage]
    orig_apply = jump_handler._apply_jump
    bad = {"stale": False}

    def apply_jump(mutations, message, messages_to_push):
        before = {k: v for k, v in store.retrieve_stage(join_id).context.items() if k in TRACK}
        written = None
        for stage_id, mutate in mutations:
            if stage_id == join_id and getattr(mutate, "__defaults__", None):
                written = sorted(mutate.__defaults__[0].keys())
        orig_apply(mutations, message, messages_to_push)
        after = {k: v for k, v in store.retrieve_stage(join_id).context.items() if k in TRACK}
        print(
            f"  jump -> {message.target_stage_ref_id}: join tracking before={before} "
            f"keys written onto join by the jump={written} after commit={after}"
        )
        if after:
            bad["stale"] = True

    jump_handler._apply_jump = apply_jump  # type: ignore[method-assign]
    proc.process_all(timeout=20.0)

    result = store.retrieve(wf.id)
    statuses = {s.ref_id: s.status.name for s in result.stages}
    print(f"  workflow={result.status.name} stages={statuses} queue_size={queue.size()} runs={RUNS}")
    wedged = result.status != WorkflowStatus.SUCCEEDED or RUNS.get("join") != 3
    store.close()
    return bad["stale"] or wedged


def main() -> int:
    print(f"stabilize from {os.path.dirname(stabilize.__file__)}")
    rc = 0
    for jt in (JoinType.DISCRIMINATOR, JoinType.N_OF_M):
        print(f"{jt.name} join as jump target, then as re-armed downstream stage:")
        if run(jt):
            rc = 1
    if rc:
        print("DEFECT REPRODUCED: stale join tracking survives the jump or the join never re-fires")
    else:
        print("harmless: join tracking is absent right after each jump commit and the join fires in every iteration")
    return rc


if __name__ == "__main__":
    sys.exit(main())
