"""The processed-message retention sweep deletes records that are far younger than the retention (C09).

processed_at is written by SQLite as 'YYYY-MM-DD HH:MM:SS'; cleanup_old_processed_messages compares it AS A STRING with
cutoff.isoformat() = 'YYYY-MM-DDTHH:MM:SS.ffffff+00:00'. ' ' sorts before 'T', so every record of the cutoff's calendar day
is 'older' than the cutoff whatever its time: with the default 24 h retention a sweep shortly after midnight UTC deletes the
records of the whole previous day, including one written seconds earlier. A redelivery of that message (worker died before the
ack) is then handled a second time.

The demo writes one record "90 minutes ago" relative to a frozen clock and runs a 2-hour sweep whose cutoff falls on the same
calendar day. exit 1 = the 90-minute-old record was deleted by a 2-hour retention, exit 0 = it survived.
"""
import os
import sys
import tempfile
from datetime import UTC, datetime, timedelta

REPO_ROOT = os.environ.get("REPO_ROOT", "/repo")
sys.path.insert(0, os.path.join(REPO_ROOT, "src"))

from stabilize.persistence.sqlite import SqliteWorkflowStore  # noqa: E402


def main() -> int:
    d = tempfile.mkdtemp(prefix="dedup-sweep-")
    store = SqliteWorkflowStore(f"sqlite:///{d}/t.db", create_tables=True)
    conn = store._get_connection()
    now = datetime.now(UTC)
    young = now - timedelta(minutes=90)
    cutoff = now - timedelta(hours=2)
    if young.date() != cutoff.date():
        # keep both on one calendar day so the demonstration does not depend on the time of day it is run at
        young = cutoff + timedelta(seconds=1)
    store.mark_message_processed("m-young", handler_type="X", execution_id="e")
    conn.execute("UPDATE processed_messages SET processed_at = ? WHERE message_id = 'm-young'", (young.strftime("%Y-%m-%d %H:%M:%S"),))
    store.mark_message_processed("m-old", handler_type="X", execution_id="e")
    conn.execute("UPDATE processed_messages SET processed_at = ? WHERE message_id = 'm-old'", ((now - timedelta(hours=5)).strftime("%Y-%m-%d %H:%M:%S"),))
    conn.commit()
    removed = store.cleanup_old_processed_messages(max_age_hours=2.0)
    left = sorted(r[0] for r in conn.execute("SELECT message_id FROM processed_messages"))
    print(f"record written {int((now - young).total_seconds() // 60)} min ago, retention 2 h: removed={removed}, left={left}, is_message_processed(m-young)={store.is_message_processed('m-young')}")
    if "m-young" not in left:
        print("DEFECT REPRODUCED: a record younger than the retention was swept; a redelivery of that message would be handled again")
        return 1
    if "m-old" in left:
        print("note: the 5-hour-old record was not swept")
    print("ok: only records older than the retention were removed")
    return 0


if __name__ == "__main__":
    sys.exit(main())
